"""Shared plumbing for /verif/bin/check.

Nothing in here judges anything: it builds the Go harness from /repo's working
tree, runs TLC (exhaustive / simulate / trace monitors), parses what TLC printed
and writes evidence.  All verdicts come from TLA+ modules under /verif/specs.
"""
import atexit
import glob
import json
import os
import re
import shutil
import subprocess
import sys
import tempfile
import time

VERIF = os.path.dirname(os.path.dirname(os.path.abspath(__file__)))
REPO = os.environ.get("VERIF_REPO", "/repo")
SPECS = os.path.join(VERIF, "specs")
# VERIF_REPO / VERIF_BUILD / VERIF_EVIDENCE divert a run to another tree (bin/seedtest2: a scratch worktree with a seeded
# change applied, its own build directory, evidence thrown away); the registered commands never set them
BUILD = os.environ.get("VERIF_BUILD", os.path.join(VERIF, ".build"))
EVIDENCE = os.environ.get("VERIF_EVIDENCE", os.path.join(VERIF, "evidence"))
REPLAYS = os.path.join(BUILD, "replays")
GO_TOOLCHAIN = "/root/go/pkg/mod/golang.org/toolchain@v0.0.1-go1.24.9.linux-amd64/bin/go"
NCPU = os.cpu_count() or 4


class Infra(Exception):
    """Infrastructure trouble: exit 2, never a violation."""


def log(*a):
    print(*a, flush=True)


# --------------------------------------------------------------------------- Go

def go_bin():
    return GO_TOOLCHAIN if os.path.exists(GO_TOOLCHAIN) else "go"


def go_env():
    env = dict(os.environ)
    env.update(GOFLAGS="-mod=mod", GOPROXY="off", GOSUMDB="off")
    env["GOTOOLCHAIN"] = "local" if os.path.exists(GO_TOOLCHAIN) else "auto"
    if env["GOTOOLCHAIN"] == "auto":
        env.pop("GOSUMDB", None)
    return env


def build_vh(tags=("verif",), race=False):
    """Builds the harness against /repo's current working tree (replace directive)."""
    os.makedirs(BUILD, exist_ok=True)
    name = "vh" + "".join("-" + t for t in tags if t != "verif") + ("-race" if race else "")
    out = os.path.join(BUILD, name)
    hdir = os.path.join(VERIF, "harness")
    if REPO != "/repo":
        # the harness module names /repo in its replace directive: build a copy that names the other tree
        src, hdir = hdir, os.path.join(BUILD, "harness-src")
        shutil.rmtree(hdir, ignore_errors=True)
        shutil.copytree(src, hdir)
        gm = os.path.join(hdir, "go.mod")
        with open(gm) as f:
            text = f.read()
        with open(gm, "w") as f:
            f.write(text.replace("=> /repo", "=> " + REPO))
    gosum = os.path.join(hdir, "go.sum")
    if not os.path.exists(gosum):
        shutil.copy(os.path.join(REPO, "go.sum"), gosum)
    cmd = [go_bin(), "build", "-tags", ",".join(tags)]
    if race:
        cmd.append("-race")
    cmd += ["-o", out, "./cmd/vh"]
    t0 = time.time()
    p = subprocess.run(cmd, cwd=hdir, env=go_env(), capture_output=True, text=True)
    if p.returncode != 0:
        raise Infra("harness build failed:\n" + p.stdout + p.stderr)
    log(f"[build] {name} in {time.time()-t0:.1f}s")
    return out


def run_vh(vh, args, stdin=None, timeout=600, env=None, ok_codes=(0,)):
    e = dict(os.environ)
    if env:
        e.update(env)
    try:
        p = subprocess.run([vh] + list(args), input=stdin, capture_output=True, text=True,
                           timeout=timeout, env=e)
    except subprocess.TimeoutExpired:
        raise Infra(f"harness timed out: vh {' '.join(args)}")
    if p.returncode not in ok_codes:
        raise Infra(f"harness failed rc={p.returncode}: vh {' '.join(args)}\n{p.stderr[-4000:]}")
    return p


# ---------------------------------------------------------------------- scratch

_scratch = []


def scratch(prefix="verif-"):
    d = tempfile.mkdtemp(prefix=prefix)
    _scratch.append(d)
    return d


@atexit.register
def _cleanup():
    if os.environ.get("VERIF_KEEP"):
        for d in _scratch:
            print("[keep]", d, file=sys.stderr)
        return
    for d in _scratch:
        shutil.rmtree(d, ignore_errors=True)


def spec_dir(wd):
    """Copies the TLA+ modules and configs into a scratch dir (TLC litters its cwd)."""
    for f in glob.glob(os.path.join(SPECS, "*.tla")) + glob.glob(os.path.join(SPECS, "*.cfg")):
        dst = os.path.join(wd, os.path.basename(f))
        if not os.path.exists(dst):
            shutil.copy(f, dst)
    return wd


# -------------------------------------------------------------------------- TLC

TLC_CP = "/opt/veriftools/tla/tla2tools.jar:/opt/veriftools/tla/CommunityModules-deps.jar"


class TLCResult:
    def __init__(self, rc, out, wall):
        self.rc, self.out, self.wall = rc, out, wall
        m = re.search(r"(\d+) states generated, (\d+) distinct states found", out)
        self.generated = int(m.group(1)) if m else 0
        self.distinct = int(m.group(2)) if m else 0
        self.violation = rc in (12, 13) or "is violated" in out
        self.deadlock = rc == 11 or "Deadlock reached" in out
        self.error = rc not in (0, 12, 13, 11) or "Error: " in out and not (self.violation or self.deadlock)

    def prints(self, tag):
        """Payloads of PrintT(<<"tag", ToJson(x)>>) lines, decoded."""
        res = []
        pre = '<<"%s", ' % tag
        for line in self.out.splitlines():
            if line.startswith(pre) and line.endswith(">>"):
                body = line[len(pre):-2]
                try:
                    res.append(json.loads(json.loads(body)))
                except Exception as e:  # pragma: no cover
                    raise Infra(f"cannot parse TLC print: {line[:300]} ({e})")
        return res

    def counterexample(self):
        """Raw text of the error trace, if any."""
        i = self.out.find("Error: ")
        return self.out[i:i + 20000] if i >= 0 else ""


def tlc(wd, module, cfg=None, *, workers="auto", simulate=None, depth=None, seed=None,
        timeout=900, heap=None, extra=(), jvm=(), deadlock=None, dump=None):
    """Runs TLC on specs copied to wd. simulate = num of behaviours (per worker)."""
    spec_dir(wd)
    meta = tempfile.mkdtemp(prefix="md-", dir=wd)
    cmd = ["java", "-XX:+UseParallelGC", "-Djava.io.tmpdir=" + wd]   # TLC unpacks its modules into tmpdir: keep that in the scratch dir
    if heap:
        cmd.append("-Xmx" + heap)
    cmd += list(jvm) + ["-cp", TLC_CP, "tlc2.TLC", "-metadir", meta]
    cmd += ["-workers", str(workers)]
    if cfg:
        cmd += ["-config", cfg]
    if simulate is not None:
        sim = f"num={simulate}"
        cmd += ["-simulate", sim]
        if depth:
            cmd += ["-depth", str(depth)]
    if seed is not None:
        cmd += ["-seed", str(seed)]
    if dump:
        cmd += ["-dump", "dot,actionlabels", dump]
    if deadlock is False:
        cmd += ["-deadlock"]
    cmd += list(extra) + [module]
    t0 = time.time()
    try:
        p = subprocess.run(cmd, cwd=wd, capture_output=True, text=True, timeout=timeout)
    except subprocess.TimeoutExpired:
        subprocess.run(["pkill", "-f", meta], capture_output=True)
        raise Infra(f"TLC timed out after {timeout}s on {module} {cfg}")
    finally:
        shutil.rmtree(meta, ignore_errors=True)
    r = TLCResult(p.returncode, p.stdout + p.stderr, time.time() - t0)
    if os.environ.get("VERIF_DEBUG"):
        log(r.out[-3000:])
    return r


def require_clean(r, what):
    """An exhaustive run of a model that is expected to pass."""
    if r.violation or r.deadlock or r.rc != 0:
        raise Infra(f"{what}: TLC rc={r.rc}\n{r.out[-3000:]}")
    return r


# ------------------------------------------------------------------- ndjson I/O

def write_ndjson(path, items):
    with open(path, "w") as f:
        for it in items:
            f.write(json.dumps(it, separators=(",", ":"), sort_keys=True) + "\n")


def read_ndjson(path):
    out = []
    with open(path) as f:
        for line in f:
            line = line.strip()
            if line:
                out.append(json.loads(line))
    return out


# --------------------------------------------------------------- known findings

def known_findings(prop):
    with open(os.path.join(VERIF, "known_findings.json")) as f:
        kf = json.load(f)
    return [k for k in kf["findings"] if k["property"] == prop and k.get("status") == "open"]


def save_replay(prop, name, obj):
    os.makedirs(REPLAYS, exist_ok=True)
    path = os.path.join(REPLAYS, f"{prop}-{name}.json")
    with open(path, "w") as f:
        json.dump(obj, f, indent=1, sort_keys=True)
    return path


class Verdict:
    """Collects flagged traces, splits them into known findings and violations."""

    def __init__(self, prop):
        self.prop = prop
        self.known = known_findings(prop)
        self.kf_hits = {}
        self.violations = []

    def flag(self, cls, what, replay_obj, name):
        for k in self.known:
            if k["class"] == cls:
                self.kf_hits.setdefault(cls, []).append(what)
                return
        path = save_replay(self.prop, name, replay_obj)
        self.violations.append((cls, what, path))

    def report(self):
        for k in self.known:
            hits = self.kf_hits.get(k["class"], [])
            log(f"KNOWN-FINDING: property={self.prop} {k['what']} (class={k['class']}, {len(hits)} occurrences this run)")
        for cls, what, path in self.violations[:20]:
            log(f"VIOLATION property={self.prop} replay={path} class={cls} {what}")
        return 1 if self.violations else 0


# --------------------------------------------------------------------- evidence

def write_evidence(prop, tier, seed, level, coverage, assumptions, wall, violations):
    os.makedirs(EVIDENCE, exist_ok=True)
    ev = dict(property_id=prop, tier=tier, seed=int(seed), level=level, coverage=coverage,
              assumptions=assumptions, wall_s=round(wall, 2), violations=int(violations))
    with open(os.path.join(EVIDENCE, f"{prop}.json"), "w") as f:
        json.dump(ev, f, indent=1, sort_keys=True)
        f.write("\n")


# ------------------------------------------------------------ edge cover (step G)

def parse_dot(path):
    """TLC -dump dot,actionlabels -> (nodes{id:label}, init ids, edges[(src,dst,label)])."""
    nodes, init, edges = {}, [], []
    e_re = re.compile(r'^(-?\d+) -> (-?\d+) \[label="([^"]*)"')
    n_re = re.compile(r'^(-?\d+) \[label="(.*?)"(,style = filled)?\]')
    with open(path) as f:
        for line in f:
            m = e_re.match(line)
            if m:
                edges.append((m.group(1), m.group(2), m.group(3)))
                continue
            m = n_re.match(line)
            if m:
                nodes[m.group(1)] = m.group(2).replace("\\n", " ").replace("\\\\", "\\")
                if m.group(3):
                    init.append(m.group(1))
    return nodes, init, edges


def edge_cover(nodes, init, edges, extend=6):
    """Greedy transition cover: BFS tree to the source of every uncovered edge, then
    keep walking along uncovered edges. Returns [(root id, [labels])] covering every edge."""
    import collections
    adj = collections.defaultdict(list)
    for s, d, l in edges:
        adj[s].append((d, l))
    parent = {}
    dq = collections.deque()
    for i in init:
        parent[i] = None
        dq.append(i)
    while dq:
        u = dq.popleft()
        for v, l in adj[u]:
            if v not in parent:
                parent[v] = (u, l)
                dq.append(v)

    def path_to(u):
        p = []
        while parent[u] is not None:
            pu, l = parent[u]
            p.append(l)
            u = pu
        return u, p[::-1]

    covered, tests = set(), []
    for (s, d, l) in edges:
        if (s, d, l) in covered or s not in parent:
            continue
        root, p = path_to(s)
        p = p + [l]
        covered.add((s, d, l))
        cur, ext = d, 0
        while ext < extend:
            nxt = [(v, ll) for (v, ll) in adj[cur] if (cur, v, ll) not in covered]
            if not nxt:
                break
            v, ll = nxt[0]
            covered.add((cur, v, ll))
            p.append(ll)
            cur = v
            ext += 1
        tests.append((root, p))
    return tests, len(covered)


# ------------------------------------------------- execute / monitor / triage helpers

def execute(vh, cmd, wd, scenarios, seed, name, extra=(), timeout=1800, env=None, survive=False):
    """Runs `vh <cmd> --seed S --scenarios file` and returns the recorded trace path.
    survive: the library can kill the harness from a goroutine of its own (a panic there cannot be recovered); the
    trace in flight then gets a Fatal event and the run continues after that scenario (the monitor must know Fatal)."""
    if survive:
        return _execute_surviving(vh, cmd, wd, scenarios, seed, name, extra, timeout, env)
    sp = os.path.join(wd, name + ".scenarios.ndjson")
    write_ndjson(sp, scenarios)
    tp = os.path.join(wd, name + ".trace.ndjson")
    e = dict(os.environ)
    if env:
        e.update(env)
    with open(tp, "w") as out:
        try:
            p = subprocess.run([vh, cmd, "--seed", str(seed), "--scenarios", sp] + list(extra), stdout=out,
                               stderr=subprocess.PIPE, text=True, timeout=timeout, env=e)
        except subprocess.TimeoutExpired:
            raise Infra(f"vh {cmd} timed out")
    if p.returncode != 0:
        raise Infra(f"vh {cmd} failed rc={p.returncode}: " + p.stderr[-3000:])
    return tp


def _execute_surviving(vh, cmd, wd, scenarios, seed, name, extra, timeout, env):
    tp = os.path.join(wd, name + ".trace.ndjson")
    e = dict(os.environ, VH_SYNC="1")
    if env:
        e.update(env)
    remaining, t_off, restarts = list(scenarios), 0, 0
    with open(tp, "w") as out:
        while remaining:
            sp = os.path.join(wd, f"{name}.{restarts}.scenarios.ndjson")
            write_ndjson(sp, remaining)
            try:
                p = subprocess.run([vh, cmd, "--seed", str(seed), "--scenarios", sp] + list(extra), capture_output=True,
                                   text=True, timeout=timeout, env=e)
            except subprocess.TimeoutExpired:
                raise Infra(f"vh {cmd} timed out")
            events = [json.loads(ln) for ln in p.stdout.split("\n") if ln.endswith("}")]
            for ev in events:
                ev["t"] += t_off
                out.write(json.dumps(ev, separators=(",", ":")) + "\n")
            if p.returncode == 0:
                break
            died = "panic:" in p.stderr or "fatal error:" in p.stderr
            restarts += 1
            if not died or not events or restarts > len(scenarios) + 1:
                raise Infra(f"vh {cmd} failed rc={p.returncode}: " + p.stderr[-3000:])
            last = events[-1]
            reason = [ln for ln in p.stderr.split("\n") if ln.startswith(("panic:", "fatal error:"))][0][:300]
            out.write(json.dumps({"t": last["t"], "i": last["i"] + 1, "ev": "Fatal", "msg": reason}, separators=(",", ":")) + "\n")
            sc = [ev["sc"] for ev in events if ev["ev"] == "Init"][-1]
            idx = [i for i, s in enumerate(remaining) if s["id"] == sc][0]
            remaining = remaining[idx + 1:]
            t_off = last["t"]
    return tp


def monitor(wd, module, cfg, trace_path, timeout=3600, heap=None, jvm=()):
    """Runs a total verdict monitor over a trace file; returns (verdict dict, TLCResult)."""
    n = sum(1 for _ in open(trace_path))
    target = os.path.join(wd, "trace.ndjson")
    if os.path.abspath(trace_path) != target:
        shutil.copy(trace_path, target)
    r = tlc(wd, module, cfg, workers=1, timeout=timeout, heap=heap, jvm=jvm, extra=["-noGenerateSpecTE"])
    vs = r.prints("VERDICT")
    if r.rc != 0 or len(vs) != 1:
        raise Infra(f"{module} did not produce a verdict (rc={r.rc}):\n" + r.counterexample()[:2500] + "\n...\n" + r.out[-1500:])
    v = vs[0]
    if v["consumed"] != n:
        raise Infra(f"{module} consumed {v['consumed']} of {n} events")
    return v, r


def inits(trace_path):
    m = {}
    with open(trace_path) as f:
        for line in f:
            if '"ev":"Init"' in line:
                e = json.loads(line)
                m[e["t"]] = e
    return m


def events_of(trace_path, t):
    out = []
    with open(trace_path) as f:
        for line in f:
            if f'"t":{t},' in line or f'"t":{t}}}' in line:
                e = json.loads(line)
                if e["t"] == t:
                    out.append(e)
    return out


# ------------------------------------------------------------- generic pipeline

class Pipeline:
    """execute -> monitor -> triage -> report, shared by the per-property checks.

    cmd      harness sub-command
    monitor  (module, cfg) of the total verdict monitor
    pin      f(scenario, init_event) -> scenario restricted to the flagged variant (for re-execution)
    describe f(scenario, flagged_event) -> short text
    """

    def __init__(self, prop, cmd, monitor, pin=None, describe=None, extra=(), heap=None, env=None,
                 per_class=4, max_confirm=48):
        self.prop, self.cmd, self.mon = prop, cmd, monitor
        self.pin = pin or (lambda s, init: s)
        self.describe = describe or (lambda s, e: json.dumps({k: v for k, v in s.items() if k not in ("id", "src")})[:300])
        self.extra, self.heap, self.env = list(extra), heap, env
        self.per_class, self.max_confirm = per_class, max_confirm

    def execute(self, vh, wd, scenarios, seed, name):
        return execute(vh, self.cmd, wd, scenarios, seed, name, extra=self.extra, env=self.env, timeout=getattr(self, "timeout", 1800),
                       survive=getattr(self, "survive", False))

    def judge(self, wd, tp):
        return monitor(wd, self.mon[0], self.mon[1], tp, heap=self.heap, jvm=getattr(self, "jvm", ()))

    def run(self, vh, wd, scenarios, seed, out=None, name="all", tags=None):
        """Returns (Verdict, verdict dict, TLCResult of the monitor, trace path).
        out: a Verdict to add to; tags: build tags of vh when not the default (kept in the replay file)."""
        tp = self.execute(vh, wd, scenarios, seed, name)
        ini = inits(tp)
        verdict, vr = self.judge(wd, tp)
        log(f"[{self.prop}] V: {verdict['cnt']}")
        out = out or Verdict(self.prop)
        by_id = {s["id"]: s for s in scenarios}
        picked, per = [], {}
        seen = set()
        for t, i, cls in verdict["bad"]:
            sc = ini[t]["sc"]
            if (sc, t, cls) in seen:
                continue
            seen.add((sc, t, cls))
            if per.setdefault(cls, 0) >= self.per_class or len(picked) >= self.max_confirm:
                continue
            per[cls] += 1
            picked.append((sc, t, i, cls))
        if picked:
            confirm = []
            for n, (sc, t, i, cls) in enumerate(picked):
                s = dict(self.pin(dict(by_id[sc]), ini[t]))
                s["orig"] = s.get("orig", sc)
                s["id"] = n + 1
                confirm.append((s, cls))
            tp2 = self.execute(vh, wd, [c[0] for c in confirm], seed, name + "-confirm")
            in2 = inits(tp2)
            v2, _ = self.judge(wd, tp2)
            again = {}
            for t, i, cls in v2["bad"]:
                again.setdefault((in2[t]["sc"], cls), (t, i))
            unreproduced = []
            for s, cls in confirm:
                if (s["id"], cls) not in again:
                    # e.g. a schedule-dependent symptom: not reported as a violation; infrastructure trouble
                    # only if nothing at all reproduces
                    unreproduced.append((s, cls))
                    continue
                t2, i2 = again[(s["id"], cls)]
                e = [e for e in events_of(tp2, t2) if e["i"] == i2][0]
                what = self.describe(s, e) + " event=" + json.dumps({k: v for k, v in e.items() if k not in ("t",)})[:400]
                rp = {"property": self.prop, "scenario": s, "seed": seed, "class": cls}
                if tags:
                    rp["tags"] = list(tags)
                    what = "build=" + ",".join(tags) + " " + what
                out.flag(cls, what, rp, f"{cls.replace('@', '_').replace('/', '_')}-{s['orig']}-{s['id']}" + ("-" + tags[-1] if tags else ""))
            for s, cls in unreproduced:
                log(f"[{self.prop}] flagged but not reproduced when run alone ({cls}): {json.dumps(s)[:300]}")
            if unreproduced and len(unreproduced) == len(confirm):
                raise Infra(f"none of the {len(confirm)} flagged scenarios reproduced when run alone")
        return out, verdict, vr, tp

    def replay(self, path, seed):
        rp = json.load(open(path))
        vh = build_vh(tags=tuple(rp["tags"])) if rp.get("tags") else build_vh()
        wd = scratch()
        tp = self.execute(vh, wd, [rp["scenario"]], rp.get("seed", seed), "replay")
        print(open(tp).read()[:6000])
        v, _ = self.judge(wd, tp)
        if v["bad"]:
            print(f"VIOLATION property={self.prop} replay={path} class={v['bad'][0][2]}")
            return 1
        print("replay: trace accepted")
        return 0


def model_check(wd, module, cfg, what, workers=None, timeout=1800, **kw):
    return require_clean(tlc(wd, module, cfg, workers=workers or NCPU, extra=["-noGenerateSpecTE"], timeout=timeout, **kw), what)


def must_violate(wd, module, cfg, what):
    r = tlc(wd, module, cfg, workers=1, extra=["-noGenerateSpecTE"], timeout=600)
    if not (r.violation or r.deadlock):
        raise Infra(f"{what}: the as-found model no longer shows its counterexample")
    return r


def emit_scenarios(wd, module, cfg, minimum=1, **kw):
    r = tlc(wd, module, cfg, workers=kw.pop("workers", 1), extra=["-noGenerateSpecTE"], timeout=kw.pop("timeout", 1800), **kw)
    out = r.prints("SCENARIO")
    if len(out) < minimum:
        raise Infra(f"scenario emission from {module}/{cfg} produced {len(out)} < {minimum}:\n" + r.out[-1500:])
    return out
