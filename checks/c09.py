"""C09 — merging sorted row groups yields a sorted, complete, per-input-stable sequence.

X  Merge.tla: the planner of MergeRowGroups (bounds of the first sorting column from the first/last
   non-null page, segments by overlapping ranges, single-row-group segments concatenated, others
   merged) for every sorting configuration and every set of <=2/<=3 sorted inputs over {null,1,2}:
   the concatenation of the plan's segments is sorted and complete
G  the same universe (asc/desc x nulls first/last x input sets)
B  vh c09: inputs as files (one page or one page per key), buffers, compressed or not, every abstract
   row scaled to a block of 1/3/400 physical rows (400 reaches the >=1024-row range refinement);
   MergeRowGroups(...).Rows() with batch sizes 1/2/7/1000, Writer.WriteRowGroup(merged) read back,
   MergeRowReaders over chunking readers; with and without duplicate dropping
V  MergeMon.tla: sorted, every row a real input row, per-input order kept, complete / one row per key
"""
import random
import time

from lib import vf

PROP = "C09"
PIPE = vf.Pipeline(PROP, "c09", ("MergeMon.tla", "MergeMon.cfg"), pin=lambda s, init: dict(s, var=init["var"]),
                   heap="10g", per_class=4)


def run(tier, seed):
    t0 = time.time()
    quick = tier != "thorough"
    rnd = random.Random(seed)
    vh = vf.build_vh()
    wd = vf.scratch()
    x = vf.model_check(wd, "MC_Merge.tla", "MC_Merge_quick.cfg" if quick else "MC_Merge_thorough.cfg", "X Merge")
    vf.must_violate(wd, "MC_Merge.tla", "MC_Merge_asfound.cfg", "Merge")
    univ = vf.emit_scenarios(wd, "MC_Merge.tla", "MC_Merge_emit.cfg", minimum=3000)
    chosen = [dict(s) for s in (rnd.sample(univ, 220) if quick else univ)]
    # strata of the model's plan that a uniform sample rarely hits, with the harness variant pinned:
    #  several segments (disjoint inputs) -> dedupe on, blocks of 3 equal rows, file-backed  (var 9)
    #  partially overlapping inputs       -> blocks of 1100 rows with spread keys and small pages, no dedupe, so that
    #                                        lone stretches reach the 1024 rows the range refinement needs
    multi = [s for s in univ if s["nseg"] > 1]
    partial = [s for s in univ if s["partial"] and 0 not in [k for i in s["inputs"] for k in i]]
    for s in rnd.sample(multi, min(len(multi), 24 if quick else 400)):
        chosen.append(dict(s, var=9))
    for s in rnd.sample(partial, min(len(partial), 16 if quick else 300)):
        chosen.append(dict(s, var=134))  # block 1100, no dedupe, file-multipage, spread
    scenarios = [dict({"id": i + 1, "cfg": s["cfg"], "inputs": s["inputs"]}, **({"var": s["var"]} if "var" in s else {}))
                 for i, s in enumerate(chosen)]
    vf.log(f"[C09] X: {x.distinct} states; scenarios {len(scenarios)}")
    out, verdict, vr, tp = PIPE.run(vh, wd, scenarios, seed)
    cnt = verdict["cnt"]
    if cnt["outs"] < 2 * cnt["traces"] and cnt["flagged"] == 0:
        raise vf.Infra(f"dead driver: {cnt}")
    rc = out.report()
    ini = vf.inits(tp)
    vf.write_evidence(PROP, tier, seed, "model_checking", {
        "states": x.distinct + vr.distinct, "transitions": x.generated + vr.generated,
        "traces_validated_against_impl": cnt["traces"],
        "samples": [scenarios[0], scenarios[-1]],
        "model": {"module": "Merge.tla", "configurations_x_input_sets": x.distinct},
        "monitor": {"module": "MergeMon.tla", "events": verdict["consumed"], "outputs_judged": cnt["outs"],
                    "rows_judged": cnt["rows"], "vacuous": cnt["vacuous"], "flagged": cnt["flagged"]},
        "sources": sorted({e["source"] for e in ini.values()}), "blocks": sorted({e["block"] for e in ini.values()}),
        "exhaustive": not quick, "known_findings": sorted(out.kf_hits),
    }, [
        "one sorting column (optional int64), keys over {null, 1, 2}, <=3 inputs x <=2 abstract rows each, scaled to blocks",
        "multi-column sorting keys and the loser-tree internals are exercised only through trace validation (no refinement model yet)",
        "with duplicate dropping, which physical row of an equal-key run survives is not constrained",
    ], time.time() - t0, len(out.violations))
    return rc


def replay(path, seed):
    return PIPE.replay(path, seed)
