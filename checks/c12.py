"""C12 — reading through a different but compatible schema only adds or drops columns.

X  Convert.tla: the requirement Project(src, tgt, row) (shared columns keep values and nesting, added
   columns are null or zero) self-checked over 72 source schemas x their targets (<=2 edits among
   delete / permute / add at the root and inside a group) x all rows with lists <=1
G  the same universe, sampled
B  vh c12: Go types built from the named trees; rows written with the source type and obtained
   through the target schema via NewReader(file, schema).Read / ReadRows, ConvertRowGroup, CopyRows
   into a writer of the target schema, MergeRowGroups with the target schema
V  ConvertMon.tla: every output equals Project
"""
import random
import time

from lib import vf

PROP = "C12"
PIPE = vf.Pipeline(PROP, "c12", ("ConvertMon.tla", "ConvertMon.cfg"), heap="8g", per_class=6)


def run(tier, seed):
    t0 = time.time()
    quick = tier != "thorough"
    rnd = random.Random(seed)
    vh = vf.build_vh()
    wd = vf.scratch()
    x = vf.model_check(wd, "MC_Convert.tla", "MC_Convert_quick.cfg", "X Convert")
    univ = vf.emit_scenarios(wd, "MC_Convert.tla", "MC_Convert_emit.cfg", minimum=15000, timeout=900)
    chosen = rnd.sample(univ, 400) if quick else univ   # thorough: the whole emitted universe
    scenarios = [{"id": i + 1, "src": s["src"], "tgt": s["tgt"], "row": s["row"]} for i, s in enumerate(chosen)]
    vf.log(f"[C12] X: {x.distinct} (src, tgt, row) triples; scenarios {len(scenarios)}")
    out, verdict, vr, tp = PIPE.run(vh, wd, scenarios, seed)
    cnt = verdict["cnt"]
    if cnt["outs"] < 2 * cnt["traces"] and cnt["flagged"] == 0:
        raise vf.Infra(f"dead driver: {cnt}")
    rc = out.report()
    vf.write_evidence(PROP, tier, seed, "model_checking", {
        "states": x.distinct + vr.distinct, "transitions": x.generated + vr.generated,
        "traces_validated_against_impl": cnt["traces"],
        "samples": [scenarios[0], scenarios[-1]],
        "model": {"module": "Convert.tla", "triples": x.distinct},
        "monitor": {"module": "ConvertMon.tla", "events": verdict["consumed"], "outputs_judged": cnt["outs"],
                    "rows_judged": cnt["rows"], "flagged": cnt["flagged"]},
        "exhaustive": False, "known_findings": sorted(out.kf_hits),
    }, [
        "int64 leaves only; schemas: a leaf and a two-leaf group with every repetition, edited by <=2 delete / permute / add steps",
        "typed Read[T] with static type pairs, lists/maps logical types and type-changing conversions are not covered",
    ], time.time() - t0, len(out.violations))
    return rc


def replay(path, seed):
    return PIPE.replay(path, seed)
