"""C15 — documented concurrent use behaves like some serial execution.

X  AsyncPages.tla (caller || readPages goroutine, every channel operation one action): results are the
   synchronous reader's, every page delivered or released once, the capacity-1 seek send never blocks, no
   deadlock; ReadPage/Close return and the reader exits under strong fairness on the select alternatives
   (weak fairness must fail: sharpness), design mutants must fail.  LazyPublish.tla (CAS publication: all
   callers see one pointer; a plain Store must fail).  RowGroups.tla (row groups filled concurrently,
   committed serially: the file depends on the commit order only; a shared scratch must fail).
G  TLC simulation: behaviours of AsyncPages projected on their visible events; arrival/release orders of
   LazyPublish; fill/commit interleavings of RowGroups; workloads of Conc.tla
B  vh-race c15async: the real asyncPages over an underlying Pages served by the harness, steered along
   the behaviour (and free-running), every visible event logged in real-time order;
   vh-race c15: the patterns run serially and concurrently (digests), gated readers for the publication
V  AsyncTrace.tla: trace validation with unlogged channel steps (a trace is accepted iff some behaviour of
   AsyncPages reproduces all events and results); ConcMon.tla: serial equivalence, single pointer, no
   panic / hang / race (race detector reports are turned into Race events)
"""
import json
import os
import re
import subprocess
import time

from lib import vf

PROP = "C15"


# ------------------------------------------------------------------ async part

def async_scenarios(wd, quick, seed):
    out, seen = [], set()
    for cfg, n in (("MC_AsyncPages_sim.cfg", 120 if quick else 500), ("MC_AsyncPages_sim2.cfg", 80 if quick else 400)):
        for s in vf.emit_scenarios(wd, "MC_AsyncPages.tla", cfg, minimum=20, simulate=n, depth=200, seed=seed):
            k = json.dumps(s, sort_keys=True)
            if k in seen:
                continue
            seen.add(k)
            out.append({"id": len(out) + 1, "np": s["np"], "order": s["order"]})
    return out


def run_async(vh, wd, scenarios, seed, name, reps, burst=1, hang_ms=5000):
    """Runs vh c15async; a reported hang (rc 3) ends that process: the run continues after the hung scenario."""
    tp = os.path.join(wd, name + ".trace.ndjson")
    remaining, first_t, restarts, races, stderr = list(scenarios), 1, 0, 0, ""
    with open(tp, "w") as out:
        while remaining:
            sp = os.path.join(wd, f"{name}.{restarts}.scenarios.ndjson")
            vf.write_ndjson(sp, remaining)
            p = subprocess.run([vh, "c15async", "--seed", str(seed), "--scenarios", sp, "--reps", str(reps), "--burst", str(burst),
                                "--hang-ms", str(hang_ms), "--first-trace", str(first_t)], capture_output=True, text=True, timeout=7200,
                               env=dict(os.environ, GORACE="halt_on_error=0 exitcode=0"))
            lines = [ln for ln in p.stdout.split("\n") if ln.endswith("}")]
            for ln in lines:
                out.write(ln + "\n")
            races += p.stderr.count("WARNING: DATA RACE")
            stderr += p.stderr[-20000:]
            if p.returncode == 0:
                break
            if p.returncode != 3 or not lines:
                raise vf.Infra(f"vh c15async failed rc={p.returncode}: {p.stderr[-2000:]}")
            restarts += 1
            if restarts > 40:
                break
            sc = [json.loads(ln) for ln in lines if '"ev":"Init"' in ln][-1]["sc"]
            idx = [i for i, s in enumerate(remaining) if s["id"] == sc][0]
            remaining = remaining[idx + 1:]
            first_t = json.loads(lines[-1])["t"] + 1
    return tp, races, stderr


def validate_async(wd, tp, np):
    """Trace validation against AsyncPages. Returns (events consumed in total, traces, [(t, event)] rejected)."""
    events = [e for e in vf.read_ndjson(tp)]
    events = [e for e in events]
    # only the traces of this NP
    keep, cur = [], False
    for e in events:
        if e["ev"] == "Init":
            cur = e["np"] == np
        if cur:
            keep.append(e)
    rejected, total, traces = [], 0, sum(1 for e in keep if e["ev"] == "Init")
    states = 0
    cfg = f"AsyncTrace_np{np}.cfg"
    with open(os.path.join(wd, cfg), "w") as f:
        f.write(f'CONSTANTS NP = {np}  MaxOps = 100000  Faults = 100000  Bug = "none"\nSPECIFICATION TSpec\nCONSTRAINT Track\n'
                'INVARIANTS Conforms NoLeak SendNeverBlocks\nPOSTCONDITION Report\nCHECK_DEADLOCK FALSE\n')
    rest = keep
    while rest:
        vf.write_ndjson(os.path.join(wd, "trace.ndjson"), rest)
        r = vf.tlc(wd, "AsyncTrace.tla", cfg, workers=1, timeout=3000, heap="8g", extra=["-noGenerateSpecTE"])
        vs = r.prints("VERDICT")
        if r.violation:
            # an invariant of the model fails on a state reachable along the trace: the model itself is wrong
            raise vf.Infra("AsyncTrace: invariant violated during validation:\n" + r.counterexample()[:2000])
        if r.rc != 0 or len(vs) != 1:
            raise vf.Infra(f"AsyncTrace did not produce a verdict (rc={r.rc}):\n" + r.out[-2000:])
        states += r.distinct
        c = vs[0]["consumed"]
        total += c
        if c >= len(rest):
            break
        bad = rest[c]
        rejected.append((bad["t"], bad))
        # continue after the rejected trace
        nxt = None
        for j in range(c, len(rest)):
            if rest[j]["ev"] == "Init" and rest[j]["t"] != bad["t"]:
                nxt = j
                break
        rest = rest[nxt:] if nxt is not None else []
    return total, traces, rejected, states


# ----------------------------------------------------------------- usage patterns

def conc_scenarios(wd, quick, seed):
    out = []
    seen = set()

    def add(s):
        k = json.dumps(s, sort_keys=True)
        if k not in seen:
            seen.add(k)
            s["id"] = len(out) + 1
            out.append(s)
    for s in vf.emit_scenarios(wd, "MC_RowGroups.tla", "MC_RowGroups_sim.cfg", minimum=10, simulate=25 if quick else 400, depth=80, seed=seed):
        if any(st["op"] == "commit" for st in s["steps"]):
            add({"pat": "rowgroups", "n": s["n"], "steps": [st for st in s["steps"] if st["op"] != "end"]})
    for s in vf.emit_scenarios(wd, "MC_LazyPublish.tla", "MC_LazyPublish_sim.cfg", minimum=5, simulate=15 if quick else 200, depth=40, seed=seed):
        add({"pat": "publish", "n": s["n"], "arrivals": s["arrivals"], "releases": s["releases"]})
    # workloads of Conc.tla: from many simulated ones, first a greedy cover of every pair of tasks of each pattern
    # (two tasks that disturb each other must meet in some workload), then the rest up to the tier's budget
    pool = vf.emit_scenarios(wd, "Conc.tla", "Conc_sim.cfg", minimum=10, simulate=600 if quick else 3000, depth=12, seed=seed)
    by_pat = {}
    for s in pool:
        by_pat.setdefault(s["pat"], []).append(s)
    budget = 40 if quick else 500
    chosen = []
    for pat in sorted(by_pat):
        cand = by_pat[pat]
        pairs_of = lambda s: {tuple(sorted((a, b))) for i, a in enumerate(s["tasks"]) for b in s["tasks"][i + 1:]}
        todo = set().union(*[pairs_of(s) for s in cand])
        while todo:
            best = max(cand, key=lambda s: len(pairs_of(s) & todo))
            gain = pairs_of(best) & todo
            if not gain:
                break
            todo -= gain
            chosen.append(best)
    for s in chosen + pool[:max(0, budget - len(chosen))]:
        add({"pat": s["pat"], "tasks": s["tasks"]})
    return out


def run_conc(vh, wd, scenarios, seed, name):
    """Runs vh-race c15; race reports on stderr become Race events of the scenario that was running."""
    tp = os.path.join(wd, name + ".trace.ndjson")
    remaining, first_t, lines_out, restarts = list(scenarios), 1, [], 0
    while remaining:
        sp = os.path.join(wd, f"{name}.{restarts}.scenarios.ndjson")
        vf.write_ndjson(sp, remaining)
        try:
            p = subprocess.run([vh, "c15", "--seed", str(seed), "--scenarios", sp, "--first-trace", str(first_t)],
                               capture_output=True, text=True, timeout=3000,
                               env=dict(os.environ, GORACE="halt_on_error=0 exitcode=0"))
        except subprocess.TimeoutExpired:
            raise vf.Infra("vh c15 timed out")
        lines = [ln for ln in p.stdout.split("\n") if ln.endswith("}")]
        # attribute race reports to traces
        cur_t, races = None, {}
        for ln in p.stderr.split("\n"):
            m = re.match(r"##sc (\d+) t (\d+)", ln)
            if m:
                cur_t = int(m.group(2))
            elif "WARNING: DATA RACE" in ln and cur_t is not None:
                races.setdefault(cur_t, 0)
                races[cur_t] += 1
        last_i = {}
        for ln in lines:
            e = json.loads(ln)
            last_i[e["t"]] = e["i"]
        for t, n in sorted(races.items()):
            i0 = p.stderr.find("WARNING: DATA RACE")
            lines.append(json.dumps({"t": t, "i": last_i.get(t, 0) + 1, "ev": "Race", "n": n,
                                     "msg": " | ".join(x.strip() for x in p.stderr[i0:i0 + 1500].split("\n")[1:9])}, separators=(",", ":")))
        lines.sort(key=lambda ln: (json.loads(ln)["t"], json.loads(ln)["i"]))
        lines_out += lines
        if p.returncode == 0:
            break
        died = p.returncode not in (0, 3) and any(m in p.stderr for m in ("fatal error:", "panic:", "SIGSEGV", "unexpected signal"))
        if (p.returncode != 3 and not died) or not lines:
            raise vf.Infra(f"vh c15 failed rc={p.returncode}: {p.stderr[-2500:]}")
        if died:
            # the library killed the process while the tasks of a scenario were running: recorded for that trace
            last = json.loads(lines[-1])
            reason = [ln for ln in p.stderr.split("\n") if any(m in ln for m in ("fatal error:", "panic:", "SIGSEGV", "unexpected signal"))][0][:300]
            fatal = json.dumps({"t": last["t"], "i": last["i"] + 1, "ev": "Fatal", "msg": reason}, separators=(",", ":"))
            lines.append(fatal)
            lines_out.append(fatal)
        # rc 3: a Hang was reported; continue after that scenario
        restarts += 1
        if restarts > 20:
            raise vf.Infra("vh c15 keeps hanging")
        last = json.loads(lines[-1])
        sc = [json.loads(ln) for ln in lines if '"ev":"Init"' in ln][-1]["sc"]
        idx = [i for i, s in enumerate(remaining) if s["id"] == sc][0]
        remaining = remaining[idx + 1:]
        first_t = last["t"] + 1
    with open(tp, "w") as f:
        for ln in lines_out:
            f.write(ln + "\n")
    return tp


def judge_conc(wd, tp):
    return vf.monitor(wd, "ConcMon.tla", "ConcMon.cfg", tp)


# ---------------------------------------------------------------------------- run

def model_part(wd, quick):
    xs = []
    xs.append(vf.model_check(wd, "AsyncPages.tla", "MC_AsyncPages.cfg" if quick else "MC_AsyncPages_big.cfg", "X AsyncPages safety"))
    xs.append(vf.model_check(wd, "AsyncPages.tla", "MC_AsyncPages_live.cfg", "X AsyncPages liveness (strong fairness)"))
    for b in ("nofilter", "nobump", "norelease"):
        vf.must_violate(wd, "AsyncPages.tla", f"MC_AsyncPages_bug_{b}.cfg", f"AsyncPages mutant {b}")
    vf.must_violate(wd, "AsyncPages.tla", "MC_AsyncPages_weak.cfg", "AsyncPages under weak fairness only")
    vf.must_violate(wd, "AsyncPages.tla", "MC_AsyncPages_bug_nodrain.cfg", "AsyncPages Close without drain")
    vf.must_violate(wd, "AsyncPages.tla", "MC_AsyncPages_bug_sendfirst.cfg", "AsyncPages SeekToRow that sends before draining")
    xs.append(vf.model_check(wd, "LazyPublish.tla", "MC_LazyPublish.cfg", "X LazyPublish"))
    vf.must_violate(wd, "LazyPublish.tla", "MC_LazyPublish_bug.cfg", "LazyPublish with Store")
    xs.append(vf.model_check(wd, "MC_RowGroups.tla", "MC_RowGroups.cfg", "X RowGroups"))
    vf.must_violate(wd, "MC_RowGroups.tla", "MC_RowGroups_bug.cfg", "RowGroups with shared scratch")
    return xs


def run(tier, seed):
    t0 = time.time()
    quick = tier != "thorough"
    vh = vf.build_vh(race=True)
    vh_plain = vf.build_vh()
    wd = vf.scratch()
    xs = model_part(wd, quick)
    out = vf.Verdict(PROP)

    # ---- async protocol
    ascs = async_scenarios(wd, quick, seed)
    # measured: 0.25 s per behaviour and repetition at burst 10; the thorough tier is sized for about 25 minutes
    reps = 2 if quick else 4
    tp, races, stderr = run_async(vh, wd, ascs, seed, "async", reps, burst=10 if quick else 20)
    by_id = {s["id"]: s for s in ascs}
    inits = {e["t"]: e for e in vf.read_ndjson(tp) if e["ev"] == "Init"}
    consumed = traces = tstates = 0
    rejected = []
    for np in sorted({s["np"] for s in ascs}):
        c, n, rej, st = validate_async(wd, tp, np)
        consumed += c
        traces += n
        tstates += st
        rejected += rej
    ends = [e for e in vf.read_ndjson(tp) if e["ev"] == "End"]
    followed = sum(1 for e in ends if e["diverged"] == -1)
    vf.log(f"[C15] async: {len(ascs)} behaviours x{reps}, {traces} traces, {consumed} events accepted, {len(rejected)} rejected, "
           f"{followed}/{len(ends)} runs followed the behaviour to the end, races={races}")
    if races:
        i0 = stderr.find("WARNING: DATA RACE")
        out.flag("race@async", "data race reported in the async page reader: " + " | ".join(x.strip() for x in stderr[i0:i0 + 1200].split("\n")[1:8]),
                 {"property": PROP, "part": "async", "scenarios": ascs[:50], "seed": seed, "class": "race@async"}, "race-async")
    confirmed = 0
    for t, bad in rejected[:6]:
        ini = inits[t]
        s = dict(by_id[ini["sc"]], mode=ini["mode"], usrc=ini["usrc"], procs=ini["procs"])
        s["orig"] = s["id"]
        # schedule-dependent symptoms need many runs: the plain build is ten times faster than the race build
        tp2, _, _ = run_async(vh_plain, wd, [dict(s, id=1)], seed, f"confirm{t}", 30, hang_ms=3000)
        c2, n2, rej2, _ = validate_async(wd, tp2, s["np"])
        if not rej2:
            for mode in ("free", "steered"):
                tp2, _, _ = run_async(vh_plain, wd, [dict(s, id=1, mode=mode, procs=4)], seed, f"confirm{t}{mode}", 4000, hang_ms=3000)
                c2, n2, rej2, _ = validate_async(wd, tp2, s["np"])
                if rej2:
                    break
        if not rej2:
            vf.log(f"[C15] rejected trace not reproduced in 8000 runs: scenario {ini['sc']} at {json.dumps(bad)[:200]}")
            continue
        confirmed += 1
        cls = "async-hang" if rej2[0][1]["ev"] == "Hang" else "async-reject"
        out.flag(cls, f"asyncPages trace is not a behaviour of AsyncPages.tla: first unexplained event {json.dumps(rej2[0][1])[:300]} "
                      f"(scenario {ini['sc']}, mode={ini['mode']}, source={ini['usrc']}, GOMAXPROCS={ini['procs']}; {len(rej2)}/{n2} runs rejected)",
                 {"property": PROP, "part": "async", "scenario": s, "seed": seed, "class": cls}, f"{cls}-{ini['sc']}")
    if rejected and not confirmed:
        raise vf.Infra(f"{len(rejected)} async traces rejected but none reproduced when re-run")
    if traces < len(ascs) or consumed < 10 * traces:
        raise vf.Infra(f"dead driver (async): {traces} traces, {consumed} events")

    # ---- usage patterns
    cscs = conc_scenarios(wd, quick, seed)
    tpc = run_conc(vh, wd, cscs, seed, "conc")
    verdict, vr = judge_conc(wd, tpc)
    cnt = verdict["cnt"]
    vf.log(f"[C15] patterns: {len(cscs)} scenarios, V: {cnt}")
    ini_c = vf.inits(tpc)
    cid = {s["id"]: s for s in cscs}
    seen = set()
    unrep = 0
    picked = []
    for t, i, cls in verdict["bad"]:
        sc = ini_c[t]["sc"]
        if (sc, cls) in seen:
            continue
        seen.add((sc, cls))
        if sum(1 for p in picked if p[2] == cls) < 3:
            picked.append((sc, t, cls))
    for sc, t, cls in picked:
        s = dict(cid[sc], var=int(ini_c[t]["var"]))
        s["orig"] = sc
        hit = None
        for attempt in range(5):
            tp2 = run_conc(vh, wd, [dict(s, id=1)], seed, f"cconfirm{sc}")
            v2, _ = judge_conc(wd, tp2)
            hits = [b for b in v2["bad"] if b[2] == cls]
            if hits:
                hit = (tp2, hits[0])
                break
        if not hit:
            unrep += 1
            vf.log(f"[C15] flagged but not reproduced in 5 runs ({cls}): {json.dumps(s)[:300]}")
            continue
        e = [e for e in vf.events_of(hit[0], hit[1][0]) if e["i"] == hit[1][1]][0]
        out.flag(cls, f"pattern {s['pat']}: {json.dumps({k: v for k, v in e.items() if k != 't'})[:500]}",
                 {"property": PROP, "part": "patterns", "scenario": dict(s, id=1), "seed": seed, "class": cls}, f"{cls.replace('@', '_')}-{sc}")
    if picked and unrep == len(picked):
        raise vf.Infra(f"none of the {len(picked)} flagged pattern scenarios reproduced")
    if cnt["compared"] < 3 * cnt["traces"] and cnt["flagged"] == 0:
        raise vf.Infra(f"dead driver (patterns): {cnt}")

    rc = out.report()
    vf.write_evidence(PROP, tier, seed, "model_checking", {
        "states": sum(x.distinct for x in xs) + tstates + vr.distinct,
        "transitions": sum(x.generated for x in xs) + vr.generated,
        "traces_validated_against_impl": traces + cnt["traces"],
        "samples": [ascs[0]["order"][:12], vf.events_of(tp, 1)[:8], cscs[0]],
        "async": {"behaviours": len(ascs), "runs": len(ends), "runs_following_behaviour_to_end": followed,
                  "events_accepted": consumed, "traces_rejected": len(rejected), "race_reports": races},
        "patterns": {"scenarios": len(cscs), "serial_results": cnt["serial"], "concurrent_results_compared": cnt["compared"],
                     "publications": cnt["published"], "flagged": cnt["flagged"]},
        "exhaustive": False, "known_findings": sorted(out.kf_hits),
    }, [
        "Go's select chooses uniformly among ready cases: liveness of AsyncPages is checked under strong fairness on the reader's seek/done alternatives (weak fairness fails, which the check also asserts)",
        "the harness sees the async protocol from outside: API calls/returns and the reader's calls into the underlying Pages; channel operations are unlogged steps that TLC places (trace validation)",
        "steering can only delay visible events; where Go's select picks another ready case the run continues freely and is still validated",
        "race freedom outside the modelled protocols is observed by the race detector on the executed schedules, not proved",
        "a caller that drops an asyncPages without Close leaves the goroutine to the finalizer; this is outside the model (Close always comes last)",
    ], time.time() - t0, len(out.violations))
    return rc


def replay(path, seed):
    rp = json.load(open(path))
    vh = vf.build_vh(race=True)
    wd = vf.scratch()
    vf.spec_dir(wd)
    if rp.get("part") == "async" and "scenario" in rp:
        s = rp["scenario"]
        vh_plain = vf.build_vh()
        rej = []
        for mode in ("free", "steered"):
            tp, races, _ = run_async(vh_plain, wd, [dict(s, mode=mode, procs=4)], rp.get("seed", seed), "replay" + mode, 4000, hang_ms=3000)
            c, n, rej, _ = validate_async(wd, tp, s["np"])
            if rej:
                break
        if rej:
            print(f"VIOLATION property={PROP} replay={path} class={rp['class']} first unexplained event {json.dumps(rej[0][1])[:300]}")
            return 1
        print("replay: all traces accepted")
        return 0
    if rp.get("part") == "async":
        tp, races, err = run_async(vh, wd, rp["scenarios"], rp.get("seed", seed), "replay", 3)
        if races:
            print(f"VIOLATION property={PROP} replay={path} class=race@async")
            return 1
        print("replay: no race reported")
        return 0
    for attempt in range(5):
        tp = run_conc(vh, wd, [rp["scenario"]], rp.get("seed", seed), "replay")
        v, _ = judge_conc(wd, tp)
        if v["bad"]:
            print(f"VIOLATION property={PROP} replay={path} class={v['bad'][0][2]}")
            return 1
    print("replay: trace accepted")
    return 0
