"""C10 — sorting buffers and the sorting writer output a correctly ordered permutation.

X  SortBuffer.tla: the order a sorting buffer implements (optional wrapper with nulls first/last,
   reversedColumnBuffer for descending, column-by-column Buffer.Less) equals the declared order for
   every pair of rows over two nullable sorting columns and all 16 configurations
G  every configuration x every list of <=3 rows over keys {null,1,2}^2 (thorough) or a seeded sample
B  vh c10: rows (scaled by 1/9/70 to create runs of >=8 / >=64 equal rows, batched by the seed) through
   sort.Sort on GenericBuffer[T], Buffer, RowBuffer[T]; a sorted buffer written with WriteRowGroup;
   SortingWriter with sort runs of 1, 2, 3 and unlimited rows, with and without duplicate dropping
V  SortMon.tla: permutation with intact rows, sorted under the declared columns, Schema.Comparator agrees,
   sorting metadata recorded in files equals the declaration, dedupe leaves one row per key
"""
import random
import time

from lib import vf

PROP = "C10"
PIPE = vf.Pipeline(PROP, "c10", ("SortMon.tla", "SortMon.cfg"), pin=lambda s, init: dict(s, var=init["var"]),
                   heap="10g", per_class=4)


def run(tier, seed):
    t0 = time.time()
    quick = tier != "thorough"
    rnd = random.Random(seed)
    vh = vf.build_vh()
    wd = vf.scratch()
    x = vf.model_check(wd, "SortBuffer.tla", "MC_SortBuffer_quick.cfg", "X SortBuffer")
    vf.must_violate(wd, "SortBuffer.tla", "MC_SortBuffer_asfound.cfg", "SortBuffer")
    univ = vf.emit_scenarios(wd, "MC_SortBuffer.tla", "MC_SortBuffer_emit.cfg", minimum=10000)
    chosen = rnd.sample(univ, 220) if quick else rnd.sample(univ, 6000)
    scenarios = [{"id": i + 1, "cs": s["cs"], "rows": s["rows"]} for i, s in enumerate(chosen)]
    vf.log(f"[C10] X: {x.distinct} states; universe {len(univ)}; scenarios {len(scenarios)}")
    out, verdict, vr, tp = PIPE.run(vh, wd, scenarios, seed)
    cnt = verdict["cnt"]
    if cnt["outs"] < 3 * cnt["traces"] and cnt["flagged"] == 0:
        raise vf.Infra(f"dead driver: {cnt}")
    rc = out.report()
    vf.write_evidence(PROP, tier, seed, "model_checking", {
        "states": x.distinct + vr.distinct, "transitions": x.generated + vr.generated,
        "traces_validated_against_impl": cnt["traces"],
        "samples": [scenarios[0], scenarios[-1]],
        "model": {"module": "SortBuffer.tla", "row_pairs_x_configurations": x.distinct},
        "monitor": {"module": "SortMon.tla", "events": verdict["consumed"], "outputs_judged": cnt["outs"],
                    "rows_judged": cnt["rows"], "flagged": cnt["flagged"]},
        "universe": len(univ), "exhaustive": False, "known_findings": sorted(out.kf_hits),
    }, [
        "two optional sorting columns (int64, string) plus payload columns; keys over {null,1,2}; <=3 abstract rows scaled to runs",
        "repeated sorting columns are not covered",
    ], time.time() - t0, len(out.violations))
    return rc


def replay(path, seed):
    return PIPE.replay(path, seed)
