"""C14 — I/O failures and truncated files are always reported.

X  Sink.tla: how a failing sink write reaches the caller with and without the bufio write buffer
   (sticky error, Close flushes) for every failing write index and history of <=6 calls
G  writer histories x option vectors from Writer.tla simulations (incl. write buffer sizes 0 / 61 /
   default, tiny page buffers); the harness adds deferred bloom filters + file-backed page buffers
B  vh c14, per scenario: fault-free run, then (a) sink failing at write-call indexes and byte offsets
   (error and short write), (b) strict prefixes of the good file, (c) a ReaderAt failing / short-reading
   at call indexes - quick: structure boundaries +-1 and a seeded sample; thorough: every call index,
   every byte offset and every prefix length of files <=6 kB
   + checks/pagebuffer.py: PageBuffer.tla / BufMon.tla on the buffers of every BufferPool implementation
V  IOMon.tla: no panic; a fired fault is reported by an error; without an error the rows are complete
"""
import time

from lib import vf
from checks import c01, pagebuffer

PROP = "C14"


def _pin(s, init):
    return dict(s, api=init["api"], bloom=init["bloom"])


def run(tier, seed):
    t0 = time.time()
    quick = tier != "thorough"
    vh = vf.build_vh()
    wd = vf.scratch()
    x = vf.model_check(wd, "Sink.tla", "MC_Sink.cfg", "X Sink")
    out = vf.Verdict(PROP)
    pb = pagebuffer.stage(vh, wd, quick, seed, out)   # the page buffers the writer stages its pages in
    base = c01.generate(wd, quick, seed, 60 if quick else 1200)
    # keep files small: drop the 65/130-row batches for most scenarios
    scenarios = []
    for s in base:
        rows = sum(o.get("n", 0) for o in s["ops"])
        if rows > 140 or (quick and rows > 70 and len(scenarios) % 4):
            continue
        scenarios.append({"id": len(scenarios) + 1, "cfg": s["cfg"], "ops": s["ops"]})
        # measured: ~120 probes/s; with every offset and prefix probed (thorough) a scenario costs up to 15 000 probes
        if len(scenarios) >= (14 if quick else 16):
            break
    pipe = vf.Pipeline(PROP, "c14", ("IOMon.tla", "IOMon.cfg"), heap="8g", per_class=3,
                       extra=["--density", "quick" if quick else "all"])
    pipe.timeout = 7200

    def pin(s, init):
        return _pin(s, init)
    pipe.pin = pin
    vf.log(f"[C14] X: {x.distinct} states; scenarios {len(scenarios)}")
    # custom triage: a flagged probe is re-executed alone with kind/at/mode pinned
    tp = pipe.execute(vh, wd, scenarios, seed, "all")
    ini = vf.inits(tp)
    verdict, vr = pipe.judge(wd, tp)
    cnt = verdict["cnt"]
    vf.log(f"[C14] V: {cnt}")
    if cnt["faulted"] < cnt["probes"] // 3 and cnt["flagged"] == 0:
        raise vf.Infra(f"dead driver: {cnt}")
    by_id = {s["id"]: s for s in scenarios}
    per, confirm = {}, []
    for t, i, cls in verdict["bad"]:
        if per.setdefault(cls, 0) >= 3:
            continue
        per[cls] += 1
        e = [e for e in vf.events_of(tp, t) if e["i"] == i][0]
        s = dict(by_id[ini[t]["sc"]], api=ini[t]["api"], bloom=ini[t]["bloom"], kind=e["kind"], at=e["at"], mode=e["mode"],
                 orig=ini[t]["sc"], id=len(confirm) + 1)
        confirm.append((s, cls))
    if confirm:
        tp2 = pipe.execute(vh, wd, [c[0] for c in confirm], seed, "confirm")
        in2 = vf.inits(tp2)
        v2, _ = pipe.judge(wd, tp2)
        again = {(in2[t]["sc"], cls): (t, i) for t, i, cls in v2["bad"]}
        for s, cls in confirm:
            if (s["id"], cls) not in again:
                raise vf.Infra(f"flagged probe did not reproduce when run alone ({cls}): {s}")
            t2, i2 = again[(s["id"], cls)]
            e = [e for e in vf.events_of(tp2, t2) if e["i"] == i2][0]
            out.flag(cls, f"api={s['api']} cfg={s['cfg']} ops={c01_ops(s['ops'])} probe={ {k: e[k] for k in ('kind','at','mode','faulted','anyErr','panic','msg')} } rows={str(e['rows'])[:120]}",
                     {"property": PROP, "scenario": s, "seed": seed, "class": cls}, f"{cls}-{s['orig']}-{s['id']}")
    rc = out.report()
    kinds = {}
    import json
    for line in open(tp):
        if '"ev":"Probe"' in line:
            e = json.loads(line)
            kinds[e["kind"]] = kinds.get(e["kind"], 0) + 1
    vf.write_evidence(PROP, tier, seed, "fault_enumeration", {
        "evaluations": cnt["probes"] + cnt["flagged"], "distinct_nontrivial": cnt["faulted"],
        "rule": "one evaluation = one injected fault (sink write-call index or byte offset; strict prefix length; ReaderAt call index, "
                "error or short read) on one writer scenario; non-trivial = the injected fault really fired (counted by the monitor from the "
                "harness's `faulted` observation)",
        "samples": [scenarios[0], vf.events_of(tp, 1)[1:4]],
        "probes_by_kind": kinds, "page_buffers": pb,
        "states": x.distinct + vr.distinct, "transitions": x.generated + vr.generated, "traces_validated_against_impl": cnt["traces"],
        "exhaustive": not quick, "known_findings": sorted(out.kf_hits),
    }, [
        "sinks obey the io.Writer contract (a short write returns an error); a sink returning n < len(p) with a nil error is out of scope",
        "quick tier samples positions (structure boundaries +-1, seeded residues); thorough enumerates every call index, offset and prefix of files <=6 kB",
        "encryption off",
    ], time.time() - t0, len(out.violations))
    return rc


def c01_ops(ops):
    return " ".join({"write": "W", "flush": "F", "close": "C", "colflush": "P"}[o["op"]] + str(o.get("n", o.get("c", ""))) for o in ops)


def replay(path, seed):
    import json
    if json.load(open(path)).get("scenario", {}).get("stage") == "bufpool":
        return pagebuffer.replay(path, seed)
    pipe = vf.Pipeline(PROP, "c14", ("IOMon.tla", "IOMon.cfg"))
    return pipe.replay(path, seed)
