"""C05 — statistics and page indexes bound the data they describe.

X  Stats.tla: the writer's fold of page bounds into chunk statistics (NaN semantics of Compare, all-NaN
   and all-null pages) over every layout of <=2/<=3 pages x <=2 values over {NULL, NaN, 1..3};
   Order.tla self-check (OrderCheck.tla) of the column orders on PLAIN bytes
G  the same universe of layouts
B  vh c05: each layout realised for int32/int64/uint32/uint64/float/double/string (index size limits
   2, 16, default)/list<double> columns with seeded boundary-value tables, v1 and v2 pages; page header
   statistics, column index, chunk statistics and the real page contents are recorded as PLAIN bytes
V  StatsMon.tla: every recorded bound is a bound (Order.tla), counts are exact, claimed boundary order true
"""
import random
import time

from lib import vf

PROP = "C05"
PIPE = vf.Pipeline(PROP, "c05", ("StatsMon.tla", "StatsMon.cfg"),
                   pin=lambda s, init: dict(s, kind=init["kind"], var=init["var"]), heap="8g", per_class=3)


def run(tier, seed):
    t0 = time.time()
    quick = tier != "thorough"
    tag = "quick" if quick else "thorough"
    vh = vf.build_vh()
    wd = vf.scratch()
    rnd = random.Random(seed)
    x0 = vf.model_check(wd, "OrderCheck.tla", "OrderCheck.cfg", "X Order self-check", workers=1)
    x = vf.model_check(wd, "MC_Stats.tla", f"MC_Stats_{tag}.cfg", "X Stats")
    vf.must_violate(wd, "MC_Stats.tla", "MC_Stats_asfound.cfg", "Stats")
    layouts = vf.emit_scenarios(wd, "MC_Stats.tla", "MC_Stats_emit_thorough.cfg", minimum=8000)
    two = [s for s in layouts if len(s["pages"]) <= 2]
    three = [s for s in layouts if len(s["pages"]) == 3]
    chosen = two + (rnd.sample(three, 250) if quick else three)
    scenarios = [{"id": i + 1, "pages": s["pages"]} for i, s in enumerate(chosen)]
    vf.log(f"[C05] X: {x.distinct} layouts in model; scenarios {len(scenarios)}")
    out, verdict, vr, tp = PIPE.run(vh, wd, scenarios, seed)
    cnt = verdict["cnt"]
    # the same layouts with every page inflated around its symbols (the bounds kernels work on blocks of
    # 8..64 values), in the build with the assembly kernels and in the portable one
    pg = ("verif", "purego")
    vh_pg = vf.build_vh(tags=pg)
    base = rnd.sample(chosen, 200 if quick else len(chosen))
    wide = [{"id": i + 1, "pages": s["pages"], "stretch": (9, 20, 70)[i % 3]} for i, s in enumerate(base)]
    # every fourth of them with the column's page bounds and / or page statistics switched off: what is still
    # recorded must still be true
    for i, s in enumerate(wide):
        if i % 4 == 3:
            s["skip"] = ("bounds", "stats", "both")[(i // 4) % 3]
    for name, v, tags in (("wide", vh, None), ("wide-purego", vh_pg, pg)):
        _, w, wr, _ = PIPE.run(v, wd, wide, seed, out=out, name=name, tags=tags)
        for k, n in w["cnt"].items():
            cnt[k] += n
        verdict["consumed"] += w["consumed"]
    if cnt["chunks"] + cnt["flagged"] < cnt["traces"] // 2:
        raise vf.Infra(f"dead driver: {cnt}")
    rc = out.report()
    vf.write_evidence(PROP, tier, seed, "model_checking", {
        "states": x.distinct + x0.distinct + vr.distinct, "transitions": x.generated + vr.generated,
        "traces_validated_against_impl": cnt["traces"],
        "samples": [scenarios[7], scenarios[-1], vf.events_of(tp, 3)[:3]],
        "model": {"module": "Stats.tla", "layouts": x.distinct},
        "monitor": {"module": "StatsMon.tla", "events": verdict["consumed"], "pages_judged": cnt["pages"],
                    "indexes_judged": cnt["indexes"], "chunks_judged": cnt["chunks"], "flagged": cnt["flagged"]},
        "column_kinds": sorted({e["kind"] for e in vf.inits(tp).values()}),
        "exhaustive": not quick, "known_findings": sorted(out.kf_hits),
    }, [
        "layouts: <=3 pages x <=2 values over {null, special, 1, 2, 3}; the special symbol is NaN for float kinds and an extreme value otherwise",
        "a sample of the layouts is run again with each page inflated to up to 9/20/70 values around its symbols, in the default and the purego build",
        "units whose non-null values are all NaN, and metadata that is not recorded, carry no obligation",
        "decimal / int96 / be128 orders and statistics copied by the verbatim-copy path are not covered here (C11 covers the copy path)",
    ], time.time() - t0, len(out.violations))
    return rc


def replay(path, seed):
    return PIPE.replay(path, seed)
