"""C19 — variant values survive encoding, and shredding never changes them.

M  Variant.tla: the variant binary encoding (metadata dictionary, primitives, short strings, objects with
   sorted unique keys, arrays, small and large layouts) as a decoder over bytes, written from
   VariantEncoding.md; value equality up to integer width; the reconstruction rule of VariantShredding.md
   for primitive typed_value columns
G  VarSpace.tla: value kinds (all primitive kinds, strings around the short-string limit, empty / flat /
   nested / >255-field objects, empty / mixed / object / >255-element arrays, deep nesting) and
   shredding schema x write mode for files
B  vh c19: variant.Encode, Marshal and the streaming Builder on trees whose description (kind ids, payload
   bytes) the harness computes itself; files with unshredded and 13 shredded schemas written from Go values
   and from raw variant bytes, read back through the unshredded reader schema (convert-to-unshredded), through
   `any`, and as physical value / typed_value leaves
V  VarMon.tla: TLC decodes every byte string with Variant.tla and compares with the tree written
"""
import time

from lib import vf

PROP = "C19"
PIPE = vf.Pipeline(PROP, "c19", ("VarMon.tla", "VarMon.cfg"), heap="6g", per_class=3)
PIPE.jvm = ["-Xss1g"]


def run(tier, seed):
    t0 = time.time()
    quick = tier != "thorough"
    vh = vf.build_vh()
    wd = vf.scratch()
    univ = vf.emit_scenarios(wd, "VarSpace.tla", "VarSpace.cfg", minimum=150)
    scenarios = []
    for s in sorted(univ, key=lambda s: (s["part"], s["val"], s["schema"], s["wmode"], s["rep"])):
        if quick and s["rep"] != 1 + seed % 3:
            continue
        scenarios.append(dict(s, id=len(scenarios) + 1))
    out, verdict, vr, tp = PIPE.run(vh, wd, scenarios, seed)
    cnt = verdict["cnt"]
    if (cnt["encoded"] < 100 or cnt["reads"] < 500 or cnt["physical"] < 100) and cnt["flagged"] == 0:
        raise vf.Infra(f"dead driver: {cnt}")
    rc = out.report()
    vf.write_evidence(PROP, tier, seed, "model_checking", {
        "states": vr.distinct, "transitions": vr.generated,
        "traces_validated_against_impl": cnt["traces"],
        "samples": [scenarios[0], scenarios[-1]],
        "monitor": {"module": "VarMon.tla", "events": verdict["consumed"], "encodings_decoded_by_spec": cnt["encoded"],
                    "values_read_back_and_decoded": cnt["reads"], "not_comparable_go_mapping": cnt["lossy"],
                    "physical_reconstructions": cnt["physical"], "flagged": cnt["flagged"]},
        "exhaustive": False, "known_findings": sorted(out.kf_hits),
    }, [
        "strings are valid UTF-8 (the variant specification requires it); binaries hold arbitrary bytes",
        "integers are compared by value, not by width (a shredded int8 comes back from an int32 column as int32)",
        "reading through `any` maps dates, times, timestamps without zone and decimals to plain Go integers (Value.GoValue); those rows are compared only through the raw read mode",
        "spec-level reconstruction of the physical columns covers primitive typed_value shreddings; object and list shreddings are judged through the read modes",
        "reading a shredded file through a different shredded schema is not judged (not among the statement's read modes)",
    ], time.time() - t0, len(out.violations))
    return rc


def replay(path, seed):
    return PIPE.replay(path, seed)
