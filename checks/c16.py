"""C16 — values handed to the caller are not changed by later library activity.

X  Ownership.tla: pooled page buffers, release vs detach when a reader leaves a page (possibly in the
   middle of one ReadRows call), clones and typed copies, churn by unrelated activity; for every history
   of <=6 operations nothing the caller may still look at lives in pooled memory (and the same model with
   Detach = FALSE must fail - that is what rowGroupRows' detach is for)
G  TLC simulation of the model: operation histories
B  vh c16 with the poison-on-release hook: histories on RowGroup.Rows, Reader, value readers, merged and
   converted row groups, GenericReader, Read[T]; every value deep-copied on receipt, compared after every
   later operation, after Close and after churn; caller rows passed to Write compared after Close
V  SnapMon.tla applies the validity windows (until the next call on the same reader / forever)
"""
import time

from lib import vf

PROP = "C16"
PIPE = vf.Pipeline(PROP, "c16", ("SnapMon.tla", "SnapMon.cfg"),
                   pin=lambda s, init: dict(s, reader=init["reader"], var=init["var"]), heap="8g", per_class=4)


def run(tier, seed):
    t0 = time.time()
    quick = tier != "thorough"
    vh = vf.build_vh()
    wd = vf.scratch()
    x = vf.model_check(wd, "Ownership.tla", "MC_Ownership_quick.cfg", "X Ownership")
    vf.must_violate(wd, "Ownership.tla", "MC_Ownership_nodetach.cfg", "Ownership without detach")
    sim = vf.emit_scenarios(wd, "MC_Ownership.tla", "MC_Ownership_sim.cfg", minimum=20, simulate=60 if quick else 1200,
                            depth=11, seed=seed)
    seen, scenarios = set(), []
    for s in sim:
        k = repr(s)
        if k not in seen:
            seen.add(k)
            scenarios.append({"id": len(scenarios) + 1, "ops": s["ops"]})
    vf.log(f"[C16] X: {x.distinct} states; scenarios {len(scenarios)}")
    out, verdict, vr, tp = PIPE.run(vh, wd, scenarios, seed)
    cnt = verdict["cnt"]
    if cnt["checks"] < 5 * cnt["traces"] and cnt["flagged"] == 0:
        raise vf.Infra(f"dead driver: {cnt}")
    rc = out.report()
    vf.write_evidence(PROP, tier, seed, "model_checking", {
        "states": x.distinct + vr.distinct, "transitions": x.generated + vr.generated,
        "traces_validated_against_impl": cnt["traces"],
        "samples": [scenarios[0], vf.events_of(tp, 1)[:6]],
        "monitor": {"module": "SnapMon.tla", "events": verdict["consumed"], "holds": cnt["holds"], "checks_in_window": cnt["checks"],
                    "checks_after_expiry": cnt["expired"], "input_checks": cnt["inputs"], "flagged": cnt["flagged"]},
        "exhaustive": False, "known_findings": sorted(out.kf_hits),
    }, [
        "pooled slices are overwritten with 0xA5 when returned (hook VerifSetPoison), so a dangling reference is deterministic",
        "values are also compared with what was written at the moment they are received (a buffer released before the caller looks is already poisoned)",
        "one 20-field row type with strings, byte slices, lists of strings, maps; small pages so that batches span pages",
    ], time.time() - t0, len(out.violations))
    return rc


def replay(path, seed):
    return PIPE.replay(path, seed)
