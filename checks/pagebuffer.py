"""Stage of C14 (and of the writer checks that use page buffer pools): the io.ReadWriteSeeker buffers handed
out by NewBufferPool / NewChunkBufferPool / NewFileBufferPool.

M  PageBuffer.tla: Write / Read / Seek / WriteTo / recycle as functions of (data, position)
X  MC_PageBuffer.tla: the sequence agrees with an offset->byte map; the writer's protocol
   Write* ; Seek(0) ; WriteTo|Read*  hands back what was written; a buffer from the pool is empty
   (in-memory semantics and file semantics; three mutants must fail)
G  operation histories by TLC simulation of the same machine
B  vh bufpool: the histories on chunk sizes 1,2,3,4,7, the default pool and the file pool
V  BufMon.tla: every logged result is the one PageBuffer's operators allow in the replayed state
"""
from lib import vf

PIPE = vf.Pipeline("C14", "bufpool", ("BufMon.tla", "BufMon.cfg"),
                   pin=lambda s, init: dict(s, kind=init["kind"], stage="bufpool"), per_class=2)


def stage(vh, wd, quick, seed, out):
    tag = "quick" if quick else "thorough"
    xs = [vf.model_check(wd, "MC_PageBuffer.tla", f"MC_PageBuffer_{tag}.cfg" if not quick else "MC_PageBuffer_quick.cfg", "X PageBuffer (memory)"),
          vf.model_check(wd, "MC_PageBuffer.tla", "MC_PageBuffer_file_thorough.cfg" if not quick else "MC_PageBuffer_file.cfg", "X PageBuffer (file)")]
    for b in ("append", "noclear", "shortdrain"):
        vf.must_violate(wd, "MC_PageBuffer.tla", f"MC_PageBuffer_bug_{b}.cfg", f"PageBuffer mutant {b}")
    sim = vf.emit_scenarios(wd, "MC_PageBuffer.tla", "MC_PageBuffer_sim.cfg", minimum=50,
                            simulate=150 if quick else 3000, depth=14, seed=seed)
    seen, scenarios = set(), []
    for s in sim:
        k = repr(s)
        if k not in seen:
            seen.add(k)
            scenarios.append({"id": len(scenarios) + 1, "ops": s["ops"]})
    _, verdict, vr, tp = PIPE.run(vh, wd, scenarios, seed, out=out, name="bufpool")
    cnt = verdict["cnt"]
    if cnt["ops"] < 5 * cnt["traces"] and cnt["flagged"] == 0:
        raise vf.Infra(f"dead driver (bufpool): {cnt}")
    return {"module": "PageBuffer.tla", "model_states": [x.distinct for x in xs], "histories": len(scenarios),
            "pool_kinds": sorted({e["kind"] for e in vf.inits(tp).values()}), "operations_judged": cnt["ops"], "flagged": cnt["flagged"],
            "monitor_states": vr.distinct}


def replay(path, seed):
    return PIPE.replay(path, seed)
