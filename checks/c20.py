"""C20 — compression codecs are lossless whatever was compressed before.

X  CodecPool.tla: the pooled Decompressor (instance taken from / returned to the pool, initialisation
   errors, read errors) and the lz4 decode loop, for every history of <=4 calls: valid input always
   decodes to its payload, nothing panics or exhausts memory
G  TLC simulation: histories of valid / bad-header / bad-body inputs
B  vh c20 on the shared package-level codec values (snappy, gzip, brotli, zstd, lz4 raw, uncompressed):
   round trips with every destination-buffer class, decodes of garbage / truncated / bit-flipped input,
   concurrent round trips; the harness runs under an address-space limit and announces every call, so
   a death inside the library is attributed to the call (Fatal event)
V  CodecMon.tla
"""
import json
import os
import resource
import subprocess
import time

from lib import vf

PROP = "C20"
MON = ("CodecMon.tla", "CodecMon.cfg")


def _limit():
    resource.setrlimit(resource.RLIMIT_AS, (3 << 30, 3 << 30))


def execute(vh, wd, scenarios, seed, name):
    """Like vf.execute, but survives the death of the harness: the call in flight gets a Fatal event."""
    tp = os.path.join(wd, name + ".trace.ndjson")
    remaining, first_t, restarts = list(scenarios), 1, 0
    with open(tp, "w") as out:
        while remaining:
            sp = os.path.join(wd, f"{name}.{restarts}.scenarios.ndjson")
            vf.write_ndjson(sp, remaining)
            env = dict(os.environ, GOMEMLIMIT="2GiB")
            p = subprocess.run([vh, "c20", "--seed", str(seed), "--scenarios", sp, "--first-trace", str(first_t)],
                               capture_output=True, text=True, timeout=1800, preexec_fn=_limit, env=env)
            lines = [ln for ln in p.stdout.split("\n") if ln.endswith("}")]
            for ln in lines:
                out.write(ln + "\n")
            if p.returncode == 0:
                break
            restarts += 1
            if restarts > 60 or not lines:
                raise vf.Infra(f"vh c20 keeps dying (rc={p.returncode}): {p.stderr[:500]}")
            last = json.loads(lines[-1])
            reason = p.stderr.strip().split("\n")[0][:200]
            if p.returncode != 3:   # rc 3: the harness reported a hang itself (Ret with hang=1) and left
                out.write(json.dumps({"t": last["t"], "i": last["i"] + 1, "ev": "Fatal", "msg": reason, "rc": p.returncode},
                                     separators=(",", ":")) + "\n")
            sc = None
            for ln in reversed(lines):
                e = json.loads(ln)
                if e["ev"] == "Init":
                    sc = e["sc"]
                    break
            idx = [i for i, s in enumerate(remaining) if s["id"] == sc][0]
            remaining = remaining[idx + 1:]
            first_t = last["t"] + 1
    return tp


def run(tier, seed):
    t0 = time.time()
    quick = tier != "thorough"
    vh = vf.build_vh()
    wd = vf.scratch()
    xs = [vf.model_check(wd, "CodecPool.tla", f"MC_CodecPool_{k}_quick.cfg", f"X CodecPool {k}") for k in ("pooled", "lz4")]
    for k in ("pooled", "lz4"):
        vf.must_violate(wd, "CodecPool.tla", f"MC_CodecPool_{k}_asfound.cfg", f"CodecPool {k}")
    sim = vf.emit_scenarios(wd, "MC_CodecPool.tla", "MC_CodecPool_sim.cfg", minimum=20,
                            simulate=60 if quick else 6000, depth=9, seed=seed)
    seen, scenarios = set(), []
    for s in sim:
        k = repr(s)
        if k not in seen:
            seen.add(k)
            scenarios.append({"id": len(scenarios) + 1, "ops": s["ops"]})
    vf.log(f"[C20] X: {[x.distinct for x in xs]} states; scenarios {len(scenarios)}")
    tp = execute(vh, wd, scenarios, seed, "all")
    ini = vf.inits(tp)
    verdict, vr = vf.monitor(wd, *MON, tp)
    cnt = verdict["cnt"]
    vf.log(f"[C20] V: {cnt}")
    if cnt["roundtrips"] < cnt["traces"] and cnt["flagged"] == 0:
        raise vf.Infra(f"dead driver: {cnt}")
    out = vf.Verdict(PROP)
    by_id = {s["id"]: s for s in scenarios}
    per = {}
    for t, i, cls in verdict["bad"]:
        codec = ini[t]["codec"]
        if per.setdefault((cls, codec), 0) >= 2:
            continue
        per[(cls, codec)] += 1
        s = dict(by_id[ini[t]["sc"]], codec=codec, orig=ini[t]["sc"])
        evs = vf.events_of(tp, t)
        e = [e for e in evs if e["i"] == i][0]
        prev = [x for x in evs if x["i"] == i - 1]
        out.flag(f"{cls}@{codec}", f"codec={codec} ops={s['ops']} event={e} previous={prev}"[:700],
                 {"property": PROP, "scenario": s, "seed": seed, "class": f"{cls}@{codec}"}, f"{cls}-{codec}-{s['orig']}")
    rc = out.report()
    vf.write_evidence(PROP, tier, seed, "model_checking", {
        "states": sum(x.distinct for x in xs) + vr.distinct, "transitions": sum(x.generated for x in xs) + vr.generated,
        "traces_validated_against_impl": cnt["traces"],
        "samples": [scenarios[0], vf.events_of(tp, 2)[:4]],
        "monitor": {"module": "CodecMon.tla", "events": verdict["consumed"], "roundtrips": cnt["roundtrips"],
                    "invalid_decodes": cnt["invalid"], "concurrent_batches": cnt["parallel"], "flagged": cnt["flagged"]},
        "codecs": sorted({e["codec"] for e in ini.values()}), "exhaustive": False, "known_findings": sorted(out.kf_hits),
    }, [
        "payload classes: empty, 1 byte, incompressible random, long constant run, repetitive text; destination buffers: nil, cap 1, dirty short, dirty large",
        "the statement requires losslessness and robustness to earlier failing inputs; an invalid input may decode to anything "
        "or fail, but must not panic or kill the process",
        "compressed bitstreams are opaque to the model",
    ], time.time() - t0, len(out.violations))
    return rc


def replay(path, seed):
    rp = json.load(open(path))
    vh = vf.build_vh()
    wd = vf.scratch()
    tp = execute(vh, wd, [rp["scenario"]], rp.get("seed", seed), "replay")
    print(open(tp).read()[:4000])
    v, _ = vf.monitor(wd, *MON, tp)
    if v["bad"]:
        print(f"VIOLATION property={PROP} replay={path} class={v['bad'][0][2]}@{rp['scenario'].get('codec')}")
        return 1
    print("replay: trace accepted")
    return 0
