"""C04 — page encodings are lossless and match the format specification.

M  Encodings.tla: the encodings written from the format document as decoders over byte sequences
   (PLAIN, RLE/bit-packed hybrid, BIT_PACKED, dictionary indexes, DELTA_BINARY_PACKED with wrap-around
   byte arithmetic, DELTA_LENGTH_BYTE_ARRAY, DELTA_BYTE_ARRAY, BYTE_STREAM_SPLIT);
   EncodingsTest.tla anchors them in hand-worked examples of the format document
G  EncSpace.tla: (encoding, type) x length class x shape, enumerated by TLC
B  vh c04 in the default (assembly kernels) and the purego build: encoder with dst = nil and with five
   dirty / short / non-empty / previous-output destination buffers, decoder with four destination variants
V  EncMon.tla: the specification's decoder recovers the input from the library's bytes; all library
   decodes did; bytes independent of the destination buffer's past and of the build
"""
import concurrent.futures
import json
import os
import random
import shutil
import subprocess
import time

from lib import vf

PROP = "C04"
JVM = ["-Xss1g"]


def run_builds(vhs, wd, scenarios, seed, name):
    """One trace: the default build's cases, then the purego build's (joined by id in the monitor)."""
    sp = os.path.join(wd, name + ".scenarios.ndjson")
    vf.write_ndjson(sp, scenarios)
    events = []
    for bi, (build, vh) in enumerate(vhs):
        p = subprocess.run([vh, "c04", "--seed", str(seed), "--scenarios", sp, "--build", build], capture_output=True, text=True, timeout=1800)
        if p.returncode != 0:
            raise vf.Infra(f"vh c04 ({build}) failed rc={p.returncode}: {p.stderr[-2000:]}")
        for ln in p.stdout.split("\n"):
            if ln.endswith("}"):
                e = json.loads(ln)
                e["t"] = bi + 1
                events.append(e)
    return events


def judge(wd, events, shards):
    """Shards the cases by id (so that both builds of a case meet) and runs EncMon on each shard in parallel."""
    cases = [e for e in events if e["ev"] == "Case"]
    buckets = [[] for _ in range(shards)]
    for e in cases:
        buckets[e["id"] % shards].append(e)
    buckets = [b for b in buckets if b]

    def one(k):
        d = os.path.join(wd, f"shard{k}")
        os.makedirs(d, exist_ok=True)
        for f in ("Encodings.tla", "EncMon.tla", "EncMon.cfg"):
            shutil.copy(os.path.join(vf.SPECS, f), d)
        b = sorted(buckets[k], key=lambda e: (e["t"], e["i"]))
        vf.write_ndjson(os.path.join(d, "trace.ndjson"), [{"t": 1, "i": 0, "ev": "Init", "sc": 0}] + b)
        r = vf.tlc(d, "EncMon.tla", "EncMon.cfg", workers=1, timeout=3000, heap="3g", jvm=JVM, extra=["-noGenerateSpecTE"])
        vs = r.prints("VERDICT")
        if r.rc != 0 or len(vs) != 1 or vs[0]["consumed"] != len(b) + 1:
            raise vf.Infra(f"EncMon shard {k}: no verdict (rc={r.rc}):\n" + r.counterexample()[:1500] + r.out[-1500:])
        return vs[0], r
    with concurrent.futures.ThreadPoolExecutor(max_workers=min(vf.NCPU, len(buckets) or 1)) as ex:
        res = list(ex.map(one, range(len(buckets))))
    cnt, bad, states = {}, [], 0
    for v, r in res:
        for k, x in v["cnt"].items():
            cnt[k] = cnt.get(k, 0) + x
        bad += v["bad"]
        states += r.distinct
    by_ti = {(e["t"], e["i"]): e for e in cases}
    return cnt, [(by_ti[(t, i)], cls) for t, i, cls in bad], states


def scenarios_for(wd, quick, seed):
    univ = vf.emit_scenarios(wd, "EncSpace.tla", "EncSpace.cfg", minimum=3000)
    for i, s in enumerate(univ):
        s["id"] = i + 1
    if not quick:
        return univ, len(univ)
    rnd = random.Random(seed)
    groups = {}
    for s in univ:
        groups.setdefault((s["enc"], s["kind"]), []).append(s)
    pick = []
    for k in sorted(groups):
        g = groups[k]
        rnd.shuffle(g)
        # every shape once at one of the longest lengths (several blocks / many 8-value groups), the rest at random
        long = {}
        for s in g:
            if s["len"] >= 255 and s["shape"] not in long:
                long[s["shape"]] = s
        chosen = list(long.values())
        chosen += [s for s in g if s not in chosen][:18 - len(chosen)]
        pick += chosen
    return sorted(pick, key=lambda s: s["id"]), len(univ)


def run(tier, seed):
    t0 = time.time()
    quick = tier != "thorough"
    vhs = [("asm", vf.build_vh()), ("purego", vf.build_vh(tags=("verif", "purego")))]
    wd = vf.scratch()
    vf.require_clean(vf.tlc(wd, "EncodingsTest.tla", "EncodingsTest.cfg", workers=1, jvm=JVM, extra=["-noGenerateSpecTE"]),
                     "Encodings.tla self-checks (format document examples)")
    scenarios, total = scenarios_for(wd, quick, seed)
    events = run_builds(vhs, wd, scenarios, seed, "all")
    cnt, bad, states = judge(wd, events, 16 if quick else 64)
    vf.log(f"[C04] {len(scenarios)}/{total} descriptors x 2 builds, V: {cnt}")
    out = vf.Verdict(PROP)
    by_id = {s["id"]: s for s in scenarios}
    seen, picked = set(), []
    for e, cls in bad:
        if (e["id"], cls) in seen:
            continue
        seen.add((e["id"], cls))
        if sum(1 for p in picked if p[1] == cls) < 4:
            picked.append((e, cls))
    unrep = 0
    for e, cls in picked:
        s = dict(by_id[e["id"]], w=e["w"] if e["kind"] in ("levels", "fixed") or e["enc"] == "rle" else None)
        if s["w"] is None:
            del s["w"]
        s["orig"] = e["id"]
        ev2 = run_builds(vhs, wd, [s], seed, "confirm")
        c2, bad2, _ = judge(wd, ev2, 1)
        hit = [b for b in bad2 if b[1] == cls]
        if not hit:
            unrep += 1
            vf.log(f"[C04] flagged but not reproduced alone ({cls}): {json.dumps(s)}")
            continue
        h = hit[0][0]
        out.flag(cls, f"{h['enc']}/{h['kind']} n={h['n']} w={h['w']} shape={h['shape']} build={h['build']} rt={h['rt']} hist={h['hist']} err={h['err']!r} "
                      f"encoded[:24]={h['encoded'][:24]}",
                 {"property": PROP, "scenario": s, "seed": seed, "class": cls}, f"{cls.replace('@', '_').replace('/', '_')}-{e['id']}")
    if picked and unrep == len(picked):
        raise vf.Infra("none of the flagged cases reproduced when run alone")
    if cnt.get("decoded", 0) < len(scenarios) and cnt.get("flagged", 0) == 0:
        raise vf.Infra(f"dead driver: {cnt}")
    rc = out.report()
    sample = [e for e in events if e["ev"] == "Case" and e["n"] in (7, 8, 9) and e["enc"] == "delta"][:1]
    vf.write_evidence(PROP, tier, seed, "model_checking", {
        "states": states, "transitions": states,
        "traces_validated_against_impl": cnt.get("decoded", 0),
        "samples": [scenarios[0]] + [{k: v for k, v in s.items() if k in ("enc", "kind", "n", "w", "vals", "encoded")} for s in sample],
        "descriptor_space": total, "descriptors_run": len(scenarios), "builds": ["default (assembly kernels)", "purego"],
        "monitor": {"module": "EncMon.tla", "cases_decoded_by_spec": cnt.get("decoded", 0), "values": cnt.get("values", 0),
                    "unsupported_combinations": cnt.get("unsupported", 0), "joined_across_builds": cnt.get("joined", 0),
                    "flagged": cnt.get("flagged", 0)},
        "exhaustive": False, "known_findings": sorted(out.kf_hits),
    }, [
        "the specification decodes what the library emits; that the library's decoder accepts every valid encoding of other writers is not covered",
        "values wider than 31 bits are byte sequences in the specification (TLC integers are 32-bit); arithmetic is byte-wise with carry",
        "lengths up to 300 values (block, miniblock and 8-value group boundaries +-1 included); nine shapes incl. extremes that overflow deltas",
        "Type.Encode/Type.Decode and dictionary page materialisation are exercised by C01/C02, not here",
    ], time.time() - t0, len(out.violations))
    return rc


def replay(path, seed):
    rp = json.load(open(path))
    vhs = [("asm", vf.build_vh()), ("purego", vf.build_vh(tags=("verif", "purego")))]
    wd = vf.scratch()
    ev = run_builds(vhs, wd, [rp["scenario"]], rp.get("seed", seed), "replay")
    cnt, bad, _ = judge(wd, ev, 1)
    for e in ev:
        print(json.dumps({k: v for k, v in e.items() if k not in ("vals", "encoded")})[:400])
    if bad:
        print(f"VIOLATION property={PROP} replay={path} class={bad[0][1]}")
        return 1
    print("replay: trace accepted")
    return 0
