"""C01 — write then read returns exactly the rows written.

X  Writer.tla (content layer of the writer: 64-row chunks, lazy ErrTooManyRowGroups flush, explicit
   row-group and page flushes, close) exhaustively: conservation, row-group limits, page partition
G  seeded TLC simulation over call histories x option vectors (page version, codec, encoding family,
   dictionary limit, page/write buffer sizes, statistics options, MaxRowsPerRowGroup), batch sizes
   crossing the 64-row chunk
B  vh c01: history executed through GenericWriter[T].Write / Writer.Write(any) / WriteRows(Deconstruct)
   on a 20-field row type with boundary values; file read back via RowGroups().Rows(), Read[T] and
   GenericReader.Read
V  WriterMon.tla replays the logged calls through Writer.tla's operators and compares row groups,
   row order, bit-level row equality (tokens) and page partition
"""
import random
import time

from lib import vf

PROP = "C01"
PIPE = vf.Pipeline(PROP, "c01", ("WriterMon.tla", "WriterMon.cfg"),
                   pin=lambda s, init: dict(s, api=init["api"]), heap="8g")


def generate(wd, quick, seed, n_sim):
    sim = vf.tlc(wd, "MC_Writer.tla", "MC_Writer_sim.cfg", workers=1, simulate=n_sim, depth=10, seed=seed,
                 extra=["-noGenerateSpecTE"], timeout=900)
    seen, out = set(), []
    for s in sim.prints("SCENARIO"):
        key = repr(s)
        if key in seen:
            continue
        seen.add(key)
        ops = [o for o in s["ops"] if o["op"] != "end"]
        out.append({"id": len(out) + 1, "cfg": s["cfg"], "ops": ops, "src": "simulate"})
    if len(out) < n_sim // 2:
        raise vf.Infra("simulation produced too few scenarios:\n" + sim.out[-1500:])
    return out


def run(tier, seed):
    t0 = time.time()
    quick = tier != "thorough"
    vh = vf.build_vh()
    wd = vf.scratch()
    x = vf.model_check(wd, "MC_Writer.tla", "MC_Writer_quick.cfg" if quick else "MC_Writer_thorough.cfg", "X Writer")
    scenarios = generate(wd, quick, seed, 250 if quick else 5000)
    # the same histories at scale: every write k times larger, rows from the high-cardinality id space (large
    # dictionaries that outgrow their pooled storage, dictionary limits, many pages per chunk)
    rnd = random.Random(seed)
    bulk = []
    for s in rnd.sample(scenarios, min(len(scenarios), 6 if quick else 80)):
        total = sum(o.get("n", 0) for o in s["ops"])
        if total == 0:
            continue
        k = max(2, (9000 if quick else 14000) // total)
        bulk.append(dict(s, id=len(scenarios) + len(bulk) + 1, scale=k, poison=len(bulk) % 2 == 0, src="bulk"))
    scenarios += bulk
    vf.log(f"[C01] X: {x.distinct} states / {x.generated} transitions; scenarios {len(scenarios)} ({len(bulk)} at scale)")
    out, verdict, vr, tp = PIPE.run(vh, wd, scenarios, seed)
    cnt = verdict["cnt"]
    if cnt["finals"] < cnt["traces"] // 2 and cnt["flagged"] == 0:
        raise vf.Infra(f"dead driver: {cnt}")
    rc = out.report()
    vf.write_evidence(PROP, tier, seed, "model_checking", {
        "states": x.distinct + vr.distinct, "transitions": x.generated + vr.generated,
        "traces_validated_against_impl": cnt["traces"],
        "samples": [scenarios[0], scenarios[len(scenarios) // 2]],
        "model": {"module": "Writer.tla", "distinct_states": x.distinct, "transitions": x.generated},
        "monitor": {"module": "WriterMon.tla", "events": verdict["consumed"], "files_judged": cnt["finals"],
                    "rows_written": cnt["rows"], "vacuous": cnt["vacuous"], "flagged": cnt["flagged"]},
        "exhaustive": False, "known_findings": sorted(out.kf_hits),
    }, [
        "one static row type with 20 fields (all physical types, logical string/uuid, optional pointer and non-pointer, "
        "LIST, plain repeated, MAP with <=1 entry, nested and optional groups); schema-shape coverage is C03's",
        "values are drawn from boundary tables (min/max ints, NaN payloads, -0, infinities, empty/long/0xFF strings) by a seeded PRNG",
        "a row token is the id iff every leaf read back is bit-identical to what was written (nil==empty, zero optional==null)",
    ], time.time() - t0, len(out.violations))
    return rc


def replay(path, seed):
    return PIPE.replay(path, seed)
