"""C18 — encrypted files round-trip, leak no plaintext and authenticate every module.

X  Encryption.tla: AAD = (file, module type, row group, column, page ordinal); the page reader COUNTS
   ordinals (sequential reads, seek with index -> ordinal := target page, seek without index -> 0);
   for every history of <=5 reads/seeks and every single tampering (bit flip, two pages swapped, page
   transplanted from another file / column / row group): ordinals agree with positions, untampered
   files always decrypt, a delivered page is always the genuine page of its position
G  EncScen.tla: footer mode x key assignment x page version x codec x dictionary x tamper kind x target
   page x access path x page index, sampled
B  vh c18: write with encryption, read back (sequential or after a seek), scan raw bytes for plaintext
   markers (values, hence statistics and dictionary entries), tamper with a copy (flip, swap, transplant,
   wrong key, missing key, truncation) and read the affected and an unaffected row group
V  CryptoMon.tla
"""
import random
import time

from lib import vf

PROP = "C18"
PIPE = vf.Pipeline(PROP, "c18", ("CryptoMon.tla", "CryptoMon.cfg"), per_class=4)


def run(tier, seed):
    t0 = time.time()
    quick = tier != "thorough"
    rnd = random.Random(seed)
    vh = vf.build_vh()
    wd = vf.scratch()
    x = vf.model_check(wd, "Encryption.tla", "MC_Encryption.cfg", "X Encryption")
    univ = vf.emit_scenarios(wd, "EncScen.tla", "EncScen.cfg", minimum=3000)
    chosen = rnd.sample(univ, 350) if quick else univ
    scenarios = [dict(s, id=i + 1) for i, s in enumerate(chosen)]
    vf.log(f"[C18] X: {x.distinct} states; universe {len(univ)}; scenarios {len(scenarios)}")
    out, verdict, vr, tp = PIPE.run(vh, wd, scenarios, seed)
    cnt = verdict["cnt"]
    if (cnt["rounds"] < cnt["traces"] // 2 or cnt["rejected"] < cnt["traces"] // 10) and cnt["flagged"] == 0:
        raise vf.Infra(f"dead driver: {cnt}")
    rc = out.report()
    vf.write_evidence(PROP, tier, seed, "model_checking", {
        "states": x.distinct + vr.distinct, "transitions": x.generated + vr.generated,
        "traces_validated_against_impl": cnt["traces"],
        "samples": [scenarios[0], scenarios[-1]],
        "monitor": {"module": "CryptoMon.tla", "events": verdict["consumed"], "round_trips": cnt["rounds"], "leak_scans": cnt["leaks"],
                    "tamper_reads": cnt["tampers"], "tamper_reads_rejected": cnt["rejected"], "flagged": cnt["flagged"]},
        "universe": len(univ), "exhaustive": not quick, "known_findings": sorted(out.kf_hits),
    }, [
        "AES-GCM itself is trusted (Go standard library); keys are static 16-byte keys",
        "tampering targets data page body modules of the column with its own key; swaps and transplants are done in place only when the envelopes have equal sizes",
        "the plaintext FileCryptoMetaData of the encrypted-footer layout is not an encrypted module (outside the statement)",
    ], time.time() - t0, len(out.violations))
    return rc


def replay(path, seed):
    return PIPE.replay(path, seed)
