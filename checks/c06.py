"""C06 — page search never misses.

X  Search.tla: transcription of Find/binarySearch/linearSearch + the writer's boundary-order rule,
   checked over every index of <=3 (quick) / <=4 (thorough) pages over values 0..3 and every probe
G  the same universe, one scenario per index
B  vh c06: the real writer builds the column index for int32 / byte-array (truncated bounds, incl. 0xFF
   prefixes) / double columns, the real Search and Find(nulls first) are probed with every value
V  FindMon.tla judges (real index, real page contents, real result)
"""
import json
import os
import time

from lib import vf

PROP = "C06"


def _exec(vh, wd, scenarios, seed, name):
    return vf.execute(vh, "c06", wd, scenarios, seed, name)


def _mon(wd, tp):
    return vf.monitor(wd, "FindMon.tla", "FindMon.cfg", tp)


def run(tier, seed):
    t0 = time.time()
    quick = tier != "thorough"
    vh = vf.build_vh()
    wd = vf.scratch()
    tag = "quick" if quick else "thorough"
    x = vf.require_clean(vf.tlc(wd, "MC_Search.tla", f"MC_Search_{tag}.cfg", workers=vf.NCPU,
                                extra=["-noGenerateSpecTE"]), "X Search")
    a = vf.tlc(wd, "MC_Search.tla", "MC_Search_asfound.cfg", workers=1, extra=["-noGenerateSpecTE"])
    if not a.violation:
        raise vf.Infra("as-found Search model no longer shows the null-page counterexample")
    g = vf.tlc(wd, "MC_Search.tla", f"MC_Search_emit_{tag}.cfg", workers=1, extra=["-noGenerateSpecTE"])
    scenarios = [{"id": i + 1, "pages": s["pages"]} for i, s in enumerate(g.prints("SCENARIO"))]
    if len(scenarios) < 1000:
        raise vf.Infra("scenario emission failed:\n" + g.out[-1500:])
    vf.log(f"[C06] X: {x.distinct} (index,probe) states; scenarios {len(scenarios)}")

    tp = _exec(vh, wd, scenarios, seed, "all")
    inits = vf.inits(tp)
    verdict, vr = _mon(wd, tp)
    cnt = verdict["cnt"]
    vf.log(f"[C06] V: {cnt}")
    if cnt["present"] < cnt["finds"] // 10:
        raise vf.Infra(f"dead driver: {cnt}")

    out = vf.Verdict(PROP)
    by_id = {s["id"]: s for s in scenarios}
    flagged = {}
    for t, i, cls in verdict["bad"]:
        e = inits[t]
        flagged.setdefault((e["sc"], e["kind"]), cls)
    confirm = []
    per = {}
    picked = []
    for (sc, kind), cls in sorted(flagged.items()):
        if per.setdefault((kind, cls), 0) < 6:
            per[(kind, cls)] += 1
            picked.append(((sc, kind), cls))
    for n, ((sc, kind), cls) in enumerate(picked[:60]):
        confirm.append(({"id": n + 1, "pages": by_id[sc]["pages"], "kind": kind, "orig": sc}, cls))
    if confirm:
        tp2 = _exec(vh, wd, [c[0] for c in confirm], seed, "confirm")
        in2 = vf.inits(tp2)
        v2, _ = _mon(wd, tp2)
        again = {}
        for t, i, cls in v2["bad"]:
            again.setdefault(in2[t]["sc"], (cls, i, t))
        for s, cls in confirm:
            if s["id"] not in again:
                raise vf.Infra(f"flagged scenario did not reproduce when run alone: {s}")
            c2, i2, t2 = again[s["id"]]
            evs = vf.events_of(tp2, t2)
            what = f"kind={s['kind']} pages={s['pages']} find={[e for e in evs if e['i'] == i2]}"
            out.flag(c2, what[:600], {"property": PROP, "scenario": s, "seed": seed, "class": c2},
                     f"{s['kind']}-{s['orig']}")
    rc = out.report()
    sample_ev = vf.events_of(tp, 5)[:3]
    vf.write_evidence(PROP, tier, seed, "model_checking", {
        "states": x.distinct + vr.distinct,
        "transitions": x.generated + vr.generated,
        "traces_validated_against_impl": cnt["traces"],
        "samples": [{"scenario": scenarios[4], "trace_head": sample_ev}, {"scenario": scenarios[-1]}],
        "model": {"module": "Search.tla", "config": f"MC_Search_{tag}.cfg", "index_probe_pairs": x.distinct},
        "monitor": {"module": "FindMon.tla", "events": verdict["consumed"], "finds_judged": cnt["finds"],
                    "finds_with_value_present": cnt["present"], "flagged": cnt["flagged"]},
        "column_kinds": sorted({e["kind"] for e in inits.values()}),
        "exhaustive": True,
        "known_findings": sorted(out.kf_hits),
    }, [
        "universe: every sequence of <=3 (quick) / <=4 (thorough) pages, each a null page or [lo,hi] over 0..3; probes 0..4",
        "indexes are produced by the real writer (so the real indexer decides boundary order and truncation)",
        "NewColumnIndex-based (in-memory) indexes are not probed, only FileColumnIndex",
    ], time.time() - t0, len(out.violations))
    return rc


def replay(path, seed):
    rp = json.load(open(path))
    vh = vf.build_vh()
    wd = vf.scratch()
    tp = _exec(vh, wd, [rp["scenario"]], seed, "replay")
    print(open(tp).read())
    v, _ = _mon(wd, tp)
    if v["bad"]:
        print(f"VIOLATION property={PROP} replay={path} class={v['bad'][0][2]}")
        return 1
    print("replay: trace accepted")
    return 0
