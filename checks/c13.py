"""C13 — corruption inside a checksummed page is reported, never returned as data.

X  Corrupt.tla: which load routine brings a page in (readPage in the stream vs the lazy readDictionary
   after a seek) and whether it verifies the checksum, for every history of <=5 seeks/reads and every
   single corrupted page: a page is never delivered if its body or its dictionary is corrupted
G  the seek/read histories of PageReader.tla (edge cover + simulation, as in C08) x faults
   (column, data page or dictionary page, first/middle/last body byte, 1-bit or 3-byte burst)
B  vh c13: the fault is applied to a copy of the file; the history runs on pages, value readers, row
   readers, Reader, GenericReader, sync and async, compressed or not, v1/v2
V  CorruptMon.tla: no panic, nothing from a tainted page is delivered, delivered data is the sequential
   content, an error where tainted data was due identifies corruption (ErrCorrupted)
"""
import json
import os
import random
import time

from lib import vf
from checks import c08

PROP = "C13"


def _pin(s, init):
    return dict(s, layer=init["layer"], variant=init["variant"])


PIPE = vf.Pipeline(PROP, "c13", ("CorruptMon.tla", "CorruptMon.cfg"), pin=_pin, heap="8g", per_class=5)
PIPE.survive = True   # a panic in the reader's own goroutine (async read mode) kills the harness: recorded as Fatal


def run(tier, seed):
    t0 = time.time()
    quick = tier != "thorough"
    rnd = random.Random(seed)
    vh = vf.build_vh()
    wd = vf.scratch()
    x = vf.model_check(wd, "Corrupt.tla", "MC_Corrupt_quick.cfg", "X Corrupt")
    vf.must_violate(wd, "Corrupt.tla", "MC_Corrupt_asfound.cfg", "Corrupt")
    xr = vf.tlc(wd, "MC_PageReader.tla", "MC_PageReader_quick.cfg", workers=vf.NCPU, dump="graph", extra=["-noGenerateSpecTE"])
    vf.require_clean(xr, "X PageReader")
    nodes, init, edges = vf.parse_dot(os.path.join(wd, "graph.dot"))
    tests, _ = vf.edge_cover(nodes, init, edges, extend=6)
    base = []
    for root, labels in tests:
        cfg = c08._cfg_of(nodes[root])
        ops = [c08._op_of(l) for l in labels]
        if any(o["op"] == "read" for o in ops):
            base.append((cfg, ops))
    if quick:
        base = rnd.sample(base, min(len(base), 120))
    scenarios = []
    for cfg, ops in base:
        np = len(cfg["pageRows"])
        faults = [(c, p, w, k) for c in ("id", "s", "l") for p in ([-1] if c == "s" else []) + list(range(np))
                  for w in (0, 1, 2) for k in (0, 1)]
        for c, p, w, k in (rnd.sample(faults, 3) if quick else faults):   # thorough: every fault of every history
            scenarios.append({"id": len(scenarios) + 1, "cfg": cfg, "ops": ops,
                              "fault": {"col": c, "page": p, "where": w, "kind": k}})
    vf.log(f"[C13] X: {x.distinct}+{xr.distinct} states; scenarios {len(scenarios)}")
    out, verdict, vr, tp = PIPE.run(vh, wd, scenarios, seed)
    cnt = verdict["cnt"]
    if cnt["detected"] < cnt["traces"] // 20 and cnt["flagged"] == 0:
        raise vf.Infra(f"dead driver (no corruption ever detected): {cnt}")
    rc = out.report()
    vf.write_evidence(PROP, tier, seed, "fault_enumeration", {
        "evaluations": cnt["traces"], "distinct_nontrivial": cnt["detected"] + cnt["flagged"],
        "rule": "one evaluation = one (seek/read history from the PageReader model's edge cover, fault, reader kind) executed on a "
                "corrupted copy of a file; non-trivial = the history reached tainted data, i.e. a read reported an error or was flagged "
                "(counted by the monitor)",
        "samples": [scenarios[0], scenarios[-1], vf.events_of(tp, 1)[:4]],
        "states": x.distinct + xr.distinct + vr.distinct, "transitions": x.generated + xr.generated + vr.generated,
        "traces_validated_against_impl": cnt["traces"],
        "monitor": {"module": "CorruptMon.tla", "events": verdict["consumed"], "clean_reads": cnt["reads"],
                    "reads_reporting_corruption": cnt["detected"], "vacuous": cnt["vacuous"], "flagged": cnt["flagged"]},
        "exhaustive": False, "known_findings": sorted(out.kf_hits),
    }, [
        "faults are placed in row group 0; positions: first / middle / last byte of the stored (possibly compressed) body; 1-bit flip or 3-byte burst",
        "pages whose stored CRC is 0 are treated as unchecked by the reader (format rule) - the writer never emits 0 for these files",
        "flips in page headers, footers and encrypted files are out of scope of the statement",
    ], time.time() - t0, len(out.violations))
    return rc


def replay(path, seed):
    return PIPE.replay(path, seed)
