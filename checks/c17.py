"""C17 — output bytes are a function of input and options only.

X  Reset.tla: which slice-typed footer fields alias the live column writers after a row group is
   committed, and what format.RowGroup.Reset does to them: right after Reset the writer must equal a fresh one
G  pairs (prior history, history H) cut from TLC simulations of Writer.tla, with sink failures during
   the prior history and abandoned (unclosed) priors
B  vh c17 (default build and purego build): H on a fresh writer, on the reused writer after Reset, in
   another goroutine; sha256 of the produced bytes
V  DetMon.tla: all digests of a scenario are equal, within a build and across builds
"""
import random
import time

from lib import vf
from checks import c01

PROP = "C17"


def _pin(s, init):
    return dict(s, api=init["api"])


PIPE = vf.Pipeline(PROP, "c17", ("DetMon.tla", "DetMon.cfg"), pin=_pin, per_class=4)


def run(tier, seed):
    t0 = time.time()
    quick = tier != "thorough"
    rnd = random.Random(seed)
    vh = vf.build_vh()
    vh_pure = vf.build_vh(tags=("verif", "purego"))
    wd = vf.scratch()
    x = vf.model_check(wd, "Reset.tla", "MC_Reset_quick.cfg", "X Reset")
    vf.must_violate(wd, "Reset.tla", "MC_Reset_asfound.cfg", "Reset")
    base = c01.generate(wd, quick, seed, 120 if quick else 1500)
    scenarios = []
    for s in base:
        other = rnd.choice(base)
        prior = list(s["ops"])
        if rnd.random() < 0.4:
            prior = [o for o in prior if o["op"] != "close"]          # abandoned without Close
        if rnd.random() < 0.3 and len(prior) > 1:
            prior = prior[: rnd.randint(1, len(prior))]
        fail = -1 if rnd.random() < 0.6 else rnd.choice([0, 3, 4, 100, 700, 5000])
        cfg = s["cfg"]
        if len(scenarios) % 5 == 4:
            # a directed family: the earlier file overflowed its dictionaries (tiny limit, tiny pages) and was
            # abandoned with rows still buffered; the next file overflows them again
            cfg = dict(cfg, dict="tiny", pagebuf="tiny")
            prior = [o for o in prior if o["op"] != "close"] + [{"op": "write", "n": 65}, {"op": "write", "n": 3}]
            fail = -1
        h = list(other["ops"])
        if len(scenarios) % 5 == 2:
            # a second directed family: some rows of the new file arrive through WriteRowGroup as a sorted buffer
            h = [dict(o, op="wrg") if o["op"] == "write" and k % 2 == 0 else o for k, o in enumerate(h)]
        scenarios.append({"id": len(scenarios) + 1, "cfg": cfg, "prior": prior, "h": h, "failAt": fail})
    # a few of them at scale (large dictionaries that outgrow their pooled storage, many pages): see c01
    for s in rnd.sample(scenarios, 4 if quick else 30):
        total = sum(o.get("n", 0) for o in s["h"])
        if total:
            k = max(2, (7000 if quick else 12000) // total)
            scenarios.append(dict(s, id=len(scenarios) + 1, scale=k, prior=[dict(o) for o in s["prior"]], h=[dict(o) for o in s["h"]]))
    vf.log(f"[C17] X: {x.distinct} states; scenarios {len(scenarios)}")

    # both builds run every scenario; the monitor joins them by scenario key
    tp1 = vf.execute(vh, "c17", wd, scenarios, seed, "default", extra=["--build", "default"], timeout=7200)
    tp2 = vf.execute(vh_pure, "c17", wd, scenarios, seed, "purego", extra=["--build", "purego"], timeout=7200)
    joined = wd + "/joined.trace.ndjson"
    n1 = sum(1 for _ in open(tp1))
    import json
    with open(joined, "w") as out:
        tmax = 0
        for line in open(tp1):
            out.write(line)
            tmax = max(tmax, json.loads(line)["t"])
        for line in open(tp2):
            e = json.loads(line)
            e["t"] += tmax
            out.write(json.dumps(e, separators=(",", ":")) + "\n")
    verdict, vr = vf.monitor(wd, "DetMon.tla", "DetMon.cfg", joined)
    cnt = verdict["cnt"]
    vf.log(f"[C17] V: {cnt}")
    if cnt["crossbuild"] < len(scenarios) // 2 and cnt["flagged"] == 0:
        raise vf.Infra(f"dead driver: {cnt}")
    out = vf.Verdict(PROP)
    ini = vf.inits(joined)
    by_id = {s["id"]: s for s in scenarios}
    per = {}
    for t, i, cls in verdict["bad"]:
        if per.setdefault(cls, 0) >= 4:
            continue
        per[cls] += 1
        e0 = ini[t]
        s = dict(by_id[e0["sc"]], api=e0["api"], orig=e0["sc"])
        evs = [e for e in vf.events_of(joined, t)]
        what = f"build={e0['build']} api={e0['api']} cfg={s['cfg']} prior={c01_short(s['prior'])} failAt={s['failAt']} h={c01_short(s['h'])} " \
               f"{[ (e.get('variant'), e.get('len'), e.get('msg', '')) for e in evs if e['ev'] == 'Out']} " \
               f"{[e for e in evs if e['ev'] == 'Diff']}"
        out.flag(cls, what[:900], {"property": PROP, "scenario": s, "seed": seed, "class": cls, "build": e0["build"]},
                 f"{cls}-{e0['sc']}-{e0['build']}")
    rc = out.report()
    vf.write_evidence(PROP, tier, seed, "model_checking", {
        "states": x.distinct + vr.distinct, "transitions": x.generated + vr.generated,
        "traces_validated_against_impl": cnt["traces"],
        "samples": [scenarios[0], scenarios[-1]],
        "model": {"module": "Reset.tla", "distinct_states": x.distinct},
        "monitor": {"module": "DetMon.tla", "events": verdict["consumed"], "outputs_compared": cnt["outs"],
                    "cross_build_comparisons": cnt["crossbuild"], "flagged": cnt["flagged"]},
        "builds": ["default (amd64 assembly)", "purego"], "exhaustive": False, "known_findings": sorted(out.kf_hits),
    }, [
        "the row type has a map field with at most one entry (Go map iteration order is excepted by the property)",
        "encryption nonces are out of scope (no encrypted writer here)",
        "SortingWriter and GenericBuffer.Reset are not driven yet",
    ], time.time() - t0, len(out.violations))
    return rc


def c01_short(ops):
    return " ".join({"write": "W", "flush": "F", "close": "C", "colflush": "P", "wrg": "G"}[o["op"]] + str(o.get("n", o.get("c", ""))) for o in ops)


def replay(path, seed):
    import json
    rp = json.load(open(path))
    tags = ("verif", "purego") if rp.get("build") == "purego" else ("verif",)
    vh = vf.build_vh(tags=tags)
    wd = vf.scratch()
    tp = vf.execute(vh, "c17", wd, [rp["scenario"]], rp.get("seed", seed), "replay", extra=["--build", rp.get("build", "default")])
    print(open(tp).read()[:4000])
    v, _ = vf.monitor(wd, "DetMon.tla", "DetMon.cfg", tp)
    if v["bad"]:
        print(f"VIOLATION property={PROP} replay={path} class={v['bad'][0][2]}")
        return 1
    print("replay: trace accepted")
    return 0
