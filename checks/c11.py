"""C11 — WriteRowGroup copy / re-encode fast paths are indistinguishable from the row path.

X  Cascade.tla: the decision cascade of Writer.WriteRowGroup (chunk-transparency marker, verbatim-copy
   predicate incl. codec / bloom size / page index / encoding stats, column-oriented re-encode) against
   the requirement Allowed(path, src, dst) over all 55 296 source x destination vectors. Vectors where
   the transcribed cascade picks a path the requirement does not allow are NOT a verdict: they are
   replayed on the code first (step B), which decides.
G  a stratified sample of the vectors (all strata: chosen path x allowed or not x source kind)
B  vh c11: the source row group realised as file / buffer / overlapping merge / dedup wrapper /
   converted view / application-defined RowGroup, written with the fast paths on and off (hook
   VerifSetFastPaths); both outputs summarised setting by setting; path counters (VerifPathCounters)
V  CascadeMon.tla: rows equal, each observable setting equal to the row path's, row groups <= maxRows
"""
import random
import time

from lib import vf

PROP = "C11"
PIPE = vf.Pipeline(PROP, "c11", ("CascadeMon.tla", "CascadeMon.cfg"), heap="10g", per_class=4)


def run(tier, seed):
    t0 = time.time()
    quick = tier != "thorough"
    rnd = random.Random(seed)
    vh = vf.build_vh()
    wd = vf.scratch()
    x = vf.tlc(wd, "Cascade.tla", "MC_Cascade.cfg", workers=vf.NCPU, extra=["-noGenerateSpecTE", "-continue"], timeout=900)
    if x.rc not in (0, 12) or x.distinct < 50000:
        raise vf.Infra("X Cascade did not complete:\n" + x.out[-1500:])
    univ = vf.emit_scenarios(wd, "MC_Cascade.tla", "MC_Cascade_emit.cfg", minimum=50000, timeout=900)
    strata = {}
    for s in univ:
        strata.setdefault((s["chosen"], s["allowed"], s["s"]["kind"], s["s"]["big"], s["s"]["flat"], s["near"]), []).append(s)
    per = 3 if quick else 60
    chosen = []
    for key in sorted(strata, key=str):
        chosen += rnd.sample(strata[key], min(per, len(strata[key])))
    scenarios = [{"id": i + 1, "s": s["s"], "d": s["d"], "model": {"chosen": s["chosen"], "allowed": s["allowed"]}}
                 for i, s in enumerate(chosen)]
    not_allowed = sum(1 for s in univ if not s["allowed"])
    vf.log(f"[C11] X: {x.distinct} vectors, {not_allowed} where the transcribed cascade is not Allowed (to be decided on the code); "
           f"scenarios {len(scenarios)} from {len(strata)} strata")
    out, verdict, vr, tp = PIPE.run(vh, wd, scenarios, seed)
    cnt = verdict["cnt"]
    if cnt["copy"] == 0 or cnt["reencode"] == 0 or cnt["rowpath"] == 0:
        if cnt["flagged"] == 0:
            raise vf.Infra(f"dead driver (a path was never taken): {cnt}")
    rc = out.report()
    vf.write_evidence(PROP, tier, seed, "model_checking", {
        "states": x.distinct + vr.distinct, "transitions": x.generated + vr.generated,
        "traces_validated_against_impl": cnt["traces"],
        "samples": [scenarios[0], scenarios[-1]],
        "model": {"module": "Cascade.tla", "vectors": x.distinct, "vectors_where_transcription_not_allowed": not_allowed},
        "monitor": {"module": "CascadeMon.tla", "events": verdict["consumed"], "pairs_compared_ok": cnt["compared"],
                    "via_copy": cnt["copy"], "via_reencode": cnt["reencode"], "via_rows": cnt["rowpath"],
                    "vacuous": cnt["vacuous"], "flagged": cnt["flagged"]},
        "strata": len(strata), "exhaustive": False, "known_findings": sorted(out.kf_hits),
    }, [
        "the row path (fast paths disabled through the hook) is the reference for every setting",
        "settings summarised from the first output row group: codec, data page version, dictionary / plain pages, page-header "
        "statistics, column index presence, bloom filter presence and size",
        "range views and segment packing (split merges) are not driven here; C09 drives merged row groups through WriteRowGroup",
    ], time.time() - t0, len(out.violations))
    return rc


def replay(path, seed):
    return PIPE.replay(path, seed)
