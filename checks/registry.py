"""Single source of truth for MANIFEST.json (bin/mkmanifest)."""

TITLES = {
    "C01": "Write then read returns exactly the rows that were written",
    "C02": "Every written file is well-formed Parquet that an independent decoder agrees on",
    "C03": "All ingestion paths shred a Go value into the same Dremel column streams",
    "C04": "Page encodings are lossless and match the format spec for every input",
    "C05": "Statistics and page indexes bound the data they describe",
    "C06": "Page search by value never misses a page that contains the value",
    "C07": "Bloom filters never answer absent for a value that was written",
    "C08": "Seeking to a row then reading equals skipping to that row sequentially",
    "C09": "Merging sorted row groups yields a sorted, complete, per-input-stable sequence",
    "C10": "Sorting buffers and the sorting writer output a correctly ordered permutation",
    "C11": "Row-group copy and re-encode fast paths are indistinguishable from the row path",
    "C12": "Reading through a different but compatible schema only adds or drops columns",
    "C13": "Corruption inside a checksummed page is reported, never returned as data",
    "C14": "I/O failures and truncated files are always reported, never silently absorbed",
    "C15": "Documented concurrent use behaves like some serial execution",
    "C16": "Values handed to the caller are not changed by later library activity",
    "C17": "Output bytes are a function of input and options only",
    "C18": "Encrypted files round-trip, leak no plaintext and authenticate every module",
    "C19": "Variant values survive encoding, and shredding never changes them",
    "C20": "Compression codecs are lossless whatever was compressed before",
}

# property -> dict(level, text, note, technique, design_ref)
CHECKS = {
    "C01": dict(
        level="model_checking",
        text="Writer.tla models where rows go (64-row chunks, lazy row-group flush at MaxRowsPerRowGroup, explicit "
             "row-group and page flushes, close) and is model-checked for conservation / limits / page partition. TLC "
             "simulations produce call histories x option vectors; the harness executes them through three write APIs on "
             "a 20-field row type with boundary values and reads the file back three ways; WriterMon.tla replays the "
             "logged calls through the same TLA+ operators and compares row groups, order and bit-level row equality. "
             "A sample of the histories runs again at scale (high-cardinality values, ~9000 rows, half with recycled pool "
             "memory overwritten); the option vector includes the page buffer pool.",
        note="Value fidelity is observed through boundary-value concretisation (tokens), not enumerated by TLC; one static "
             "row type (schema shapes are C03's universe); histories <=7 calls.",
        technique="TLA+ model (TLC exhaustive) + TLC-simulated histories replayed on the code + TLC trace monitor sharing the model's operators",
        design_ref="DESIGN.md section 5 C01",
    ),
    "C07": dict(
        level="model_checking",
        text="Bloom.tla models the column writer's filter bookkeeping (incremental insert, dictionary fallback, the three "
             "flushFilterPages strategies, pre-sizing, reset) and TLC checks written <= filter for every short history. "
             "TLC-simulated histories are executed for nine physical types across entry paths (WriteRows, ColumnWriters, "
             "WriteRowGroup from buffer / verbatim copy / re-encode) and filter options; BloomMon.tla requires every value "
             "stored in a chunk to check true against that chunk's filter, and the probe of a reader written from the format "
             "document (Sbbf.tla: block index, salted masks; XXHash.tla: XXH64 of the PLAIN bytes) to find it in the bits "
             "that lie in the file.",
        note="Hashing is abstract in Bloom.tla and concrete in XXHash.tla (self-checked on published digests). "
             "Encrypted bloom filters are C18's.",
        technique="TLA+ model (TLC exhaustive) + TLC-simulated histories replayed on the code + TLC trace monitor",
        design_ref="DESIGN.md section 5 C07",
    ),
    "C08": dict(
        level="model_checking",
        text="PageReader.tla, an implementation-shaped TLA+ model of FilePages.SeekToRow/ReadPage (one action per "
             "exit, believed vs physical stream position, cached page), is model-checked exhaustively against the "
             "abstract requirement; an edge cover of its state graph plus seeded TLC simulations are replayed on every "
             "real reader kind (pages, value readers, row readers, Reader, GenericReader, sync/async, v1/v2, with and "
             "without offset index) and every recorded trace is judged by the SeekMon.tla monitor in TLC.",
        note="Bounded: <=4 pages x <=3 rows per page, 1-2 row groups, three column shapes. The monitor trusts the "
             "harness's projection of values to tokens (inverse of the values it wrote). Layers above FilePages are "
             "covered by trace validation, not by their own implementation-shaped model yet.",
        technique="TLA+ model (TLC exhaustive) + model-generated scenarios replayed on the code + TLC trace monitor",
        design_ref="DESIGN.md section 5 C08",
    ),
    "C04": dict(
        level="model_checking",
        text="Encodings.tla states the page encodings as decoders written from the format document (PLAIN, RLE/bit-packed "
             "hybrid, BIT_PACKED, dictionary indexes, DELTA_BINARY_PACKED with byte-wise wrap-around arithmetic, "
             "DELTA_LENGTH_BYTE_ARRAY, DELTA_BYTE_ARRAY, BYTE_STREAM_SPLIT), self-checked on hand-worked examples of that "
             "document. TLC enumerates (encoding, type) x length class x shape descriptors; the harness expands them and "
             "calls the library's encoders and decoders in the assembly and the purego build with clean, dirty, short, "
             "non-empty and previous-output destination buffers. EncMon.tla makes TLC decode the library's bytes with the "
             "specification and requires the input back, every library decode to agree, and the bytes to be independent of "
             "the destination buffer's past and of the build.",
        note="The specification decodes what the library emits (the library's decoder is not fed encodings of other "
             "writers); sequences of up to 300 values; quick tier samples 18 descriptors per (encoding, type) pair.",
        technique="executable TLA+ specification of the encodings evaluated by TLC as independent decoder over TLC-enumerated pattern descriptors run on two builds of the code",
        design_ref="DESIGN.md section 5 C04",
    ),
    "C05": dict(
        level="model_checking",
        text="Stats.tla models the fold of page bounds into chunk statistics (NaN-aware Compare, all-NaN and all-null "
             "pages) and is checked over every small page layout; Order.tla defines the column orders on PLAIN bytes and "
             "is self-checked. The same layouts are realised by the real writer for ten column kinds with seeded boundary "
             "tables; page-header statistics, column index, chunk statistics and real page contents are recorded as bytes "
             "and StatsMon.tla checks every bound, count, null-page flag and claimed boundary order in TLC.",
        note="<=3 pages x <=2 values per page; decimal/int96/be128 orders and level histograms not covered; the "
             "verbatim-copy path's statistics are covered by C11.",
        technique="TLA+ model of the statistics fold (TLC exhaustive) + exhaustive replay of layouts on the code + TLC monitor with TLA+ column orders",
        design_ref="DESIGN.md section 5 C05",
    ),
    "C06": dict(
        level="model_checking",
        text="Search.tla transcribes Find/binarySearch/linearSearch and the writer's boundary-order rule; TLC checks the "
             "never-miss requirement for every index of <=3/<=4 pages over 4 values and every probe. The same universe is "
             "then realised by the real writer (int32, truncated byte-array incl. 0xFF prefixes, double columns) and the "
             "real Search/Find results are judged against the real index and real page contents by FindMon.tla in TLC.",
        note="Universe bounded to <=4 pages, 4 distinct values, pages summarised by their lo/hi values. Only "
             "file-backed column indexes are probed.",
        technique="TLA+ transcription checked exhaustively by TLC + exhaustive replay of the universe on the code + TLC trace monitor",
        design_ref="DESIGN.md section 5 C06",
    ),
    "C02": dict(
        level="model_checking",
        text="FileLayout.tla is an independent reader of Parquet files written in TLA+ from the format documents: it parses "
             "the footer and every page header with Thrift.tla, decompresses with Snappy.tla, checks CRC-32, decodes levels "
             "and values with Encodings.tla and re-derives every offset, size, value/row/null count, encoding list and "
             "statistics, page-index entry, bloom-filter frame and row-group total, the min/max bounds and null counts of page "
             "headers, column index and chunk statistics against the values it decoded, and the size statistics (level "
             "histograms, unencoded byte counts); the regions it finds must tile the file. "
             "TLC-simulated writer histories x option vectors are executed directly and through WriteRowGroup (copy and "
             "re-encode); the harness passes rows with levels it computed itself, logs the file bytes and the streams "
             "written, and LayoutMon.tla makes TLC read each file and compare.",
        note="GZIP/ZSTD/LZ4_RAW/BROTLI page bodies are decompressed for the specification by the codec packages; files are "
             "kept below ~40 kB; one schema (all physical types, optional, repeated, optional group with repeated leaf).",
        technique="executable TLA+ specification of the file format evaluated by TLC as independent reader over files produced from TLC-simulated writer histories",
        design_ref="DESIGN.md section 5 C02",
    ),
    "C03": dict(
        level="model_checking",
        text="Dremel.tla defines the (value, r, d) streams of a value (Shred) and is self-checked by TLC over a curated "
             "schema universe (Assemble o Shred = id, level bounds). NullRuns.tla models the typed path's null-run scanner "
             "and is checked for every bitmap. TLC generates (schema, value) pairs, random values for a static catalogue "
             "of 16 Go struct types and null-run batch patterns; the harness writes each through every entry point "
             "(GenericWriter[T], Writer.Write, GenericBuffer[T], Buffer.Write, RowBuffer[T], WriteRows(Deconstruct), "
             "ColumnWriters, GenericWriter[any]/GenericBuffer[any]) and ShredMon.tla compares the stored streams with "
             "Shred, the paths with each other, and Reconstruct(Deconstruct(v)) with v.",
        note="Bounded universe (depth <=3, two leaves, lists <=2-3); leaf types limited to the catalogue; Go maps "
             "limited to one entry; zero values of optional non-pointer structs are not generated (documented latitude).",
        technique="TLA+ library (Dremel) as the oracle in a TLC trace monitor + TLC-generated values + model of the run scanner",
        design_ref="DESIGN.md section 5 C03",
    ),
    "C09": dict(
        level="model_checking",
        text="Merge.tla models the merge planner (row-group bounds from the first/last non-null page, overlap "
             "segmentation, concatenation of single-row-group segments) and TLC checks for every sorting configuration "
             "and small input set that the plan's output is sorted and complete. The same universe is realised as files "
             "and buffers (rows scaled to blocks that reach the range refinement), merged through MergeRowGroups with "
             "several batch sizes, written through WriteRowGroup and through MergeRowReaders; MergeMon.tla checks "
             "sortedness, per-input order, completeness and the dedupe rule on every output.",
        note="One optional int64 sorting column, keys over {null,1,2}, <=3 inputs; loser-tree and window internals are "
             "covered by trace validation only.",
        technique="TLA+ planner model (TLC exhaustive) + exhaustive/sampled replay of the universe on the code + TLC trace monitor",
        design_ref="DESIGN.md section 5 C09",
    ),
    "C10": dict(
        level="model_checking",
        text="SortBuffer.tla models the order a sorting buffer implements (optional wrapper with nulls first/last, "
             "reversedColumnBuffer for descending columns, column-by-column Less) and TLC checks it equals the declared "
             "order for every pair of rows and all 16 two-column configurations. Row lists x configurations from TLC are "
             "sorted through GenericBuffer[T], Buffer, RowBuffer[T], a sorted buffer written with WriteRowGroup and the "
             "SortingWriter with several run sizes and duplicate dropping; SortMon.tla checks permutation with intact rows, "
             "declared order, agreement with Schema.Comparator and the recorded sorting metadata.",
        note="Two optional sorting columns, keys over {null,1,2}, <=3 abstract rows scaled to runs of 9/70; repeated "
             "sorting columns not covered.",
        technique="TLA+ order model (TLC exhaustive) + TLC-enumerated inputs replayed on the code + TLC trace monitor",
        design_ref="DESIGN.md section 5 C10",
    ),
    "C11": dict(
        level="model_checking",
        text="Cascade.tla transcribes the decision cascade of Writer.WriteRowGroup and states the requirement "
             "Allowed(path, src, dst); TLC evaluates it over all 147 456 source x destination vectors (vectors where the "
             "transcription is not allowed are decided on the code). A stratified sample of vectors (strata include near "
             "misses of the copy predicate) is realised with eight kinds of source row groups, among them segmented ones, "
             "and two row types (with and without levels), and written with the fast paths on and off (hook); CascadeMon.tla compares rows "
             "and every observable setting with the row path's output and checks the row-group limit.",
        note="Settings summarised from the first output row group; range views are not driven; bloom filter sizes "
             "are compared only when the first output row groups have equal size; one known finding (page-header statistics on the copy path) is listed in known_findings.json.",
        technique="TLA+ decision-table model (TLC exhaustive) + stratified replay on the code against the row-path reference + TLC trace monitor",
        design_ref="DESIGN.md section 5 C11",
    ),
    "C12": dict(
        level="model_checking",
        text="Convert.tla defines Project(src, tgt, row) - shared columns keep values and nesting, added columns are "
             "null or zero - and is self-checked by TLC over 72 named source schemas x targets obtained by <=2 "
             "delete / permute / add edits x all small rows. Sampled triples are realised with Go types built from the "
             "trees; rows are obtained through the target schema via NewReader(file, schema).Read/ReadRows, "
             "ConvertRowGroup, CopyRows (from file rows, RowBuffer and Buffer into writers and buffers) and "
             "MergeRowGroups(schema), each row also with its lists stretched to two and three elements; ConvertMon.tla "
             "checks the row count, compares the shared part exactly and requires added fields to hold only nulls and zeros.",
        note="int64 leaves; one nested group; the statement leaves open whether an added optional group / repeated leaf "
             "is null, empty or zero-filled, so only the shared part is compared exactly; classes are qualified by edit shape and "
             "API path; six known findings, all on MergeRowGroups(schema), are listed in known_findings.json.",
        technique="TLA+ requirement operator (self-checked by TLC) as the oracle of a TLC trace monitor + TLC-enumerated schema edits replayed on the code",
        design_ref="DESIGN.md section 5 C12",
    ),
    "C13": dict(
        level="fault_enumeration",
        text="Corrupt.tla models which load routine brings a page into memory (readPage in the stream vs the lazy "
             "readDictionary after a seek) and whether it verifies the checksum; TLC checks that no page is delivered "
             "when its body or its dictionary is corrupted. The seek/read histories of the PageReader model's edge "
             "cover are crossed with faults (column, data or dictionary page, first/middle/last body byte, bit or "
             "burst) and executed on eight reader kinds; CorruptMon.tla judges every read in TLC.",
        note="Faults in row group 0 of small files; 3 positions x 2 shapes per page in the quick tier (a seeded sample), "
             "more in thorough; header/footer flips are outside the statement.",
        technique="TLA+ load-routine model (TLC exhaustive) + model-generated histories x enumerated faults on the code + TLC trace monitor",
        design_ref="DESIGN.md section 5 C13",
    ),
    "C14": dict(
        level="fault_enumeration",
        text="Sink.tla models how a failing sink write reaches the caller with and without the bufio write buffer "
             "(sticky error, Close flushes) and TLC checks that every failure is reported. For TLC-simulated writer "
             "histories x option vectors the harness injects sink failures at write-call indexes and byte offsets, opens "
             "strict prefixes of the good file, and reads through a ReaderAt that fails or short-reads at call indexes; "
             "IOMon.tla requires an error for every fired sink fault / truncation and complete rows whenever no error "
             "was reported. A further stage binds the page buffers of every BufferPool implementation to PageBuffer.tla: "
             "TLC-simulated Write/Read/Seek/WriteTo/recycle histories, every result replayed by BufMon.tla.",
        note="Quick tier samples <=30 positions per fault kind and scenario (boundaries +-1 always included); thorough "
             "enumerates up to 1500 per kind (all offsets and prefixes of files <=6 kB). Sinks obey the io.Writer contract.",
        technique="TLA+ error-propagation model (TLC exhaustive) + model-generated histories x enumerated I/O faults on the code + TLC trace monitor",
        design_ref="DESIGN.md section 5 C14",
    ),
    "C15": dict(
        level="model_checking",
        text="AsyncPages.tla transcribes the caller and the readPages goroutine of the asynchronous page reader, one "
             "action per channel operation; TLC checks for all interleavings that results are the synchronous reader's, "
             "pages are delivered or released exactly once, nothing deadlocks, and (under strong fairness on the select "
             "alternatives) ReadPage and Close return; LazyPublish.tla and RowGroups.tla do the same for the CAS-published "
             "indexes and for concurrently filled row groups. Behaviours generated by TLC are replayed on the real "
             "asyncPages over a harness-served underlying Pages, steered along the behaviour's visible events, and every "
             "recorded trace is validated against the model with the channel steps left for TLC to place (AsyncTrace.tla). "
             "Documented usage patterns (shared File readers, independent writers/readers/buffers, one goroutine per "
             "ColumnWriter, concurrent row groups, async read mode, shared codecs) run serially and concurrently in a "
             "race-detector build; ConcMon.tla requires equal results, one published pointer, no panic, hang or race.",
        note="Interleavings inside the library other than the async protocol are whatever the Go scheduler produces "
             "(several GOMAXPROCS, gated readers for the publication race); race freedom is observed, not proved.",
        technique="TLA+ protocol models (TLC exhaustive, safety + liveness) + TLC-generated behaviours replayed on the code + TLC trace validation with unlogged steps + TLC verdict monitor over race-detector runs",
        design_ref="DESIGN.md section 5 C15",
    ),
    "C16": dict(
        level="model_checking",
        text="Ownership.tla models pooled page buffers, release versus detach when a reader leaves a page (also in "
             "the middle of one ReadRows call), clones, typed copies and churn; TLC checks for every short history that "
             "nothing the caller may still look at lives in pooled memory, and that the same model without detach fails. "
             "TLC-simulated histories run, with pooled memory poisoned on release (hook), on row readers, Reader, value "
             "readers, merged and converted row groups, GenericReader (fresh and reused batches) and Read[T], on files with and without a mid-chunk dictionary overflow; every value is deep-copied on receipt "
             "and re-compared after every later operation, Close and churn; SnapMon.tla applies the validity windows.",
        note="Single goroutine (concurrent churn is C15's); one row type; the poison hook makes dangling references "
             "deterministic but only for memory that goes through the slice pools.",
        technique="TLA+ ownership model (TLC exhaustive) + TLC-simulated histories replayed on the code with a poison hook + TLC trace monitor",
        design_ref="DESIGN.md section 5 C16",
    ),
    "C17": dict(
        level="model_checking",
        text="Reset.tla models which slice-typed footer fields alias the live column writers once a row group is "
             "committed and what Writer.Reset / format.RowGroup.Reset do to them; TLC checks that right after Reset the "
             "writer equals a fresh one. Pairs (prior history with sink failures or abandonment, history H) cut from TLC "
             "simulations of Writer.tla are executed on a reused writer, a fresh writer, a writer whose recycled pool "
             "memory is overwritten, another goroutine and in the purego build (a few scenarios at scale); DetMon.tla "
             "requires all sha256 digests of a scenario to agree.",
        note="One row type; SortingWriter and GenericBuffer.Reset not driven; map fields hold <=1 entry; no encryption.",
        technique="TLA+ aliasing model (TLC exhaustive) + TLC-generated histories replayed on two builds + TLC trace monitor",
        design_ref="DESIGN.md section 5 C17",
    ),
    "C18": dict(
        level="model_checking",
        text="Encryption.tla models the AAD scheme (file, module type, row group, column, page ordinal) together with "
             "the page reader's ordinal counting along sequential reads and seeks; TLC checks that ordinals agree with "
             "positions, untampered files always decrypt and a delivered page is always the genuine page of its "
             "position, for every short history and single tampering. EncScen.tla spans the option x tamper x path "
             "(sequential, seek, read-then-seek-forward) x file-identifier (explicit or drawn by the library) space; the harness writes encrypted files, reads them back, scans raw bytes for plaintext markers and "
             "tampers with copies (flip, swap, transplant from another file / column / row group, wrong or missing "
             "key, truncation); CryptoMon.tla judges every read.",
        note="AES-GCM trusted; tampering targets data page body modules (other module types only through round trips); "
             "static keys.",
        technique="TLA+ AAD/ordinal model (TLC exhaustive) + TLC-enumerated option x tamper space replayed on the code + TLC trace monitor",
        design_ref="DESIGN.md section 5 C18",
    ),
    "C19": dict(
        level="model_checking",
        text="Variant.tla states the variant binary encoding (metadata dictionary, primitives, short strings, objects "
             "with sorted unique keys, arrays, large layouts) as a decoder over bytes, value equality, and the "
             "value/typed_value reconstruction rule for primitive shreddings. TLC enumerates value kinds and shredding "
             "schema x write mode; the harness builds the trees (and its own description of them), calls Encode, Marshal "
             "and the Builder, writes files with unshredded and shredded variant columns from Go values and from raw "
             "variant bytes and reads them back raw (convert to unshredded), typed, and as physical leaves; VarMon.tla "
             "makes TLC decode every byte string and compare it with the tree written.",
        note="Object and list shreddings are judged through the read modes only; reading through a different shredded "
             "schema is not judged; rows whose kind the Go mapping cannot express are compared in raw mode only.",
        technique="executable TLA+ specification of the variant encoding and shredding rule evaluated by TLC over TLC-enumerated value kinds x shredding schemas run on the code",
        design_ref="DESIGN.md section 5 C19",
    ),
    "C20": dict(
        level="model_checking",
        text="CodecPool.tla models the pooled Decompressor protocol (instance taken from / returned to the pool, "
             "initialisation and read errors) and the lz4 decode loop; TLC checks for every short history that valid "
             "input decodes to its payload and nothing panics or exhausts memory. TLC-simulated histories run on the "
             "shared codec values of all six codecs with every destination-buffer class, invalid inputs and concurrent "
             "round trips; CodecMon.tla judges the trace (a call that never returns is a fatal).",
        note="Compressed bitstreams are opaque; payload classes are five shapes with seeded sizes; the harness runs under "
             "a 3 GB address-space limit so that unbounded allocation is observed as a death, not as a hang.",
        technique="TLA+ protocol model (TLC exhaustive) + TLC-simulated call histories replayed on the code + TLC trace monitor",
        design_ref="DESIGN.md section 5 C20",
    ),
}

NOT_YET = "check not built yet in this round (planned; see DESIGN.md section 9.3)"
