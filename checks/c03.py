"""C03 — all ingestion paths shred a Go value into the same Dremel streams.

X  Dremel.tla self-check (Assemble o Shred = id, level bounds, row starts) over the curated schema
   universe; NullRuns.tla (the typed path's null/non-null run scanner, W=4) for every bitmap
G  (a) every (schema, value-structure) of the universe  (b) random values for the static Go type
   catalogue (schemas exported by the harness, values drawn by TLC)  (c) every NullRuns bitmap as a
   batch pattern, at scale 1 and scale 16 (so that 64-row words are crossed like the model's 4-bit words)
B  vh c03: values built from the trees are written through every entry point; stored streams read back
V  ShredMon.tla: streams = Dremel!ShredRows, all paths identical, Reconstruct(Deconstruct(v)) = v
"""
import json
import os
import random
import time

from lib import vf

PROP = "C03"
PATTERN_TYPES = ["OptI32", "OptStr", "Mixed", "Fixed", "Wide", "OptGroup", "ListOpt", "Embedded", "OptInOpt", "Nested"]


def _exec(vh, wd, scenarios, seed, name):
    return vf.execute(vh, "c03", wd, scenarios, seed, name)


def _mon(wd, tp):
    return vf.monitor(wd, "ShredMon.tla", "ShredMon.cfg", tp, heap="8g")


def run(tier, seed):
    t0 = time.time()
    quick = tier != "thorough"
    vh = vf.build_vh()
    wd = vf.scratch()
    rnd = random.Random(seed)

    # X
    xs = []
    xs.append(vf.require_clean(vf.tlc(wd, "MC_NullRuns.tla", "MC_NullRuns_quick.cfg" if quick else "MC_NullRuns_thorough.cfg",
                                      workers=vf.NCPU, extra=["-noGenerateSpecTE"]), "X NullRuns"))
    a = vf.tlc(wd, "MC_NullRuns.tla", "MC_NullRuns_asfound.cfg", workers=1, extra=["-noGenerateSpecTE"])
    if not a.violation:
        raise vf.Infra("as-found NullRuns model no longer shows the counterexample")
    xs.append(vf.require_clean(vf.tlc(wd, "MC_Dremel.tla", "MC_Dremel_single.cfg" if quick else "MC_Dremel_quick.cfg",
                                      workers=vf.NCPU, extra=["-noGenerateSpecTE"], timeout=1200), "X Dremel"))
    if not quick:
        xs.append(vf.require_clean(vf.tlc(wd, "MC_Dremel.tla", "MC_Dremel_fork2.cfg", workers=vf.NCPU,
                                          extra=["-noGenerateSpecTE"], timeout=1200), "X Dremel fork2"))

    # G
    scenarios = []

    def add(s, src):
        s = dict(s)
        s["id"] = len(scenarios) + 1
        s["src"] = src
        scenarios.append(s)

    g = vf.tlc(wd, "MC_Dremel.tla", "MC_Dremel_emit_single.cfg" if quick else "MC_Dremel_emit.cfg", workers=1,
               extra=["-noGenerateSpecTE"], timeout=1200)
    dyn = g.prints("SCENARIO")
    if len(dyn) < 400:
        raise vf.Infra("dynamic scenario emission failed:\n" + g.out[-1500:])
    for s in dyn:
        add({"schema": s["schema"], "value": s["value"]}, "universe")
    n_dyn = len(scenarios)

    cat = vf.run_vh(vh, ["c03-catalogue"]).stdout
    with open(os.path.join(wd, "catalogue.ndjson"), "w") as f:
        f.write(cat)
    ntypes = len(cat.strip().splitlines())
    per = 12 if quick else 150
    with open(os.path.join(wd, "DremelGen.cfg"), "w") as f:
        f.write(f"CONSTANTS MaxList = 3  MaxRows = 4  PerType = {per}\nINIT Init\nNEXT Next\nCHECK_DEADLOCK FALSE\n")
    gen = vf.tlc(wd, "DremelGen.tla", "DremelGen.cfg", workers=1, simulate=1, depth=ntypes * per + 10, seed=seed,
                 extra=["-noGenerateSpecTE"], timeout=1200)
    cats = gen.prints("SCENARIO")
    if len(cats) < ntypes * per:
        raise vf.Infra("catalogue generation failed:\n" + gen.out[-1500:])
    for s in cats:
        add({"type": s["type"], "rows": s["rows"]}, "catalogue")
    n_cat = len(scenarios) - n_dyn

    pe = vf.tlc(wd, "MC_NullRuns.tla", "MC_NullRuns_emit.cfg", workers=1, extra=["-noGenerateSpecTE"])
    pats = [s["pattern"] for s in pe.prints("SCENARIO")]
    if len(pats) < 1000:
        raise vf.Infra("pattern emission failed")
    if quick:
        short = [p for p in pats if len(p) <= 5]
        pats = short + rnd.sample([p for p in pats if len(p) > 5], 60)
    for p in pats:
        for ty in (PATTERN_TYPES if not quick else [PATTERN_TYPES[(len(p) + sum(p)) % len(PATTERN_TYPES)], "OptI32", "OptInOpt"]):
            add({"type": ty, "pattern": p, "scale": 1}, "nullruns")
            if not quick or ty in ("OptI32", "OptInOpt") or rnd.random() < 0.5:
                add({"type": ty, "pattern": p, "scale": 16}, "nullruns")
    n_pat = len(scenarios) - n_dyn - n_cat
    vf.log(f"[C03] X: {[ (x.distinct) for x in xs]} states; scenarios: {n_dyn} universe + {n_cat} catalogue + {n_pat} patterns")

    tp = _exec(vh, wd, scenarios, seed, "all")
    inits = vf.inits(tp)
    verdict, vr = _mon(wd, tp)
    cnt = verdict["cnt"]
    vf.log(f"[C03] V: {cnt}")
    if cnt["stored"] < 5 * cnt["traces"] and cnt["flagged"] == 0:
        raise vf.Infra(f"dead driver: {cnt}")

    out = vf.Verdict(PROP)
    by_id = {s["id"]: s for s in scenarios}
    flagged = {}
    for t, i, cls in verdict["bad"]:
        path = [e for e in vf.events_of(tp, t) if e["i"] == i][0].get("path", "Reconstruct")
        flagged.setdefault((inits[t]["sc"], cls, path), (t, i))
    per_cls = {}
    confirm = []
    for (sc, cls, path), (t, i) in sorted(flagged.items()):
        if per_cls.setdefault((cls, path), 0) >= 4:
            continue
        per_cls[(cls, path)] += 1
        s = {k: v for k, v in by_id[sc].items() if k not in ("id", "src")}
        s.update(id=len(confirm) + 1, seed=seed ^ 0, orig=sc)
        # same concretisation as in the batch run: the builder's rng is derived from (seed, id)
        s["seed"] = _rng_seed(seed, sc, len(confirm) + 1)
        confirm.append((s, cls, path))
    if confirm:
        tp2 = _exec(vh, wd, [c[0] for c in confirm], seed, "confirm")
        in2 = vf.inits(tp2)
        v2, _ = _mon(wd, tp2)
        again = {}
        for t, i, cls in v2["bad"]:
            again.setdefault(in2[t]["sc"], []).append((cls, i, t))
        for s, cls, path in confirm:
            hits = [h for h in again.get(s["id"], []) if h[0] == cls and
                    [e for e in vf.events_of(tp2, h[2]) if e["i"] == h[1]][0].get("path", "Reconstruct") == path] or \
                   [h for h in again.get(s["id"], []) if h[0] == cls]
            if not hits:
                raise vf.Infra(f"flagged scenario did not reproduce when run alone: {json.dumps(s)[:500]} {cls} {path}")
            c2, i2, t2 = hits[0]
            e = [e for e in vf.events_of(tp2, t2) if e["i"] == i2][0]
            desc = {k: s[k] for k in ("type", "schema", "value", "rows", "pattern", "scale") if k in s}
            what = f"path={e.get('path', 'Reconstruct')} {json.dumps(desc)[:300]} got={json.dumps(e.get('streams', e.get('rows')))[:200]} {e.get('msg', '')[:200]}"
            out.flag(c2, what, {"property": PROP, "scenario": s, "seed": seed, "class": c2}, f"{c2.replace('@', '_')}-{s['orig']}-{s['id']}")
    rc = out.report()
    vf.write_evidence(PROP, tier, seed, "model_checking", {
        "states": sum(x.distinct for x in xs) + vr.distinct,
        "transitions": sum(x.generated for x in xs) + vr.generated,
        "traces_validated_against_impl": cnt["traces"],
        "samples": [{k: v for k, v in scenarios[i].items()} for i in (0, n_dyn, len(scenarios) - 1)],
        "models": {"NullRuns.tla": xs[0].distinct, "Dremel.tla self-check (schema,value) pairs": sum(x.distinct for x in xs[1:])},
        "scenarios": {"universe": n_dyn, "catalogue": n_cat, "nullrun_patterns": n_pat},
        "monitor": {"module": "ShredMon.tla", "events": verdict["consumed"], "stored_streams_judged": cnt["stored"],
                    "reconstructs_judged": cnt["recon"], "flagged": cnt["flagged"]},
        "catalogue_types": ntypes,
        "exhaustive": not quick,
        "known_findings": sorted(out.kf_hits),
    }, [
        "dynamic universe: ancestor chains of length <=3 over {required, optional, repeated} and two-leaf forks, list length <=2; "
        "Go types built with reflect.StructOf (optional = pointer, repeated = slice)",
        "typed generic paths are exercised through a static catalogue of 17 Go struct types",
        "leaf tokens are numbered by the harness in traversal order, so a misplaced value is visible",
        "an empty Go slice/map under an optional LIST/MAP group may be stored as null or as empty (ShredMon.NormStreams)",
    ], time.time() - t0, len(out.violations))
    return rc


def _rng_seed(seed, orig_id, new_id):
    # harness: rng = newRng(s ^ id*2654435761) ; choose s so that the stream equals the batch run's
    return (seed ^ ((orig_id * 2654435761) & 0xFFFFFFFFFFFFFFFF) ^ ((new_id * 2654435761) & 0xFFFFFFFFFFFFFFFF)) & 0xFFFFFFFFFFFFFFFF


def replay(path, seed):
    rp = json.load(open(path))
    vh = vf.build_vh()
    wd = vf.scratch()
    tp = _exec(vh, wd, [rp["scenario"]], rp.get("seed", seed), "replay")
    print(open(tp).read()[:5000])
    v, _ = _mon(wd, tp)
    if v["bad"]:
        print(f"VIOLATION property={PROP} replay={path} class={v['bad'][0][2]}")
        return 1
    print("replay: trace accepted")
    return 0
