"""C02 — every written file is well-formed Parquet that an independent decoder agrees on.

M  FileLayout.tla is the independent reader: from the raw bytes alone it parses the footer and every page
   header (Thrift.tla, compact protocol), decompresses (Snappy.tla; other codecs via bodies decompressed
   by the codec packages directly), checks CRC-32, decodes levels and values (Encodings.tla) and re-derives
   every offset, size, count, encoding list, page index entry, bloom filter frame and row-group total;
   the regions it finds must tile the file from the magic to the footer
G  TLC simulation of Writer.tla: call histories x option vectors (page version, codec, encoding family,
   dictionary limit, buffers, statistics, bloom filters, sorting metadata, row-group limit); each history runs
   directly, and through WriteRowGroup into a second writer with equal (copy) or different (re-encode) options
B  vh c02: rows are handed to the writer as parquet.Row values whose levels the harness computed itself
   (no shredding by the library); it logs the file bytes and the (value, r, d) streams it wrote
V  LayoutMon.tla: FileLayout finds no inconsistency and decodes exactly the streams written
"""
import concurrent.futures
import json
import os
import shutil
import subprocess
import time

from lib import vf
from checks import c01

PROP = "C02"
JVM = ["-Xss1g"]
MODS = ("Encodings.tla", "Thrift.tla", "Snappy.tla", "Order.tla", "FileLayout.tla", "LayoutMon.tla", "LayoutMon.cfg")


def execute(vh, wd, scenarios, seed, name):
    sp = os.path.join(wd, name + ".scenarios.ndjson")
    vf.write_ndjson(sp, scenarios)
    p = subprocess.run([vh, "c02", "--seed", str(seed), "--scenarios", sp], capture_output=True, text=True, timeout=1800)
    if p.returncode != 0:
        raise vf.Infra(f"vh c02 failed rc={p.returncode}: {p.stderr[-2000:]}")
    return [json.loads(ln) for ln in p.stdout.split("\n") if ln.endswith("}")]


def judge(wd, events, tag):
    """One TLC run per trace (file), 16 at a time."""
    traces = {}
    for e in events:
        traces.setdefault(e["t"], []).append(e)
    order = sorted(traces, key=lambda t: -sum(e.get("size", 0) for e in traces[t]))

    def one(t):
        d = os.path.join(wd, f"{tag}-{t}")
        os.makedirs(d, exist_ok=True)
        for f in MODS:
            shutil.copy(os.path.join(vf.SPECS, f), d)
        vf.write_ndjson(os.path.join(d, "trace.ndjson"), traces[t])
        r = vf.tlc(d, "LayoutMon.tla", "LayoutMon.cfg", workers=1, timeout=3000, heap="3g", jvm=JVM, extra=["-noGenerateSpecTE"])
        vs = r.prints("VERDICT")
        if r.rc != 0 or len(vs) != 1 or vs[0]["consumed"] != len(traces[t]):
            raise vf.Infra(f"LayoutMon trace {t}: no verdict (rc={r.rc}):\n" + r.counterexample()[:2500] + r.out[-1000:])
        shutil.rmtree(d, ignore_errors=True)
        return vs[0], r
    with concurrent.futures.ThreadPoolExecutor(max_workers=vf.NCPU) as ex:
        res = list(ex.map(one, order))
    cnt, bad, states = {}, [], 0
    for v, r in res:
        for k, x in v["cnt"].items():
            cnt[k] = cnt.get(k, 0) + x
        bad += v["bad"]
        states += r.distinct
    return cnt, bad, states


def run(tier, seed):
    t0 = time.time()
    quick = tier != "thorough"
    vh = vf.build_vh()
    wd = vf.scratch()
    vf.require_clean(vf.tlc(wd, "EncodingsTest.tla", "EncodingsTest.cfg", workers=1, jvm=JVM, extra=["-noGenerateSpecTE"]),
                     "Encodings.tla self-checks")
    base = c01.generate(wd, quick, seed, 30 if quick else 400)
    # every history gets one write path in turn; histories with dictionary encoding are also run through the
    # verbatim copy path (copied chunks with a dictionary page have their own offset arithmetic)
    scenarios = []
    for i, s in enumerate(base):
        s["path"] = ["direct", "copy", "reencode"][i % 3]
        scenarios.append(s)
        if s["cfg"]["enc"] == "dict" and s["path"] != "copy":
            scenarios.append(dict(s, path="copy"))
    for i, s in enumerate(scenarios):
        s["id"] = i + 1
    events = execute(vh, wd, scenarios, seed, "all")
    cnt, bad, states = judge(wd, events, "f")
    vf.log(f"[C02] {len(scenarios)} histories, V: {cnt}")
    inits = {e["t"]: e for e in events if e["ev"] == "Init"}
    by_id = {s["id"]: s for s in scenarios}
    out = vf.Verdict(PROP)
    seen, picked = set(), []
    for t, i, cls in bad:
        sc = inits[t]["sc"]
        if (sc, cls) in seen:
            continue
        seen.add((sc, cls))
        if sum(1 for p in picked if p[2] == cls) < 3:
            picked.append((sc, t, cls))
    unrep = 0
    for sc, t, cls in picked:
        s = dict(by_id[sc], path=inits[t]["path"], var=int(inits[t]["var"]))
        s["orig"] = sc
        ev2 = execute(vh, wd, [dict(s, id=1)], seed, "confirm")
        c2, bad2, _ = judge(wd, ev2, f"c{sc}")
        if not [b for b in bad2 if b[2] == cls]:
            unrep += 1
            vf.log(f"[C02] flagged but not reproduced alone ({cls}): {json.dumps(s)[:300]}")
            continue
        out.flag(cls, f"path={s['path']} cfg={json.dumps(s['cfg'])} ops={json.dumps(s['ops'])[:200]}",
                 {"property": PROP, "scenario": dict(s, id=1), "seed": seed, "class": cls}, f"{cls.replace(':', '_').replace('.', '_')}-{sc}")
    if picked and unrep == len(picked):
        raise vf.Infra("none of the flagged files reproduced when written alone")
    if cnt.get("files", 0) < len(scenarios) // 2 and cnt.get("flagged", 0) == 0:
        raise vf.Infra(f"dead driver: {cnt}")
    rc = out.report()
    paths = {}
    for e in inits.values():
        paths[e["path"]] = paths.get(e["path"], 0) + 1
    vf.write_evidence(PROP, tier, seed, "model_checking", {
        "states": states, "transitions": states,
        "traces_validated_against_impl": cnt.get("files", 0),
        "samples": [scenarios[0]],
        "monitor": {"module": "LayoutMon.tla", "files_read_by_spec": cnt.get("files", 0), "bytes": cnt.get("bytes", 0),
                    "column_streams_compared": cnt.get("columns", 0), "values": cnt.get("values", 0),
                    "write_errors": cnt.get("writeErrors", 0), "flagged": cnt.get("flagged", 0)},
        "write_paths": paths,
        "exhaustive": False, "known_findings": sorted(out.kf_hits),
    }, [
        "the specification decodes UNCOMPRESSED and SNAPPY itself; for GZIP, ZSTD, LZ4_RAW and BROTLI the page bodies are decompressed by the codec packages called directly",
        "one schema with all physical types, optional and repeated columns and an optional group with a repeated leaf; row counts are scaled down (<= ~200 rows) so that TLC can read the file",
        "min/max statistics, boundary order and bloom filter contents are C05/C06/C07's; here their framing, lengths and counts are checked",
        "encrypted files are C18's",
    ], time.time() - t0, len(out.violations))
    return rc


def replay(path, seed):
    rp = json.load(open(path))
    vh = vf.build_vh()
    wd = vf.scratch()
    ev = execute(vh, wd, [rp["scenario"]], rp.get("seed", seed), "replay")
    cnt, bad, _ = judge(wd, ev, "r")
    if bad:
        print(f"VIOLATION property={PROP} replay={path} class={bad[0][2]}")
        return 1
    print("replay: file accepted", cnt)
    return 0
