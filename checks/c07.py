"""C07 — bloom filters never answer absent for a written value.

X  Bloom.tla: the column writer's filter bookkeeping (incremental insert, dictionary fallback to PLAIN,
   the three strategies of flushFilterPages, pre-sizing by WriteRowGroup, reset between row groups)
   for every history of <=4/<=6 pages and flushes over 3 tokens
G  TLC simulation of the same model: configurations x page/flush histories
B  vh c07: each history for 9 physical types x entry path (WriteRows, ColumnWriters, WriteRowGroup from a
   buffer / file copy / file re-encode) x filter options (bits per value, deferred, gzip-compressed,
   prefetch) x codec x page version, chosen by the seed; every value read back from a chunk is checked
   against that chunk's filter
V  BloomMon.tla: every check true, filter present, no error; and the probe of a reader written from the format
   document (Sbbf.tla: block index and salted masks; XXHash.tla: XXH64 over the PLAIN bytes, byte-wise 64-bit
   arithmetic) finds every written value in the bits that lie in the file
"""
import time

from lib import vf

PROP = "C07"
PIPE = vf.Pipeline(PROP, "c07", ("BloomMon.tla", "BloomMon.cfg"),
                   pin=lambda s, init: dict(s, type=init["type"], var=init["var"]), per_class=6)


def run(tier, seed):
    t0 = time.time()
    quick = tier != "thorough"
    vh = vf.build_vh()
    wd = vf.scratch()
    x = vf.model_check(wd, "MC_Bloom.tla", "MC_Bloom_quick.cfg" if quick else "MC_Bloom_thorough.cfg", "X Bloom")
    vf.must_violate(wd, "MC_Bloom.tla", "MC_Bloom_asfound.cfg", "Bloom")
    vf.require_clean(vf.tlc(wd, "SbbfTest.tla", "SbbfTest.cfg", workers=1, extra=["-noGenerateSpecTE"]),
                     "Sbbf.tla / XXHash.tla self-checks (published XXH64 digests, block and mask arithmetic)")
    sim = vf.emit_scenarios(wd, "MC_Bloom.tla", "MC_Bloom_sim.cfg", minimum=50, simulate=150 if quick else 2500,
                            depth=8, seed=seed)
    seen, scenarios = set(), []
    for s in sim:
        k = repr(s)
        if k in seen:
            continue
        seen.add(k)
        scenarios.append({"id": len(scenarios) + 1, "cfg": s["cfg"], "ops": [o for o in s["ops"] if o["op"] != "end"]})
    vf.log(f"[C07] X: {x.distinct} states / {x.generated} transitions; scenarios {len(scenarios)}")
    out, verdict, vr, tp = PIPE.run(vh, wd, scenarios, seed)
    cnt = verdict["cnt"]
    if cnt["checks"] < cnt["traces"] and cnt["flagged"] == 0:
        raise vf.Infra(f"dead driver: {cnt}")
    rc = out.report()
    ini = vf.inits(tp)
    vf.write_evidence(PROP, tier, seed, "model_checking", {
        "states": x.distinct + vr.distinct, "transitions": x.generated + vr.generated,
        "traces_validated_against_impl": cnt["traces"],
        "samples": [scenarios[0], scenarios[-1], ini[1]],
        "model": {"module": "Bloom.tla", "distinct_states": x.distinct},
        "monitor": {"module": "BloomMon.tla", "events": verdict["consumed"], "checks_judged": cnt["checks"], "format_level_probes": cnt["probes"],
                    "filters_seen": cnt["filters"], "flagged": cnt["flagged"]},
        "types": sorted({e["type"] for e in ini.values()}), "paths": sorted({e["path"] for e in ini.values()}),
        "exhaustive": False, "known_findings": sorted(out.kf_hits),
    }, [
        "hashing is abstract in the model (the filter is a set of tokens); the real hashing per physical type is exercised by the harness",
        "values checked are the values read back from each chunk (C01 relates them to what was written)",
        "encrypted files are out of scope here (C18)",
    ], time.time() - t0, len(out.violations))
    return rc


def replay(path, seed):
    return PIPE.replay(path, seed)
