"""C08 — seek then read equals skipping sequentially.

X  PageReader.tla (implementation-shaped FilePages model) exhaustively: Conforms + refinement facts
G  edge cover of the model's state graph (every transition, incl. every early return of SeekToRow)
   + seeded TLC simulation over the larger layout family
B  vh c08: each scenario on ColumnChunk.Pages, value readers, RowGroup.Rows, Reader, GenericReader,
   sync and async, v1/v2 pages, compressed or not, with/without offset index
V  SeekMon.tla judges every recorded trace
"""
import json
import random
import os
import re
import time

from lib import vf

PROP = "C08"


def _cfg_of(label):
    m = re.search(r"cfg = \[pageRows \|-> <<([^>]*)>>, hasIndex \|-> (TRUE|FALSE)\]", label)
    return {"pageRows": [int(x) for x in m.group(1).split(",")], "hasIndex": m.group(2) == "TRUE"}


def _op_of(label):
    if label == "ReadPage":
        return {"op": "read"}
    m = re.match(r"Seek\((\d+)\)", label)
    return {"op": "seek", "k": int(m.group(1))}


def _monitor(wd, tp):
    return vf.monitor(wd, "SeekMon.tla", "SeekMon.cfg", tp)


def _execute(vh, wd, scenarios, seed, name):
    return vf.execute(vh, "c08", wd, scenarios, seed, name)


_inits = vf.inits


def run(tier, seed):
    t0 = time.time()
    quick = tier != "thorough"
    vh = vf.build_vh()
    wd = vf.scratch()

    # X: the repaired design satisfies the requirement and its refinement facts
    xcfg = "MC_PageReader_quick.cfg" if quick else "MC_PageReader_thorough.cfg"
    x = vf.require_clean(vf.tlc(wd, "MC_PageReader.tla", xcfg, workers=vf.NCPU, dump="graph",
                                extra=["-noGenerateSpecTE"]), "X PageReader")
    # sharpness of the model: the code as found at the pinned snapshot must be rejected
    a = vf.tlc(wd, "MC_PageReader.tla", "MC_PageReader_asfound.cfg", workers=1, extra=["-noGenerateSpecTE"])
    if not a.violation:
        raise vf.Infra("as-found model no longer shows the serveLastPage counterexample")

    # G: edge cover + simulation
    nodes, init, edges = vf.parse_dot(os.path.join(wd, "graph.dot"))
    tests, ncov = vf.edge_cover(nodes, init, edges, extend=6 if quick else 10)
    scenarios, seen = [], set()

    def add(cfg, ops, src):
        key = json.dumps([cfg, ops], sort_keys=True)
        if key in seen or not ops:
            return
        seen.add(key)
        scenarios.append({"id": len(scenarios) + 1, "cfg": cfg, "ops": ops, "src": src})

    for root, labels in tests:
        add(_cfg_of(nodes[root]), [_op_of(l) for l in labels], "edge-cover")
    n_cover = len(scenarios)
    sim = vf.tlc(wd, "MC_PageReader.tla", "MC_PageReader_sim.cfg", workers=1,
                 simulate=300 if quick else 6000, depth=12, seed=seed, extra=["-noGenerateSpecTE"])
    for s in sim.prints("SCENARIO")[:400 if quick else 20000]:
        add(s["cfg"], s["ops"], "simulate")
    if len(scenarios) - n_cover < 10:
        raise vf.Infra("simulation produced no scenarios:\n" + sim.out[-1500:])
    # a directed family: going back to the first row through Reset (readers that have it) in the middle of a history
    rnd = random.Random(seed)
    for s in list(scenarios):
        if s["id"] % 4 == 0 and len(s["ops"]) >= 3:
            ops = list(s["ops"])
            at = rnd.randrange(1, len(ops))
            add(s["cfg"], ops[:at] + [{"op": "reset", "k": 0}] + ops[at:], "reset")
            # ... and a seek to the row a reader that forgot to rewind its own row counter would believe it is at
            total = sum(s["cfg"]["pageRows"])
            a, n1, n2 = rnd.randint(0, 2), rnd.randint(1, 2), rnd.randint(1, 2)
            if a + n1 + n2 < total:
                add(s["cfg"], [{"op": "seek", "k": a}, {"op": "read", "k": n1}, {"op": "reset", "k": 0}, {"op": "read", "k": n2},
                               {"op": "seek", "k": a + n1 + n2}, {"op": "read", "k": 0}] + ops, "reset")
    vf.log(f"[C08] X: {x.distinct} states / {x.generated} transitions; edges {len(edges)} covered {ncov}; "
           f"scenarios {n_cover} cover + {len(scenarios)-n_cover} simulated")

    # execute on the real readers, V: judge
    tp = _execute(vh, wd, scenarios, seed, "all")
    inits = _inits(tp)
    verdict, vr = _monitor(wd, tp)
    cnt = verdict["cnt"]
    vf.log(f"[C08] V: {cnt}")
    if cnt["reads"] < 5 * max(1, cnt["vacuous"]) and cnt["flagged"] == 0:
        raise vf.Infra(f"dead driver: {cnt}")

    # triage: re-execute each flagged scenario alone (determinism), then classify
    out = vf.Verdict(PROP)
    by_id = {s["id"]: s for s in scenarios}
    flagged = {}
    for t, i, cls in verdict["bad"]:
        e = inits[t]
        flagged.setdefault((e["sc"], e["layer"], e["variant"]), (cls, i))
    confirm = []
    for n, ((sc, layer, variant), (cls, i)) in enumerate(sorted(flagged.items())[:40]):
        s = dict(by_id[sc])
        s.update(id=n + 1, layer=layer, variant=variant, orig=sc)
        confirm.append((s, cls, i))
    if confirm:
        tp2 = _execute(vh, wd, [c[0] for c in confirm], seed, "confirm")
        inits2 = _inits(tp2)
        v2, _ = _monitor(wd, tp2)
        again = {inits2[t]["sc"]: cls for t, i, cls in v2["bad"]}
        for s, cls, i in confirm:
            if s["id"] not in again:
                raise vf.Infra(f"flagged scenario did not reproduce when run alone: {s}")
            out.flag(again[s["id"]], f"layer={s['layer']} cfg={s['cfg']} ops={_short(s['ops'])}",
                     {"property": PROP, "scenario": s, "seed": seed, "class": again[s["id"]]},
                     f"{s['layer'].replace(':','_')}-{s['orig']}")
    rc = out.report()

    samples = [{"scenario": {k: s[k] for k in ("cfg", "ops", "src")}} for s in scenarios[:2] + scenarios[-1:]]
    vf.write_evidence(PROP, tier, seed, "model_checking", {
        "states": x.distinct + vr.distinct,
        "transitions": x.generated + vr.generated,
        "traces_validated_against_impl": cnt["traces"],
        "samples": samples,
        "model": {"module": "PageReader.tla", "config": xcfg, "distinct_states": x.distinct,
                  "transitions": x.generated, "graph_edges": len(edges), "edges_covered_by_scenarios": ncov},
        "scenarios": {"edge_cover": n_cover, "simulated": len(scenarios) - n_cover},
        "monitor": {"module": "SeekMon.tla", "events": verdict["consumed"], "reads_judged": cnt["reads"],
                    "reads_vacuous": cnt["vacuous"], "seek_errors": cnt["seekerr"], "flagged": cnt["flagged"]},
        "reader_kinds": sorted({e["layer"] for e in inits.values()}),
        "exhaustive": not quick,
        "known_findings": sorted(out.kf_hits),
    }, [
        "files are concretised with three columns (required int64, optional dict string, list<int64>), "
        "page layouts of <=4 pages x <=3 rows, 1-2 row groups, v1/v2 pages, snappy or none",
        "the harness projects values to integer tokens; a value that is not what was written for its row becomes an alien token",
        "a SeekToRow that returns an error makes later reads vacuous until the next successful seek",
    ], time.time() - t0, len(out.violations))
    return rc


def _short(ops):
    return " ".join("R" if o["op"] == "read" else "Z" if o["op"] == "reset" else f"S{o['k']}" for o in ops)


def replay(path, seed):
    with open(path) as f:
        rp = json.load(f)
    vh = vf.build_vh()
    wd = vf.scratch()
    s = rp["scenario"]
    tp = _execute(vh, wd, [s], rp.get("seed", seed), "replay")
    print(open(tp).read())
    v, _ = _monitor(wd, tp)
    if v["bad"]:
        print(f"VIOLATION property={PROP} replay={path} class={v['bad'][0][2]}")
        return 1
    print("replay: trace accepted")
    return 0
