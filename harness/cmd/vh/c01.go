package main

import (
	"encoding/binary"
	"bytes"
	"fmt"
	"io"
	"math"
	"os"
	"reflect"
	"strconv"
	"strings"

	"github.com/parquet-go/parquet-go"
	"github.com/parquet-go/parquet-go/compress"
)

// C01: write then read returns exactly the rows written.
// Shared file-writing machinery (options vector, row generator) is reused by
// other checks (C02, C05, C07, C14, C17).

func init() { commands["c01"] = c01Main }

type wOp struct {
	Op string `json:"op"`
	N  int    `json:"n,omitempty"`
	C  int    `json:"c,omitempty"`
}

type wCfg struct {
	MaxRows int    `json:"maxRows"`
	Ver     int    `json:"ver"`
	Codec   string `json:"codec"`
	Enc     string `json:"enc"`
	Dict    string `json:"dict"`
	PageBuf string `json:"pagebuf"`
	WBuf    string `json:"wbuf"`
	Stats   string `json:"stats"`
	Bloom   string `json:"bloom,omitempty"` // "" | "on" | "deferred"
	Sort    string `json:"sort,omitempty"`  // "" | "declared": sorting columns recorded in the file
	Pool    string `json:"pool,omitempty"`  // "" | "chunk64" | "file": where the column pages are staged
}

type c01Scenario struct {
	ID   int    `json:"id"`
	Orig int    `json:"orig,omitempty"`
	Cfg  wCfg   `json:"cfg"`
	Ops  []wOp  `json:"ops"`
	API  string `json:"api,omitempty"`
	// Scale k > 1: every write of n rows becomes n*k rows, the row-group limit k times larger, and the ids come
	// from the bulk id space (wBulk), whose rows hold high-cardinality values: large dictionaries, many pages
	Scale int `json:"scale,omitempty"`
	// Poison: memory going back to the library's pools is overwritten with 0xA5 (hook), so anything that
	// still refers to it sees other bytes
	Poison bool `json:"poison,omitempty"`
}

// ------------------------------------------------------------------ row type

type wInner struct {
	A int64    `parquet:"a"`
	B []string `parquet:"b"`
}

type wRow struct {
	ID    int64            `parquet:"id"`
	B     bool             `parquet:"b"`
	I32   int32            `parquet:"i32"`
	U32   uint32           `parquet:"u32"`
	I64   int64            `parquet:"i64,delta"`
	U64   uint64           `parquet:"u64"`
	F32   float32          `parquet:"f32"`
	F64   float64          `parquet:"f64"`
	S     string           `parquet:"s"`
	SD    string           `parquet:"sd,dict"`
	Bytes []byte           `parquet:"bytes"`
	U     [16]byte         `parquet:"u,uuid"`
	F5    [5]byte          `parquet:"f5,dict"`
	F8    [8]byte          `parquet:"f8,dict"`
	G8    [8]byte          `parquet:"g8,dict"` // draws from the same values as f8, in another order
	OptI  *int64           `parquet:"opti"`
	OptS  *string          `parquet:"opts,dict"`
	OptF  float64          `parquet:"optf,optional"`
	L     []int64          `parquet:"l,list"`
	LS    []string         `parquet:"ls"`
	M     map[string]int64 `parquet:"m"`
	N     wInner           `parquet:"n"`
	NP    *wInner          `parquet:"np"`
}

var (
	wI64s = []int64{math.MinInt64, -1, 0, 1, math.MaxInt64, 42, -4242, 1 << 40}
	wI32s = []int32{math.MinInt32, -1, 0, 1, math.MaxInt32, 7, -77}
	wU32s = []uint32{0, 1, math.MaxUint32, 1 << 31, 12345}
	wU64s = []uint64{0, 1, math.MaxUint64, 1 << 63, 99}
	wF64s = []uint64{ // bit patterns
		0x0000000000000000, 0x8000000000000000, // +0 -0
		0x7FF0000000000000, 0xFFF0000000000000, // +-inf
		0x7FF8000000000001, 0xFFF8000000000123, 0x7FF0000000000001, // NaN payloads
		0x0000000000000001, 0x7FEFFFFFFFFFFFFF, 0x3FF0000000000000, 0xC00921FB54442D18,
	}
	wF32s = []uint32{0, 0x80000000, 0x7F800000, 0xFF800000, 0x7FC00001, 0xFFC00123, 1, 0x7F7FFFFF, 0x3F800000}
	wStrs = []string{"", "a", "a\x00", "\x00", "\xff\xff\xff", "hello", "héllo wörld", strings.Repeat("x", 300), "ab", "abc", "abd"}
)

func pick[T any](r *rng, s []T) T { return s[r.intn(len(s))] }

// wBulk: ids from here on stand for rows with high-cardinality values
const wBulk = 100000

func wMix(x uint64) uint64 {
	x ^= x >> 33
	x *= 0xff51afd7ed558ccd
	x ^= x >> 33
	x *= 0xc4ceb9fe1a85ec53
	return x ^ x>>33
}
func wKey8(k uint64) (b [8]byte) {
	binary.BigEndian.PutUint64(b[:], wMix(k))
	return b
}

// wRowOf: the row written for id under a seed; a pure function so that the
// reader side can regenerate the expected value.
func wRowOf(id int, seed uint64) wRow {
	r := newRng(seed*1000003 + uint64(id)*7919)
	row := wRow{ID: int64(id)}
	row.B = r.intn(2) == 1
	row.I32 = pick(r, wI32s)
	row.U32 = pick(r, wU32s)
	row.I64 = pick(r, wI64s)
	row.U64 = pick(r, wU64s)
	row.F32 = math.Float32frombits(pick(r, wF32s))
	row.F64 = math.Float64frombits(pick(r, wF64s))
	row.S = pick(r, wStrs)
	row.SD = pick(r, wStrs[:6])
	if r.intn(3) > 0 {
		row.Bytes = []byte(pick(r, wStrs))
	}
	if r.intn(2) == 0 {
		for i := range row.U {
			row.U[i] = byte(r.next())
		}
	} else { // few distinct values: repeated across pages and row groups (dictionary-friendly)
		row.U = [16]byte{byte(r.intn(3)), 1, 2, 3, 4, 5, 6, 7, 8, 9, 10, 11, 12, 13, 14, 0xFF}
	}
	row.F5 = [5]byte{byte('A' + r.intn(4)), 'x', 0, 0xFF, byte(r.intn(2))}
	row.F8 = [8]byte{byte(r.intn(3)), 8}
	row.G8 = [8]byte{byte(r.intn(3)), 8}
	if id >= wBulk {
		// (almost) every row its own value; f8 and g8 share one population of keys
		h := wMix(uint64(id) + seed<<20)
		row.I64 = int64(h)
		row.U64 = h >> 7
		row.S = "s-" + strconv.FormatUint(h, 36)
		row.SD = "d-" + strconv.FormatUint(h%5000, 36)
		k := wKey8(h % 7000)
		copy(row.F5[:], k[:5])
		row.F8 = wKey8(uint64(id-wBulk) % 6000)
		row.G8 = wKey8(uint64(id-wBulk+2500) % 6000)
		if id-wBulk >= 5000 && id%211 == 0 {
			// the byte pattern recycled pool memory is overwritten with, as a value
			row.F8 = [8]byte{0xA5, 0xA5, 0xA5, 0xA5, 0xA5, 0xA5, 0xA5, 0xA5}
			row.F5 = [5]byte{0xA5, 0xA5, 0xA5, 0xA5, 0xA5}
		}
		copy(row.U[:], k[:])
	}
	if r.intn(3) > 0 {
		x := pick(r, wI64s)
		row.OptI = &x
	}
	if r.intn(3) > 0 {
		x := pick(r, wStrs[:5])
		row.OptS = &x
	}
	if r.intn(2) == 1 {
		row.OptF = math.Float64frombits(pick(r, wF64s[2:]))
	}
	for j, n := 0, r.intn(4); j < n; j++ {
		row.L = append(row.L, pick(r, wI64s))
	}
	for j, n := 0, r.intn(3); j < n; j++ {
		row.LS = append(row.LS, pick(r, wStrs))
	}
	if r.intn(2) == 1 {
		row.M = map[string]int64{pick(r, wStrs[:6]): pick(r, wI64s)}
	}
	row.N.A = pick(r, wI64s)
	for j, n := 0, r.intn(3); j < n; j++ {
		row.N.B = append(row.N.B, pick(r, wStrs))
	}
	if r.intn(3) > 0 {
		in := wInner{A: pick(r, wI64s)}
		if r.intn(2) == 1 {
			in.B = []string{pick(r, wStrs)}
		}
		row.NP = &in
	}
	return row
}

// wSame compares two rows under the documented Go mapping: floats by bits,
// nil == empty for slices and maps, zero optional non-pointer == null.
// It returns 0 when equal, otherwise the (1-based) index of the first differing field.
func wSame(a, b wRow) int {
	f64 := func(x, y float64) bool { return math.Float64bits(x) == math.Float64bits(y) }
	strs := func(x, y []string) bool {
		if len(x) != len(y) {
			return false
		}
		for i := range x {
			if x[i] != y[i] {
				return false
			}
		}
		return true
	}
	inner := func(x, y wInner) bool { return x.A == y.A && strs(x.B, y.B) }
	checks := []bool{
		a.ID == b.ID, a.B == b.B, a.I32 == b.I32, a.U32 == b.U32, a.I64 == b.I64, a.U64 == b.U64,
		math.Float32bits(a.F32) == math.Float32bits(b.F32), f64(a.F64, b.F64),
		a.S == b.S, a.SD == b.SD, bytes.Equal(a.Bytes, b.Bytes), a.U == b.U && a.F5 == b.F5 && a.F8 == b.F8 && a.G8 == b.G8,
		(a.OptI == nil) == (b.OptI == nil) && (a.OptI == nil || *a.OptI == *b.OptI),
		(a.OptS == nil) == (b.OptS == nil) && (a.OptS == nil || *a.OptS == *b.OptS),
		f64(a.OptF, b.OptF),
		reflect.DeepEqual(append([]int64{}, a.L...), append([]int64{}, b.L...)),
		strs(a.LS, b.LS),
		len(a.M) == len(b.M) && func() bool {
			for k, v := range a.M {
				if w, ok := b.M[k]; !ok || w != v {
					return false
				}
			}
			return true
		}(),
		inner(a.N, b.N),
		(a.NP == nil) == (b.NP == nil) && (a.NP == nil || inner(*a.NP, *b.NP)),
	}
	for i, ok := range checks {
		if !ok {
			return i + 1
		}
	}
	return 0
}

// wToken: the id of a read-back row if it equals what was written for that id.
func wToken(got wRow, seed uint64) int {
	if got.ID < 0 || got.ID > 1<<30 {
		return alien
	}
	if d := wSame(wRowOf(int(got.ID), seed), got); d != 0 {
		return -100 - d
	}
	return int(got.ID)
}

// ------------------------------------------------------------------- options

func wCodec(name string) compress.Codec {
	switch name {
	case "snappy":
		return &parquet.Snappy
	case "gzip":
		return &parquet.Gzip
	case "zstd":
		return &parquet.Zstd
	case "lz4":
		return &parquet.Lz4Raw
	case "brotli":
		return &parquet.Brotli
	}
	return &parquet.Uncompressed
}

func wOptions(c wCfg, r *rng) []parquet.WriterOption {
	opts := []parquet.WriterOption{}
	if c.MaxRows > 0 {
		opts = append(opts, parquet.MaxRowsPerRowGroup(int64(c.MaxRows)))
	}
	if c.Ver != 0 {
		opts = append(opts, parquet.DataPageVersion(c.Ver))
	}
	if c.Codec != "" && c.Codec != "none" {
		opts = append(opts, parquet.Compression(wCodec(c.Codec)))
	}
	switch c.Enc {
	case "plain":
		opts = append(opts, parquet.DefaultEncoding(&parquet.Plain))
	case "delta":
		opts = append(opts, parquet.DefaultEncodingFor(parquet.Int32, &parquet.DeltaBinaryPacked),
			parquet.DefaultEncodingFor(parquet.Int64, &parquet.DeltaBinaryPacked))
		if r.intn(2) == 0 {
			opts = append(opts, parquet.DefaultEncodingFor(parquet.ByteArray, &parquet.DeltaLengthByteArray))
		} else {
			opts = append(opts, parquet.DefaultEncodingFor(parquet.ByteArray, &parquet.DeltaByteArray))
		}
	case "split":
		opts = append(opts, parquet.DefaultEncodingFor(parquet.Float, &parquet.ByteStreamSplit),
			parquet.DefaultEncodingFor(parquet.Double, &parquet.ByteStreamSplit),
			parquet.DefaultEncodingFor(parquet.Int32, &parquet.ByteStreamSplit),
			parquet.DefaultEncodingFor(parquet.Int64, &parquet.ByteStreamSplit))
	case "dict":
		opts = append(opts, parquet.DefaultEncoding(&parquet.RLEDictionary))
	}
	switch c.Dict {
	case "tiny":
		opts = append(opts, parquet.DictionaryMaxBytes(32))
	case "off":
		opts = append(opts, parquet.DictionaryMaxBytes(1<<40))
	}
	switch c.PageBuf {
	case "tiny":
		opts = append(opts, parquet.PageBufferSize(64))
	}
	switch c.WBuf {
	case "zero":
		opts = append(opts, parquet.WriteBufferSize(0))
	case "small":
		opts = append(opts, parquet.WriteBufferSize(61))
	}
	switch c.Bloom {
	case "on", "deferred":
		opts = append(opts, parquet.BloomFilters(parquet.SplitBlockFilter(10, "id"), parquet.SplitBlockFilter(10, "sd"), parquet.SplitBlockFilter(10, "f5")))
		if c.Bloom == "deferred" {
			opts = append(opts, parquet.DeferBloomFiltersWithBuffers(parquet.NewBufferPool()))
		}
	}
	switch c.Pool {
	case "chunk64":
		opts = append(opts, parquet.ColumnPageBuffers(parquet.NewChunkBufferPool(64)))
	case "file":
		opts = append(opts, parquet.ColumnPageBuffers(parquet.NewFileBufferPool(scratchDir(), "vh-pages-*")))
	}
	if c.Sort == "declared" {
		// ids are written in increasing order, so the declaration is truthful
		opts = append(opts, parquet.SortingWriterConfig(parquet.SortingColumns(parquet.Ascending("id"), parquet.Descending("i64"))), parquet.KeyValueMetadata("origin", "vh"))
	}
	switch c.Stats {
	case "off":
		opts = append(opts, parquet.DataPageStatistics(false))
	case "nobounds":
		opts = append(opts, parquet.SkipPageBounds("s"), parquet.SkipPageBounds("f64"), parquet.SkipPageBounds("l", "list", "element"))
	}
	return opts
}

// wWriter abstracts the three row-oriented entry points.
type wWriter interface {
	write(rows []wRow) (int, error)
	flush() error
	close() error
	columnWriters() []*parquet.ColumnWriter
	reset(out io.Writer)
	setKV(k, v string)
	writeRowGroup(rg parquet.RowGroup) (int64, error)
}

type wGeneric struct{ w *parquet.GenericWriter[wRow] }

func (g wGeneric) write(rows []wRow) (int, error)         { return g.w.Write(rows) }
func (g wGeneric) flush() error                           { return g.w.Flush() }
func (g wGeneric) close() error                           { return g.w.Close() }
func (g wGeneric) columnWriters() []*parquet.ColumnWriter { return g.w.ColumnWriters() }
func (g wGeneric) reset(out io.Writer)                    { g.w.Reset(out) }
func (g wGeneric) setKV(k, v string)                      { g.w.SetKeyValueMetadata(k, v) }
func (g wGeneric) writeRowGroup(rg parquet.RowGroup) (int64, error) {
	return g.w.WriteRowGroup(rg)
}

type wAny struct {
	w    *parquet.Writer
	rows bool
}

func (a wAny) write(rows []wRow) (int, error) {
	if a.rows {
		prs := make([]parquet.Row, len(rows))
		for i := range rows {
			prs[i] = a.w.Schema().Deconstruct(nil, &rows[i])
		}
		return a.w.WriteRows(prs)
	}
	for i := range rows {
		if err := a.w.Write(&rows[i]); err != nil {
			return i, err
		}
	}
	return len(rows), nil
}
func (a wAny) flush() error                           { return a.w.Flush() }
func (a wAny) close() error                           { return a.w.Close() }
func (a wAny) columnWriters() []*parquet.ColumnWriter { return a.w.ColumnWriters() }
func (a wAny) reset(out io.Writer)                    { a.w.Reset(out) }
func (a wAny) setKV(k, v string)                      { a.w.SetKeyValueMetadata(k, v) }
func (a wAny) writeRowGroup(rg parquet.RowGroup) (int64, error) {
	return a.w.WriteRowGroup(rg)
}

func wNew(api string, out io.Writer, opts []parquet.WriterOption) wWriter {
	switch api {
	case "any":
		return wAny{w: parquet.NewWriter(out, append(opts, parquet.SchemaOf(wRow{}))...)}
	case "rows":
		return wAny{w: parquet.NewWriter(out, append(opts, parquet.SchemaOf(wRow{}))...), rows: true}
	}
	return wGeneric{w: parquet.NewGenericWriter[wRow](out, opts...)}
}

var wAPIs = []string{"generic", "any", "rows"}

// wRun executes the operation history on w, emitting one event per call.
func wRun(tr *tracer, w wWriter, ops []wOp, seed uint64, nextID *int) {
	for _, op := range ops {
		switch op.Op {
		case "write":
			rows := make([]wRow, op.N)
			for i := range rows {
				rows[i] = wRowOf(*nextID+i, seed)
			}
			var n int
			var err error
			pan, msg := guard(func() { n, err = w.write(rows) })
			*nextID += op.N // ids are consumed even if the write failed: a rejected row is never expected back
			e := ev{"n": op.N, "w": n, "err": b2i(err != nil || pan), "first": *nextID - op.N}
			if err != nil {
				e["msg"] = err.Error()
			} else if pan {
				e["msg"] = "panic: " + msg
			}
			tr.emit("Write", e)
		case "colflush":
			var err error
			pan, msg := guard(func() {
				for i, cw := range w.columnWriters() {
					if (op.C == 1 && i == 0) || (op.C != 1 && i%2 == 1) {
						if e := cw.Flush(); e != nil {
							err = e
						}
					}
				}
			})
			e := ev{"c": op.C, "err": b2i(err != nil || pan)}
			if pan {
				e["msg"] = "panic: " + msg
			} else if err != nil {
				e["msg"] = err.Error()
			}
			tr.emit("ColFlush", e)
		case "flush":
			var err error
			pan, msg := guard(func() { err = w.flush() })
			e := ev{"err": b2i(err != nil || pan)}
			if pan {
				e["msg"] = "panic: " + msg
			} else if err != nil {
				e["msg"] = err.Error()
			}
			tr.emit("Flush", e)
		case "close":
			var err error
			pan, msg := guard(func() { err = w.close() })
			e := ev{"err": b2i(err != nil || pan)}
			if pan {
				e["msg"] = "panic: " + msg
			} else if err != nil {
				e["msg"] = err.Error()
			}
			tr.emit("Close", e)
		}
	}
}

var wSchema = parquet.SchemaOf(wRow{})

// wReadBack reads a finished file in several ways and reports row tokens.
func wReadBack(data []byte, seed uint64) ev {
	out := ev{"open": 1, "rgs": [][]int{}, "pages": [][][]int{}, "typed": []int{}, "batched": []int{}, "msg": ""}
	f, err := parquet.OpenFile(bytes.NewReader(data), int64(len(data)))
	if err != nil {
		out["open"] = 0
		out["msg"] = err.Error()
		return out
	}
	rgs := [][]int{}
	pages := [][][]int{}
	for _, rg := range f.RowGroups() {
		toks := []int{}
		rows := rg.Rows()
		buf := make([]parquet.Row, 7)
		for {
			n, err := rows.ReadRows(buf)
			for _, r := range buf[:n] {
				var got wRow
				if e := wSchema.Reconstruct(&got, r); e != nil {
					toks = append(toks, alien)
				} else {
					toks = append(toks, wToken(got, seed))
				}
			}
			if err != nil {
				if err != io.EOF {
					out["msg"] = "rows: " + err.Error()
					toks = append(toks, -7)
				}
				break
			}
			if n == 0 {
				break
			}
		}
		rows.Close()
		rgs = append(rgs, toks)
		// rows per page for every column, from the offset index
		pg := [][]int{}
		for _, cc := range rg.ColumnChunks() {
			per := []int{}
			if oi, err := cc.OffsetIndex(); err == nil && oi != nil {
				for i := 0; i < oi.NumPages(); i++ {
					end := rg.NumRows()
					if i+1 < oi.NumPages() {
						end = oi.FirstRowIndex(i + 1)
					}
					per = append(per, int(end-oi.FirstRowIndex(i)))
				}
			}
			pg = append(pg, per)
		}
		pages = append(pages, pg)
	}
	out["rgs"] = rgs
	out["pages"] = pages
	typed, err := parquet.Read[wRow](bytes.NewReader(data), int64(len(data)))
	tt := []int{}
	for _, r := range typed {
		tt = append(tt, wToken(r, seed))
	}
	if err != nil {
		tt = append(tt, -7)
		out["msg"] = "Read: " + err.Error()
	}
	out["typed"] = tt
	gr := parquet.NewGenericReader[wRow](bytes.NewReader(data))
	bt := []int{}
	buf := make([]wRow, 3)
	for {
		n, err := gr.Read(buf)
		for _, r := range buf[:n] {
			bt = append(bt, wToken(r, seed))
		}
		if err != nil {
			if err != io.EOF {
				bt = append(bt, -7)
				out["msg"] = "GenericReader: " + err.Error()
			}
			break
		}
		if n == 0 {
			break
		}
		buf = make([]wRow, 3) // fresh destination: values handed out must not be reused
	}
	gr.Close()
	out["batched"] = bt
	return out
}

func c01Main(args []string) error {
	seed, _ := strconv.ParseUint(argValue(args, "--seed", "1"), 10, 64)
	keep := argValue(args, "--keep-files", "")
	scs, err := readScenarios[c01Scenario](argValue(args, "--scenarios", "-"))
	if err != nil {
		return err
	}
	tr := newTracer(os.Stdout)
	defer tr.flush()
	for si := range scs {
		sc := &scs[si]
		rid := sc.ID
		if sc.Orig != 0 {
			rid = sc.Orig
		}
		r := newRng(seed ^ uint64(rid)*0x9E3779B1)
		api := sc.API
		if api == "" {
			api = wAPIs[r.intn(len(wAPIs))]
		}
		buf := new(bytes.Buffer)
		var w wWriter
		var opts []parquet.WriterOption
		next := 0
		ops := sc.Ops
		if sc.Scale > 1 {
			sc.Cfg.MaxRows *= sc.Scale
			ops = append([]wOp{}, ops...)
			for i := range ops {
				ops[i].N *= sc.Scale
			}
			next = wBulk
		}
		parquet.VerifSetPoison(sc.Poison)
		if pan, msg := guard(func() { opts = wOptions(sc.Cfg, r); w = wNew(api, buf, opts) }); pan {
			return fmt.Errorf("scenario %d: cannot construct writer: %s", sc.ID, msg)
		}
		tr.begin(ev{"sc": sc.ID, "cfg": sc.Cfg, "api": api, "scale": sc.Scale, "poison": b2i(sc.Poison)})
		if len(ops) == 0 || ops[len(ops)-1].Op != "close" {
			ops = append(append([]wOp{}, ops...), wOp{Op: "close"})
		}
		wRun(tr, w, ops, seed, &next)
		var final ev
		if pan, msg := guard(func() { final = wReadBack(buf.Bytes(), seed) }); pan {
			final = ev{"open": 0, "rgs": [][]int{}, "pages": [][][]int{}, "typed": []int{}, "batched": []int{}, "msg": "panic: " + msg}
		}
		tr.emit("Final", final)
		if keep != "" {
			os.WriteFile(fmt.Sprintf("%s/c01-%d.parquet", keep, sc.ID), buf.Bytes(), 0o644)
		}
	}
	return nil
}
