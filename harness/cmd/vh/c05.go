package main

import (
	"bytes"
	"fmt"
	"io"
	"math"
	"os"
	"strconv"
	"strings"

	"github.com/parquet-go/parquet-go"
	"github.com/parquet-go/parquet-go/encoding/thrift"
	"github.com/parquet-go/parquet-go/format"
)

// C05: statistics and page indexes bound the data they describe.
// A scenario is a page layout over symbols {-1 null, 0 "special", 1..3}; the
// harness concretises the symbols per column kind (the special symbol is NaN
// for floats, an extreme value otherwise), lets the real writer produce the
// file and records every piece of metadata next to the real page contents as
// PLAIN bytes. Order.tla interprets the bytes; StatsMon.tla judges.

func init() { commands["c05"] = c05Main }

type c05Scenario struct {
	ID    int     `json:"id"`
	Orig  int     `json:"orig,omitempty"`
	Pages [][]int `json:"pages"`
	Kind  string  `json:"kind,omitempty"`
	Var   *int    `json:"var,omitempty"`
	// Stretch > 0: every page is inflated to up to Stretch values drawn around the symbols it
	// holds (the kernels that compute bounds work on blocks of 8 to 64 values)
	Stretch int `json:"stretch,omitempty"`
	// Skip: "bounds" (SkipPageBounds), "stats" (SkipPageStatistics) or "both" for the column
	Skip string `json:"skip,omitempty"`
}

type c05Row[T any] struct {
	V *T `parquet:"v"`
}
type c05Fixed5Row struct {
	V *[5]byte `parquet:"v"`
}
type c05ListRow struct {
	V []float64 `parquet:"v,list"`
}
type c05OptListRow struct {
	V []*int64 `parquet:"v,list"`
}

var c05Kinds = []string{"int32", "int64", "uint32", "uint64", "float", "double", "string2", "string16", "string", "doublelist", "optlist", "doubledict", "floatdict", "int64dict", "stringdict", "uuid", "fixed5", "boolean"}

// concretisation tables: index 0 = the special symbol, 1..3 = increasing values; several
// variants per kind, selected by the seed
var (
	c05I32 = [][4]int32{{math.MinInt32, -1, 0, math.MaxInt32}, {-7, -1, 1, 2}, {math.MaxInt32, math.MinInt32, -1, 0}}
	c05I64 = [][4]int64{{math.MinInt64, -1, 0, math.MaxInt64}, {5, -3, 1 << 40, 1 << 41}, {math.MaxInt64, math.MinInt64, -1, 1}}
	c05U32 = [][4]uint32{{math.MaxUint32, 0, 0x7FFFFFFF, 0x80000000}, {0x80000001, 1, 2, 0x80000000}, {0, 1, 0xFFFFFFFE, 0xFFFFFFFF}}
	c05U64 = [][4]uint64{{math.MaxUint64, 0, 0x7FFFFFFFFFFFFFFF, 0x8000000000000000}, {1 << 63, 1, 2, 3}, {0, 1, 1<<64 - 2, 1<<64 - 1}}
	c05F64 = [][4]uint64{ // bit patterns; [0] is a NaN
		{0x7FF8000000000001, 0xFFF0000000000000, 0x8000000000000000, 0x7FF0000000000000}, // -inf, -0, +inf
		{0xFFF8000000000000, 0xBFF8000000000000, 0x0000000000000000, 0x3FF0000000000000}, // -1.5, +0, 1
		{0x7FF0000000000001, 0x8000000000000000, 0x0000000000000000, 0x0000000000000001}, // -0, +0, denormal
	}
	c05F32 = [][4]uint32{
		{0x7FC00001, 0xFF800000, 0x80000000, 0x7F800000},
		{0xFFC00000, 0xBFC00000, 0x00000000, 0x3F800000},
		{0x7F800001, 0x80000000, 0x00000000, 0x00000001},
	}
	c05Str = [][4]string{
		{"", "a", "ab\xff\xffz", "b"},
		{"\xff\xff\x05", "\xff\xff", "\xff\xff\x01", "\xff\xff\x02\x03"},
		{"ab", "aa\x00", "abc", "abd"},
		{strings.Repeat("q", 40), "qq", strings.Repeat("q", 17) + "a", strings.Repeat("q", 17) + "b"},
	}
)

func c05Write(kind string, variant int, pages [][]int, skip string) (data []byte, err error) {
	buf := new(bytes.Buffer)
	opts := []parquet.WriterOption{parquet.PageBufferSize(1 << 20)}
	path := []string{"v"}
	if kind == "doublelist" || kind == "optlist" {
		path = []string{"v", "list", "element"}
	}
	if skip == "bounds" || skip == "both" {
		opts = append(opts, parquet.SkipPageBounds(path...))
	}
	if skip == "stats" || skip == "both" {
		opts = append(opts, parquet.SkipPageStatistics(path...))
	}
	switch kind {
	case "string2":
		opts = append(opts, parquet.ColumnIndexSizeLimit(func([]string) int { return 2 }))
	case "string16":
		opts = append(opts, parquet.ColumnIndexSizeLimit(func([]string) int { return 16 }))
	}
	if variant%2 == 1 {
		opts = append(opts, parquet.DataPageVersion(1))
	}
	if strings.HasSuffix(kind, "dict") { // dictionary-encoded pages compute their bounds through the dictionary
		opts = append(opts, parquet.DefaultEncoding(&parquet.RLEDictionary))
		kind = strings.TrimSuffix(kind, "dict")
	}
	write := func(w interface {
		ColumnWriters() []*parquet.ColumnWriter
		Close() error
	}, writePage func(p []int) error) error {
		for _, p := range pages {
			if err := writePage(p); err != nil {
				return err
			}
			for _, cw := range w.ColumnWriters() {
				if err := cw.Flush(); err != nil {
					return err
				}
			}
		}
		return w.Close()
	}
	v := variant / 2
	switch kind {
	case "int32":
		w := parquet.NewGenericWriter[c05Row[int32]](buf, opts...)
		err = write(w, func(p []int) error {
			rows := make([]c05Row[int32], len(p))
			for i, s := range p {
				if s >= 0 {
					x := c05I32[v%len(c05I32)][s&3] ^ int32(s>>2)
					rows[i].V = &x
				}
			}
			_, e := w.Write(rows)
			return e
		})
	case "int64":
		w := parquet.NewGenericWriter[c05Row[int64]](buf, opts...)
		err = write(w, func(p []int) error {
			rows := make([]c05Row[int64], len(p))
			for i, s := range p {
				if s >= 0 {
					x := c05I64[v%len(c05I64)][s&3] ^ int64(s>>2)
					rows[i].V = &x
				}
			}
			_, e := w.Write(rows)
			return e
		})
	case "uint32":
		w := parquet.NewGenericWriter[c05Row[uint32]](buf, opts...)
		err = write(w, func(p []int) error {
			rows := make([]c05Row[uint32], len(p))
			for i, s := range p {
				if s >= 0 {
					x := c05U32[v%len(c05U32)][s&3] ^ uint32(s>>2)
					rows[i].V = &x
				}
			}
			_, e := w.Write(rows)
			return e
		})
	case "uint64":
		w := parquet.NewGenericWriter[c05Row[uint64]](buf, opts...)
		err = write(w, func(p []int) error {
			rows := make([]c05Row[uint64], len(p))
			for i, s := range p {
				if s >= 0 {
					x := c05U64[v%len(c05U64)][s&3] ^ uint64(s>>2)
					rows[i].V = &x
				}
			}
			_, e := w.Write(rows)
			return e
		})
	case "float":
		w := parquet.NewGenericWriter[c05Row[float32]](buf, opts...)
		err = write(w, func(p []int) error {
			rows := make([]c05Row[float32], len(p))
			for i, s := range p {
				if s >= 0 {
					x := math.Float32frombits(c05JitF32(c05F32[v%len(c05F32)][s&3], s>>2))
					rows[i].V = &x
				}
			}
			_, e := w.Write(rows)
			return e
		})
	case "double":
		w := parquet.NewGenericWriter[c05Row[float64]](buf, opts...)
		err = write(w, func(p []int) error {
			rows := make([]c05Row[float64], len(p))
			for i, s := range p {
				if s >= 0 {
					x := math.Float64frombits(c05JitF64(c05F64[v%len(c05F64)][s&3], s>>2))
					rows[i].V = &x
				}
			}
			_, e := w.Write(rows)
			return e
		})
	case "doublelist":
		// one row per page holding all the page's symbols as list elements (nulls skipped)
		w := parquet.NewGenericWriter[c05ListRow](buf, opts...)
		err = write(w, func(p []int) error {
			row := c05ListRow{}
			for _, s := range p {
				if s >= 0 {
					row.V = append(row.V, math.Float64frombits(c05JitF64(c05F64[v%len(c05F64)][s&3], s>>2)))
				}
			}
			_, e := w.Write([]c05ListRow{row})
			return e
		})
	case "uuid": // 16-byte big-endian values: the be128 indexer
		tab := [][4][16]byte{
			{{0xFF, 0xFF, 0xFF, 0xFF, 0xFF, 0xFF, 0xFF, 0xFF, 0xFF, 0xFF, 0xFF, 0xFF, 0xFF, 0xFF, 0xFF, 0xFF}, {}, {0x7F}, {0x80}},
			{{1, 2, 3}, {1, 2, 2, 0xFF}, {0, 0, 0, 0, 0, 0, 0, 0, 0, 0, 0, 0, 0, 0, 0, 1}, {0, 0, 0, 0, 0, 0, 0, 0, 1}},
		}
		schema := parquet.NewSchema("c05", parquet.Group{"v": parquet.Optional(parquet.UUID())})
		w := parquet.NewWriter(buf, append([]parquet.WriterOption{schema}, opts...)...)
		err = write(w, func(p []int) error {
			rows := make([]parquet.Row, len(p))
			for i, s := range p {
				if s >= 0 {
					x := tab[v%len(tab)][s&3]
					if j := s >> 2; j > 0 { // same high word, low words in no particular order
						x[15] ^= byte(j)
						x[9] ^= byte(j >> 2)
					}
					rows[i] = parquet.Row{parquet.FixedLenByteArrayValue(x[:]).Level(0, 1, 0)}
				} else {
					rows[i] = parquet.Row{parquet.NullValue().Level(0, 0, 0)}
				}
			}
			_, e := w.WriteRows(rows)
			return e
		})
	case "fixed5":
		tab := [][4][5]byte{{{0xFF, 0xFF, 0xFF, 0xFF, 0xFF}, {}, {0x7F}, {0x80}}, {{1, 2, 3}, {1, 2, 2, 0xFF}, {0, 0, 0, 0, 1}, {0, 0, 1}}}
		w := parquet.NewGenericWriter[c05Fixed5Row](buf, opts...)
		err = write(w, func(p []int) error {
			rows := make([]c05Fixed5Row, len(p))
			for i, s := range p {
				if s >= 0 {
					x := tab[v%len(tab)][s&3]
					x[4] ^= byte(s >> 2)
					rows[i].V = &x
				}
			}
			_, e := w.Write(rows)
			return e
		})
	case "boolean":
		w := parquet.NewGenericWriter[c05Row[bool]](buf, opts...)
		err = write(w, func(p []int) error {
			rows := make([]c05Row[bool], len(p))
			for i, s := range p {
				if s >= 0 {
					x := (s&3+v)%2 == 1
					rows[i].V = &x
				}
			}
			_, e := w.Write(rows)
			return e
		})
	case "optlist":
		// one row per page: a list of nullable int64 elements (nulls kept as null elements)
		w := parquet.NewGenericWriter[c05OptListRow](buf, opts...)
		err = write(w, func(p []int) error {
			row := c05OptListRow{}
			for _, s := range p {
				if s >= 0 {
					x := c05I64[v%len(c05I64)][s&3] ^ int64(s>>2)
					row.V = append(row.V, &x)
				} else {
					row.V = append(row.V, nil)
				}
			}
			_, e := w.Write([]c05OptListRow{row})
			return e
		})
	default: // string kinds
		w := parquet.NewGenericWriter[c05Row[string]](buf, opts...)
		err = write(w, func(p []int) error {
			rows := make([]c05Row[string], len(p))
			for i, s := range p {
				if s >= 0 {
					x := c05Str[v%len(c05Str)][s&3]
					if j := s >> 2; j > 0 {
						x += string([]byte{byte(j)})
					}
					rows[i].V = &x
				}
			}
			_, e := w.Write(rows)
			return e
		})
	}
	return buf.Bytes(), err
}

// jitter of a floating point bit pattern: the low mantissa bits, unless that would turn an infinity into a NaN
func c05JitF64(b uint64, j int) uint64 {
	if b&0x7FF0000000000000 == 0x7FF0000000000000 {
		return b
	}
	return b ^ uint64(j)
}
func c05JitF32(b uint32, j int) uint32 {
	if b&0x7F800000 == 0x7F800000 {
		return b
	}
	return b ^ uint32(j)
}

// c05Inflate keeps what the layout says about each page (which symbols it holds, whether it is all
// null) and adds up to n values around those symbols (symbol s with jitter j is s + 4j; the special
// symbol is never jittered).
func c05Inflate(pages [][]int, n int, r *rng) [][]int {
	out := make([][]int, len(pages))
	for pi, p := range pages {
		q := append([]int{}, p...)
		if len(p) > 0 {
			for k := r.intn(n + 1); k > 0; k-- {
				s := p[r.intn(len(p))]
				if s > 0 {
					s += 4 * r.intn(64)
				}
				at := r.intn(len(q) + 1)
				q = append(q, 0)
				copy(q[at+1:], q[at:])
				q[at] = s
			}
		}
		out[pi] = q
	}
	return out
}

func c05OrderKind(kind string) string {
	switch kind {
	case "string2", "string16", "string":
		return "bytes"
	case "doublelist":
		return "double"
	case "optlist":
		return "int64"
	case "doubledict":
		return "double"
	case "floatdict":
		return "float"
	case "int64dict":
		return "int64"
	case "stringdict", "uuid", "fixed5":
		return "bytes"
	}
	return kind
}

func bytesToInts(b []byte) []int {
	out := make([]int, len(b))
	for i, x := range b {
		out[i] = int(x)
	}
	return out
}

var absent = []int{-2} // a bound that is not recorded
var nullVal = []int{-1}

func c05Val(v parquet.Value) []int {
	if v.IsNull() {
		return nullVal
	}
	return bytesToInts(v.Bytes())
}

func optBytes(b []byte) []int {
	if b == nil {
		return absent
	}
	return bytesToInts(b)
}

func c05Main(args []string) error {
	seed, _ := strconv.ParseUint(argValue(args, "--seed", "1"), 10, 64)
	kindsArg := argValue(args, "--kinds", strings.Join(c05Kinds, ","))
	scs, err := readScenarios[c05Scenario](argValue(args, "--scenarios", "-"))
	if err != nil {
		return err
	}
	tr := newTracer(os.Stdout)
	defer tr.flush()
	for si := range scs {
		sc := &scs[si]
		kinds := strings.Split(kindsArg, ",")
		if sc.Kind != "" {
			kinds = []string{sc.Kind}
		}
		rid := sc.ID
		if sc.Orig != 0 {
			rid = sc.Orig
		}
		for _, kind := range kinds {
			r := newRng(seed ^ uint64(rid)*0x9E3779B1 ^ hashString(kind))
			variant := r.intn(8)
			if sc.Var != nil {
				variant = *sc.Var
			}
			pages := sc.Pages
			if sc.Stretch > 0 {
				pages = c05Inflate(pages, sc.Stretch, r)
			}
			if kind == "doublelist" {
				// a list row needs at least one symbol; all-null pages become empty lists
			}
			data, err := c05Write(kind, variant, pages, sc.Skip)
			if err != nil {
				return fmt.Errorf("scenario %d kind %s: %w", sc.ID, kind, err)
			}
			f, err := parquet.OpenFile(bytes.NewReader(data), int64(len(data)))
			if err != nil {
				return fmt.Errorf("scenario %d kind %s: open: %w", sc.ID, kind, err)
			}
			tr.begin(ev{"sc": sc.ID, "kind": kind, "order": c05OrderKind(kind), "var": variant, "symbols": sc.Pages})
			if len(f.RowGroups()) == 0 {
				continue
			}
			rg := f.RowGroups()[0]
			chunk := rg.ColumnChunks()[0]
			oi, _ := chunk.OffsetIndex()
			// real page contents + page header statistics
			pr := chunk.Pages()
			np := 0
			for {
				p, err := pr.ReadPage()
				if err != nil {
					if err != io.EOF {
						tr.emit("ReadError", ev{"msg": err.Error()})
					}
					break
				}
				vals := [][]int{}
				vr := p.Values()
				vb := make([]parquet.Value, 16)
				for {
					m, err := vr.ReadValues(vb)
					for _, v := range vb[:m] {
						vals = append(vals, c05Val(v))
					}
					if err != nil || m == 0 {
						break
					}
				}
				e := ev{"p": np, "vals": vals, "hmin": absent, "hmax": absent, "hnulls": -1, "hvalues": -1}
				if oi != nil && np < oi.NumPages() {
					var hdr format.PageHeader
					off := oi.Offset(np)
					proto := thrift.CompactProtocol{}
					if err := thrift.NewDecoder(proto.NewReaderFromBytes(data[off:])).Decode(&hdr); err == nil {
						var st *format.Statistics
						switch {
						case hdr.DataPageHeaderV2.Valid:
							st = &hdr.DataPageHeaderV2.V.Statistics
							e["hvalues"] = int(hdr.DataPageHeaderV2.V.NumValues)
							e["hnulls"] = int(hdr.DataPageHeaderV2.V.NumNulls)
						case hdr.DataPageHeader.Valid:
							st = &hdr.DataPageHeader.V.Statistics
							e["hvalues"] = int(hdr.DataPageHeader.V.NumValues)
							e["hnulls"] = int(st.NullCount)
						}
						if st != nil {
							e["hmin"] = optBytes(st.MinValue)
							e["hmax"] = optBytes(st.MaxValue)
						}
					}
				}
				tr.emit("Page", e)
				parquet.Release(p)
				np++
			}
			pr.Close()
			// column index
			if ci, err := chunk.ColumnIndex(); err == nil && ci != nil {
				n := ci.NumPages()
				mins, maxs, nullPage, nullCounts := [][]int{}, [][]int{}, []int{}, []int{}
				pan, msg := guard(func() {
					for i := 0; i < n; i++ {
						mins = append(mins, c05Val(ci.MinValue(i)))
						maxs = append(maxs, c05Val(ci.MaxValue(i)))
						nullPage = append(nullPage, b2i(ci.NullPage(i)))
						nullCounts = append(nullCounts, int(ci.NullCount(i)))
					}
				})
				if pan { // the index the writer produced cannot even be enumerated
					tr.emit("IndexError", ev{"msg": msg, "pages": n})
					continue
				}
				tr.emit("Index", ev{"min": mins, "max": maxs, "nullPage": ints(nullPage), "nullCounts": ints(nullCounts),
					"asc": b2i(ci.IsAscending()), "desc": b2i(ci.IsDescending())})
			}
			// chunk statistics from the footer
			md := f.Metadata().RowGroups[0].Columns[0].MetaData
			tr.emit("Chunk", ev{"min": optBytes(md.Statistics.MinValue), "max": optBytes(md.Statistics.MaxValue),
				"nulls": int(md.Statistics.NullCount), "values": int(md.NumValues)})
		}
	}
	return nil
}
