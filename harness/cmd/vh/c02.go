package main

import (
	"bytes"
	"encoding/binary"
	"fmt"
	"io"
	"math"
	"os"
	"strconv"

	"github.com/andybalholm/brotli"
	"github.com/klauspost/compress/gzip"
	"github.com/klauspost/compress/zstd"
	"github.com/parquet-go/parquet-go"
	"github.com/parquet-go/parquet-go/deprecated"
	"github.com/parquet-go/parquet-go/encoding/thrift"
	"github.com/parquet-go/parquet-go/format"
	"github.com/pierrec/lz4/v4"
)

// C02: files as raw bytes. The harness hands the writer rows whose values and
// levels it computed itself (no shredding by the library), logs the file's
// bytes, the streams it wrote, and - for codecs FileLayout.tla cannot decode -
// page bodies decompressed with the codec packages directly. FileLayout.tla
// reads the file on its own; LayoutMon.tla compares.

func init() { commands["c02"] = c02Main }

type c02Scenario struct {
	ID   int     `json:"id"`
	Orig int     `json:"orig,omitempty"`
	Cfg  wCfg    `json:"cfg"`
	Ops  []wOp   `json:"ops"`
	Path string  `json:"path,omitempty"` // direct | copy | reencode
	Var  *uint64 `json:"var,omitempty"`
}

// the schema: every physical type, optional and repeated columns, a nested group
//
//	message c02 { required int64 id; required boolean b; optional int32 i32; required float f;
//	  optional double d; optional binary s; required fixed_len_byte_array(5) fx; required int96 t;
//	  repeated int64 l; optional group g { required int32 x; repeated binary ys; } }
type c02Leaf struct {
	name   []string
	maxDef int
	maxRep int
}

func c02Schema() *parquet.Schema {
	return parquet.NewSchema("c02", parquet.Group{
		"b":   parquet.Leaf(parquet.BooleanType),
		"d":   parquet.Optional(parquet.Leaf(parquet.DoubleType)),
		"f":   parquet.Leaf(parquet.FloatType),
		"fx":  parquet.Leaf(parquet.FixedLenByteArrayType(5)),
		"g":   parquet.Optional(parquet.Group{"x": parquet.Leaf(parquet.Int32Type), "ys": parquet.Repeated(parquet.String())}),
		"i32": parquet.Optional(parquet.Leaf(parquet.Int32Type)),
		"id":  parquet.Leaf(parquet.Int64Type),
		"l":   parquet.Repeated(parquet.Leaf(parquet.Int64Type)),
		"s":   parquet.Optional(parquet.String()),
		"t":   parquet.Leaf(parquet.Int96Type),
	})
}

// leaf order = schema order (groups sort their fields by name): b d f fx g.x g.ys i32 id l s t
var c02Leaves = []c02Leaf{
	{[]string{"b"}, 0, 0}, {[]string{"d"}, 1, 0}, {[]string{"f"}, 0, 0}, {[]string{"fx"}, 0, 0},
	{[]string{"g", "x"}, 1, 0}, {[]string{"g", "ys"}, 2, 1}, {[]string{"i32"}, 1, 0}, {[]string{"id"}, 0, 0},
	{[]string{"l"}, 1, 1}, {[]string{"s"}, 1, 0}, {[]string{"t"}, 0, 0},
}

type c02Stream struct {
	Path [][]int `json:"path"`
	Vals [][]int `json:"vals"`
	Reps []int   `json:"reps"`
	Defs []int   `json:"defs"`
}

// c02Row builds the row for id: the parquet.Row handed to the writer, with levels computed here.
func c02Row(id int, seed uint64, streams []c02Stream) parquet.Row {
	r := newRng(seed*7919 + uint64(id)*104729)
	row := parquet.Row{}
	add := func(col int, v parquet.Value, rep, def int, raw []byte, null bool) {
		row = append(row, v.Level(rep, def, col))
		st := &streams[col]
		st.Reps = append(st.Reps, rep)
		st.Defs = append(st.Defs, def)
		if !null {
			st.Vals = append(st.Vals, bytesToInts(raw))
		}
	}
	le32 := func(x uint32) []byte { b := make([]byte, 4); binary.LittleEndian.PutUint32(b, x); return b }
	le64 := func(x uint64) []byte { b := make([]byte, 8); binary.LittleEndian.PutUint64(b, x); return b }
	strs := []string{"", "a", "abc", "hello world", "\x00\xff", "héllo", "zzzzzzzzzzzzzzzzzzzzzzzzzzzzzzzzzzzzzzzz", "abd", "ab"}
	// 0: b
	bv := r.intn(3) == 0
	add(0, parquet.BooleanValue(bv), 0, 0, []byte{byte(b2i(bv))}, false)
	// 1: d optional
	if r.intn(4) == 0 {
		add(1, parquet.NullValue(), 0, 0, nil, true)
	} else {
		x := pick(r, wF64s)
		add(1, parquet.DoubleValue(math.Float64frombits(x)), 0, 1, le64(x), false)
	}
	// 2: f
	fb := pick(r, wF32s)
	add(2, parquet.FloatValue(math.Float32frombits(fb)), 0, 0, le32(fb), false)
	// 3: fx
	fx := []byte{byte('A' + r.intn(3)), 'x', 0, 0xFF, byte(r.intn(2))}
	add(3, parquet.FixedLenByteArrayValue(fx), 0, 0, fx, false)
	// 4, 5: g optional group { x required, ys repeated }
	if r.intn(4) == 0 {
		add(4, parquet.NullValue(), 0, 0, nil, true)
		add(5, parquet.NullValue(), 0, 0, nil, true)
	} else {
		x := pick(r, wI32s)
		add(4, parquet.Int32Value(x), 0, 1, le32(uint32(x)), false)
		n := r.intn(4)
		if n == 0 {
			add(5, parquet.NullValue(), 0, 1, nil, true)
		}
		for j := 0; j < n; j++ {
			s := pick(r, strs)
			rep := 0
			if j > 0 {
				rep = 1
			}
			add(5, parquet.ByteArrayValue([]byte(s)), rep, 2, []byte(s), false)
		}
	}
	// 6: i32 optional
	if r.intn(3) == 0 {
		add(6, parquet.NullValue(), 0, 0, nil, true)
	} else {
		x := int32(id/7) + pick(r, wI32s[3:6])
		add(6, parquet.Int32Value(x), 0, 1, le32(uint32(x)), false)
	}
	// 7: id
	add(7, parquet.Int64Value(int64(id)), 0, 0, le64(uint64(id)), false)
	// 8: l repeated int64
	n := r.intn(5)
	if n == 4 {
		n = 9
	}
	if n == 0 {
		add(8, parquet.NullValue(), 0, 0, nil, true)
	}
	for j := 0; j < n; j++ {
		x := pick(r, wI64s)
		rep := 0
		if j > 0 {
			rep = 1
		}
		add(8, parquet.Int64Value(x), rep, 1, le64(uint64(x)), false)
	}
	// 9: s optional string
	if r.intn(4) == 0 {
		add(9, parquet.NullValue(), 0, 0, nil, true)
	} else {
		s := pick(r, strs)
		add(9, parquet.ByteArrayValue([]byte(s)), 0, 1, []byte(s), false)
	}
	// 10: t int96
	t := deprecated.Int96{uint32(r.next()), uint32(id), uint32(r.intn(3))}
	add(10, parquet.Int96Value(t), 0, 0, append(append(le32(t[0]), le32(t[1])...), le32(t[2])...), false)
	return row
}

func c02Options(c wCfg, r *rng) []parquet.WriterOption {
	opts := []parquet.WriterOption{c02Schema()}
	if c.MaxRows > 0 {
		opts = append(opts, parquet.MaxRowsPerRowGroup(int64(c.MaxRows)))
	}
	if c.Ver != 0 {
		opts = append(opts, parquet.DataPageVersion(c.Ver))
	}
	if c.Codec != "" && c.Codec != "none" {
		opts = append(opts, parquet.Compression(wCodec(c.Codec)))
	}
	switch c.Enc {
	case "plain":
		opts = append(opts, parquet.DefaultEncoding(&parquet.Plain))
	case "delta":
		opts = append(opts, parquet.DefaultEncodingFor(parquet.Int32, &parquet.DeltaBinaryPacked),
			parquet.DefaultEncodingFor(parquet.Int64, &parquet.DeltaBinaryPacked))
		if r.intn(2) == 0 {
			opts = append(opts, parquet.DefaultEncodingFor(parquet.ByteArray, &parquet.DeltaLengthByteArray))
		} else {
			opts = append(opts, parquet.DefaultEncodingFor(parquet.ByteArray, &parquet.DeltaByteArray),
				parquet.DefaultEncodingFor(parquet.FixedLenByteArray, &parquet.DeltaByteArray))
		}
	case "split":
		opts = append(opts, parquet.DefaultEncodingFor(parquet.Float, &parquet.ByteStreamSplit),
			parquet.DefaultEncodingFor(parquet.Double, &parquet.ByteStreamSplit),
			parquet.DefaultEncodingFor(parquet.Int32, &parquet.ByteStreamSplit),
			parquet.DefaultEncodingFor(parquet.Int64, &parquet.ByteStreamSplit),
			parquet.DefaultEncodingFor(parquet.FixedLenByteArray, &parquet.ByteStreamSplit))
	case "dict":
		opts = append(opts, parquet.DefaultEncoding(&parquet.RLEDictionary))
	}
	switch c.Dict {
	case "tiny":
		opts = append(opts, parquet.DictionaryMaxBytes(32))
	}
	switch c.PageBuf {
	case "tiny":
		opts = append(opts, parquet.PageBufferSize(200))
	}
	switch c.WBuf {
	case "zero":
		opts = append(opts, parquet.WriteBufferSize(0))
	case "small":
		opts = append(opts, parquet.WriteBufferSize(61))
	}
	switch c.Bloom {
	case "on", "deferred":
		opts = append(opts, parquet.BloomFilters(parquet.SplitBlockFilter(10, "id"), parquet.SplitBlockFilter(10, "s"), parquet.SplitBlockFilter(10, "fx"),
			parquet.SplitBlockFilter(10, "g", "ys")))
		if c.Bloom == "deferred" {
			opts = append(opts, parquet.DeferBloomFiltersWithBuffers(parquet.NewBufferPool()))
		}
	}
	if c.Sort == "declared" {
		opts = append(opts, parquet.SortingWriterConfig(parquet.SortingColumns(parquet.Ascending("id"))), parquet.KeyValueMetadata("origin", "vh"))
	}
	switch c.Stats {
	case "off":
		opts = append(opts, parquet.DataPageStatistics(false))
	case "nobounds":
		opts = append(opts, parquet.SkipPageBounds("s"), parquet.SkipPageBounds("d"))
	}
	return opts
}

// c02Decompress: the codec packages, called directly.
func c02Decompress(codec format.CompressionCodec, src []byte, usize int) ([]byte, error) {
	switch codec {
	case format.Gzip:
		zr, err := gzip.NewReader(bytes.NewReader(src))
		if err != nil {
			return nil, err
		}
		return io.ReadAll(zr)
	case format.Zstd:
		d, err := zstd.NewReader(nil)
		if err != nil {
			return nil, err
		}
		defer d.Close()
		return d.DecodeAll(src, nil)
	case format.Brotli:
		return io.ReadAll(brotli.NewReader(bytes.NewReader(src)))
	case format.Lz4Raw:
		dst := make([]byte, usize)
		n, err := lz4.UncompressBlock(src, dst)
		if err != nil {
			return nil, err
		}
		return dst[:n], nil
	}
	return nil, fmt.Errorf("no decoder for codec %v", codec)
}

type c02Hint struct {
	Off  int   `json:"off"`
	Body []int `json:"body"`
}

// c02Hints walks the pages of every chunk (library metadata and thrift decoder as a guide only) and
// decompresses the bodies of pages whose codec FileLayout.tla does not decode itself.
func c02Hints(data []byte) ([]c02Hint, error) {
	hints := []c02Hint{}
	f, err := parquet.OpenFile(bytes.NewReader(data), int64(len(data)))
	if err != nil {
		return hints, err
	}
	for _, rg := range f.Metadata().RowGroups {
		for _, cc := range rg.Columns {
			md := cc.MetaData
			if md.Codec == format.Uncompressed || md.Codec == format.Snappy {
				continue
			}
			off := md.DataPageOffset
			if md.DictionaryPageOffset > 0 && md.DictionaryPageOffset < off {
				off = md.DictionaryPageOffset
			}
			end := off + md.TotalCompressedSize
			for off < end && int(off) < len(data) {
				proto := thrift.CompactProtocol{}
				rd := proto.NewReaderFromBytes(data[off:])
				hdr := new(format.PageHeader)
				if err := thrift.NewDecoder(rd).Decode(hdr); err != nil {
					return hints, err
				}
				hlen := int64(rd.BytesRead())
				body := data[off+hlen : off+hlen+int64(hdr.CompressedPageSize)]
				usize := int(hdr.UncompressedPageSize)
				if hdr.Type == format.DataPageV2 && hdr.DataPageHeaderV2.Valid {
					v2 := hdr.DataPageHeaderV2.V
					lv := int(v2.RepetitionLevelsByteLength + v2.DefinitionLevelsByteLength)
					compressed := true
					if v2.IsCompressed.Valid {
						compressed = v2.IsCompressed.V
					}
					if compressed && len(body) > lv {
						out, err := c02Decompress(md.Codec, body[lv:], usize-lv)
						if err == nil {
							hints = append(hints, c02Hint{int(off), bytesToInts(out)})
						}
					}
				} else {
					out, err := c02Decompress(md.Codec, body, usize)
					if err == nil {
						hints = append(hints, c02Hint{int(off), bytesToInts(out)})
					}
				}
				off += hlen + int64(hdr.CompressedPageSize)
			}
		}
	}
	return hints, nil
}

func c02Main(args []string) error {
	seed, _ := strconv.ParseUint(argValue(args, "--seed", "1"), 10, 64)
	scs, err := readScenarios[c02Scenario](argValue(args, "--scenarios", "-"))
	if err != nil {
		return err
	}
	tr := newTracer(os.Stdout)
	defer tr.flush()
	for si := range scs {
		sc := &scs[si]
		rid := sc.ID
		if sc.Orig != 0 {
			rid = sc.Orig
		}
		variant := newRng(seed ^ uint64(rid)*0x9E3779B1).next()
		if sc.Var != nil {
			variant = *sc.Var
		}
		c02Run(tr, sc, variant)
	}
	return nil
}

func c02Run(tr *tracer, sc *c02Scenario, variant uint64) {
	r := newRng(variant)
	path := sc.Path
	if path == "" {
		path = []string{"direct", "direct", "copy", "reencode"}[r.intn(4)]
	}
	tr.begin(ev{"sc": sc.ID, "cfg": sc.Cfg, "path": path, "var": strconv.FormatUint(variant, 10)})
	streams := make([]c02Stream, len(c02Leaves))
	for i, l := range c02Leaves {
		for _, n := range l.name {
			streams[i].Path = append(streams[i].Path, bytesToInts([]byte(n)))
		}
		streams[i].Vals, streams[i].Reps, streams[i].Defs = [][]int{}, []int{}, []int{}
	}
	optSeed := r.next()
	write := func(cfg wCfg, seedOpts uint64) ([]byte, int, error) {
		buf := new(bytes.Buffer)
		w := parquet.NewWriter(buf, c02Options(cfg, &rng{s: seedOpts})...)
		next := 0
		for _, op := range sc.Ops {
			switch op.Op {
			case "write":
				n := op.N
				if n > 3 { // the 64-row chunking is C01's subject; keep files small enough for TLC to read
					n = n / 6
				}
				rows := make([]parquet.Row, n)
				for i := range rows {
					rows[i] = c02Row(next, variant, streams)
					next++
				}
				if _, err := w.WriteRows(rows); err != nil {
					return nil, next, err
				}
			case "flush":
				if err := w.Flush(); err != nil {
					return nil, next, err
				}
			case "colflush":
				cws := w.ColumnWriters()
				if err := cws[op.C%len(cws)].Flush(); err != nil {
					return nil, next, err
				}
			}
		}
		if err := w.Close(); err != nil {
			return nil, next, err
		}
		return buf.Bytes(), next, nil
	}
	var data []byte
	var nrows int
	var err error
	c0, r0 := parquet.VerifPathCounters()
	pan, msg := guard(func() {
		data, nrows, err = write(sc.Cfg, optSeed)
		if err != nil || path == "direct" {
			return
		}
		// the file just written is the source of WriteRowGroup into a second writer
		dstCfg := sc.Cfg
		if path == "reencode" {
			dstCfg.Codec = map[string]string{"none": "snappy", "snappy": "none", "gzip": "snappy", "zstd": "none", "lz4": "snappy", "brotli": "none", "": "snappy"}[sc.Cfg.Codec]
			dstCfg.Ver = 3 - max(sc.Cfg.Ver, 1)
			if r.intn(2) == 0 {
				dstCfg.Enc = []string{"default", "plain", "delta", "dict"}[r.intn(4)]
			}
		}
		var src *parquet.File
		src, err = parquet.OpenFile(bytes.NewReader(data), int64(len(data)))
		if err != nil {
			return
		}
		out := new(bytes.Buffer)
		w2 := parquet.NewWriter(out, c02Options(dstCfg, &rng{s: optSeed})...)
		for _, rg := range src.RowGroups() {
			if _, err = w2.WriteRowGroup(rg); err != nil {
				return
			}
		}
		if err = w2.Close(); err != nil {
			return
		}
		data = out.Bytes()
	})
	if pan {
		err = fmt.Errorf("panic: %s", msg)
	}
	if err != nil {
		tr.emit("WriteError", ev{"msg": err.Error()})
		return
	}
	hints, herr := c02Hints(data)
	c1, r1 := parquet.VerifPathCounters()
	e := ev{"bytes": bytesToInts(data), "hints": hints, "expect": streams, "rows": nrows, "size": len(data), "copied": int(c1 - c0), "reencoded": int(r1 - r0)}
	if herr != nil {
		e["hintError"] = herr.Error()
	}
	tr.emit("File", e)
}
