package main

import (
	"bytes"
	"io"
	"os"
	"strconv"
	"strings"

	"github.com/parquet-go/parquet-go"
)

// bufpool: the page buffers handed out by the library's BufferPool implementations,
// driven by operation histories generated from MC_PageBuffer.tla. Every result is
// logged; BufMon.tla replays the history through PageBuffer.tla's operators.
//   Init  kind, clamp (1: Seek beyond the end stops at the end - the in-memory buffers)
//   Op    write: p, n, err | read: k, got, eof, err | seek: off, wh, ret, err |
//         writeto: got, n, err | recycle (PutBuffer then GetBuffer)

func init() { commands["bufpool"] = bufpoolMain }

type bpOp struct {
	Op  string `json:"op"`
	N   int    `json:"n,omitempty"`
	K   int    `json:"k,omitempty"`
	Off int    `json:"off,omitempty"`
	Wh  int    `json:"wh,omitempty"`
}

type bpScenario struct {
	ID   int    `json:"id"`
	Orig int    `json:"orig,omitempty"`
	Kind string `json:"kind,omitempty"`
	Ops  []bpOp `json:"ops"`
}

var bpKinds = []string{"chunk1", "chunk2", "chunk3", "chunk4", "chunk7", "default", "file"}

func bpPool(kind, dir string) parquet.BufferPool {
	switch {
	case kind == "file":
		return parquet.NewFileBufferPool(dir, "vh-bufpool-*")
	case strings.HasPrefix(kind, "chunk"):
		n, _ := strconv.Atoi(kind[5:])
		return parquet.NewChunkBufferPool(n)
	}
	return parquet.NewBufferPool()
}

func bufpoolMain(args []string) error {
	kindsArg := argValue(args, "--kinds", strings.Join(bpKinds, ","))
	scs, err := readScenarios[bpScenario](argValue(args, "--scenarios", "-"))
	if err != nil {
		return err
	}
	dir, err := os.MkdirTemp("", "vh-bufpool-")
	if err != nil {
		return err
	}
	defer os.RemoveAll(dir)
	tr := newTracer(os.Stdout)
	defer tr.flush()
	for si := range scs {
		sc := &scs[si]
		kinds := strings.Split(kindsArg, ",")
		if sc.Kind != "" {
			kinds = []string{sc.Kind}
		}
		for _, kind := range kinds {
			pool := bpPool(kind, dir)
			// leave something in the pool first: the buffer under test may be a recycled one
			pre := pool.GetBuffer()
			pre.Write([]byte{9, 9, 9, 9, 9})
			pool.PutBuffer(pre)
			buf := pool.GetBuffer()
			tr.begin(ev{"sc": sc.ID, "kind": kind, "clamp": b2i(kind != "file")})
			next := 0
			for _, op := range sc.Ops {
				switch op.Op {
				case "write":
					p := make([]byte, op.N)
					for i := range p {
						p[i] = byte(next%250) + 1
						next++
					}
					n, err := buf.Write(p)
					tr.emit("Op", ev{"op": "write", "p": bytesToInts(p), "n": n, "err": b2i(err != nil)})
				case "read":
					p := bytes.Repeat([]byte{0xEE}, op.K)
					n, err := buf.Read(p)
					if n < 0 || n > len(p) {
						n = 0
						err = io.ErrShortBuffer
					}
					tr.emit("Op", ev{"op": "read", "k": op.K, "got": bytesToInts(p[:n]), "eof": b2i(err == io.EOF), "err": b2i(err != nil && err != io.EOF)})
				case "seek":
					ret, err := buf.Seek(int64(op.Off), op.Wh)
					tr.emit("Op", ev{"op": "seek", "off": op.Off, "wh": op.Wh, "ret": int(ret), "err": b2i(err != nil)})
				case "writeto":
					dst := new(bytes.Buffer)
					n, err := io.Copy(dst, buf) // uses WriteTo where the buffer has it, as the writer does
					tr.emit("Op", ev{"op": "writeto", "got": bytesToInts(dst.Bytes()), "n": int(n), "err": b2i(err != nil)})
				case "recycle":
					pool.PutBuffer(buf)
					buf = pool.GetBuffer()
					tr.emit("Op", ev{"op": "recycle"})
				}
			}
			pool.PutBuffer(buf)
		}
	}
	return nil
}
