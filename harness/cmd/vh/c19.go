package main

import (
	"bytes"
	"encoding/binary"
	"fmt"
	"io"
	"math"
	"os"
	"sort"
	"strconv"
	"strings"
	"unicode/utf8"

	"github.com/google/uuid"
	"github.com/parquet-go/parquet-go"
	"github.com/parquet-go/parquet-go/variant"
)

// C19: variant values. The harness builds value trees from descriptors, keeps
// its own description of each tree (kind ids and payload bytes, computed here,
// not by the library) and logs what the library produced as raw bytes:
//   Enc   variant.Encode / Marshal / Builder output for a tree
//   Read  the value read back from a file with a (shredded) variant column,
//         re-encoded, per write mode and read mode
//   Phys  the physical value / typed_value leaves of a primitive shredding
// Variant.tla decodes the bytes and VarMon.tla compares with the tree.

func init() { commands["c19"] = c19Main }

type c19Scenario struct {
	ID     int    `json:"id"`
	Orig   int    `json:"orig,omitempty"`
	Part   string `json:"part"`             // enc | file
	Val    string `json:"val,omitempty"`    // value kind (enc)
	Schema string `json:"schema,omitempty"` // shredding schema kind (file)
	WMode  string `json:"wmode,omitempty"`  // typed | raw
}

type c19Tree map[string]any

func c19Prim(id int, b []byte) c19Tree { return c19Tree{"k": "prim", "id": id, "b": bytesToInts(b)} }
func c19Str(s string) c19Tree          { return c19Tree{"k": "str", "b": bytesToInts([]byte(s))} }

func le16(x uint16) []byte  { b := make([]byte, 2); binary.LittleEndian.PutUint16(b, x); return b }
func le32b(x uint32) []byte { b := make([]byte, 4); binary.LittleEndian.PutUint32(b, x); return b }
func le64b(x uint64) []byte { b := make([]byte, 8); binary.LittleEndian.PutUint64(b, x); return b }

// c19Val: a value of the given kind: the variant.Value, the Go value for typed writes (ok=false when the
// Go mapping cannot express the kind exactly) and the harness's own description of the tree.
type c19Val struct {
	v    variant.Value
	goV  any
	goOK bool
	tree c19Tree
}

var c19Kinds = []string{"null", "true", "false", "int8", "int16", "int32", "int64", "float", "double", "dec4", "dec8", "dec16",
	"date", "ts", "tsntz", "time", "tsns", "tsntzns", "uuid", "binary", "string-short", "string-long", "string-64",
	"obj-empty", "obj-flat", "obj-nested", "obj-many", "arr-empty", "arr-mixed", "arr-obj", "arr-many", "deep"}

// variant strings are UTF-8
var c19Strs = func() []string {
	out := []string{}
	for _, s := range wStrs {
		if utf8.ValidString(s) {
			out = append(out, s)
		}
	}
	return out
}()

var c19Keys = []string{"a", "b", "name", "age", "zz", "", "Ünï", "k1", "k2", "nested", "list", "x"}

func c19Obj(fields map[string]c19Val) c19Val {
	keys := []string{}
	for k := range fields {
		keys = append(keys, k)
	}
	sort.Strings(keys) // byte-wise order
	fs := []variant.Field{}
	goM := map[string]any{}
	tf := [][]any{}
	goOK := true
	for _, k := range keys {
		f := fields[k]
		fs = append(fs, variant.Field{Name: k, Value: f.v})
		goM[k] = f.goV
		goOK = goOK && f.goOK
		tf = append(tf, []any{bytesToInts([]byte(k)), f.tree})
	}
	// the library gets the fields in a scrambled order: sorting is its job
	if len(fs) > 2 {
		fs[0], fs[len(fs)-1] = fs[len(fs)-1], fs[0]
	}
	return c19Val{variant.MakeObject(fs), goM, goOK, c19Tree{"k": "obj", "f": tf}}
}

func c19Arr(elems []c19Val) c19Val {
	vs := []variant.Value{}
	goA := []any{}
	te := []any{}
	goOK := true
	for _, e := range elems {
		vs = append(vs, e.v)
		goA = append(goA, e.goV)
		goOK = goOK && e.goOK
		te = append(te, e.tree)
	}
	return c19Val{variant.MakeArray(vs), goA, goOK, c19Tree{"k": "arr", "e": te}}
}

func c19Make(kind string, r *rng, depth int) c19Val {
	switch kind {
	case "null":
		return c19Val{variant.Null(), nil, true, c19Prim(0, nil)}
	case "true":
		return c19Val{variant.Bool(true), true, true, c19Prim(1, nil)}
	case "false":
		return c19Val{variant.Bool(false), false, true, c19Prim(2, nil)}
	case "int8":
		x := int8(r.next())
		return c19Val{variant.Int8(x), x, true, c19Prim(3, []byte{byte(x)})}
	case "int16":
		x := int16(r.next())
		return c19Val{variant.Int16(x), x, true, c19Prim(4, le16(uint16(x)))}
	case "int32":
		x := pick(r, wI32s)
		return c19Val{variant.Int32(x), x, true, c19Prim(5, le32b(uint32(x)))}
	case "int64":
		x := pick(r, wI64s)
		return c19Val{variant.Int64(x), x, true, c19Prim(6, le64b(uint64(x)))}
	case "float":
		b := pick(r, wF32s)
		x := math.Float32frombits(b)
		return c19Val{variant.Float(x), x, true, c19Prim(14, le32b(math.Float32bits(x)))}
	case "double":
		b := pick(r, wF64s)
		x := math.Float64frombits(b)
		return c19Val{variant.Double(x), x, true, c19Prim(7, le64b(b))}
	case "dec4":
		x, s := int32(r.next()), byte(r.intn(10))
		return c19Val{variant.Decimal4(x, s), nil, false, c19Prim(8, append([]byte{s}, le32b(uint32(x))...))}
	case "dec8":
		x, s := int64(r.next()), byte(r.intn(19))
		return c19Val{variant.Decimal8(x, s), nil, false, c19Prim(9, append([]byte{s}, le64b(uint64(x))...))}
	case "dec16":
		var x [16]byte
		for i := range x {
			x[i] = byte(r.next())
		}
		s := byte(r.intn(39))
		return c19Val{variant.Decimal16(x, s), nil, false, c19Prim(10, append([]byte{s}, x[:]...))}
	case "dec4s", "dec8s", "dec16s": // scale 2, magnitudes around the byte boundaries (what decimal typed_value columns can hold)
		x := pick(r, []int64{128, 40000, -129, -256, 12345, -1, 0, 255, 32768, -32769, 127, -128, 8388608, -8388609})
		switch kind {
		case "dec4s":
			return c19Val{variant.Decimal4(int32(x), 2), nil, false, c19Prim(8, append([]byte{2}, le32b(uint32(int32(x)))...))}
		case "dec8s":
			return c19Val{variant.Decimal8(x, 2), nil, false, c19Prim(9, append([]byte{2}, le64b(uint64(x))...))}
		}
		var b [16]byte
		binary.LittleEndian.PutUint64(b[:8], uint64(x))
		if x < 0 {
			for i := 8; i < 16; i++ {
				b[i] = 0xFF
			}
		}
		return c19Val{variant.Decimal16(b, 2), nil, false, c19Prim(10, append([]byte{2}, b[:]...))}
	case "date":
		x := int32(r.next() % 40000)
		return c19Val{variant.Date(x), nil, false, c19Prim(11, le32b(uint32(x)))}
	case "ts", "tsntz", "time", "tsns", "tsntzns":
		x := int64(r.next() % (1 << 50))
		id := map[string]int{"ts": 12, "tsntz": 13, "time": 17, "tsns": 18, "tsntzns": 19}[kind]
		var v variant.Value
		switch kind {
		case "ts":
			v = variant.Timestamp(x)
		case "tsntz":
			v = variant.TimestampNTZ(x)
		case "time":
			x = x % 86400000000
			v = variant.Time(x)
		case "tsns":
			v = variant.TimestampNanos(x)
		default:
			v = variant.TimestampNTZNanos(x)
		}
		return c19Val{v, nil, false, c19Prim(id, le64b(uint64(x)))}
	case "uuid":
		var u uuid.UUID
		for i := range u {
			u[i] = byte(r.next())
		}
		return c19Val{variant.UUID(u), u, true, c19Prim(20, u[:])}
	case "binary":
		b := []byte(pick(r, wStrs)) // binary may hold any bytes
		return c19Val{variant.Binary(b), b, true, c19Prim(15, b)}
	case "string-short":
		s := pick(r, c19Strs)
		if len(s) > 63 {
			s = s[:20]
		}
		return c19Val{variant.String(s), s, true, c19Str(s)}
	case "string-64":
		s := strings.Repeat("y", 63+r.intn(3)) // around the short-string limit
		return c19Val{variant.String(s), s, true, c19Str(s)}
	case "string-long":
		s := strings.Repeat("long-", 30+r.intn(40))
		return c19Val{variant.String(s), s, true, c19Str(s)}
	case "obj-empty":
		return c19Obj(map[string]c19Val{})
	case "obj-flat":
		m := map[string]c19Val{}
		for i, n := 0, 1+r.intn(4); i < n; i++ {
			m[pick(r, c19Keys)] = c19Make(pick(r, c19Kinds[:23]), r, depth+1)
		}
		return c19Obj(m)
	case "obj-nested":
		m := map[string]c19Val{"a": c19Make("int32", r, depth+1), "name": c19Make("string-short", r, depth+1)}
		if depth < 3 {
			m["nested"] = c19Make(pick(r, []string{"obj-flat", "obj-nested", "arr-mixed"}), r, depth+1)
			m["list"] = c19Make("arr-mixed", r, depth+1)
		}
		return c19Obj(m)
	case "obj-many": // more than 255 fields: the large object layout, 2-byte field ids
		m := map[string]c19Val{}
		for i := 0; i < 260+r.intn(20); i++ {
			m["field-"+strconv.Itoa(i*7919%1000)+"-"+strconv.Itoa(i)] = c19Make(pick(r, []string{"int8", "true", "string-short", "null"}), r, depth+1)
		}
		return c19Obj(m)
	case "arr-empty":
		return c19Arr(nil)
	case "arr-mixed":
		es := []c19Val{}
		for i, n := 0, 1+r.intn(5); i < n; i++ {
			k := pick(r, c19Kinds[:23])
			if depth < 2 && r.intn(4) == 0 {
				k = pick(r, []string{"obj-flat", "arr-mixed", "arr-empty", "obj-empty"})
			}
			es = append(es, c19Make(k, r, depth+1))
		}
		return c19Arr(es)
	case "arr-obj":
		es := []c19Val{}
		for i, n := 0, 1+r.intn(4); i < n; i++ {
			es = append(es, c19Obj(map[string]c19Val{"a": c19Make(pick(r, []string{"int32", "string-short", "null"}), r, depth+1), "b": c19Make("string-short", r, depth+1)}))
		}
		return c19Arr(es)
	case "arr-many": // more than 255 elements, payload above 64 kB offsets when strings are long
		es := []c19Val{}
		for i := 0; i < 256+r.intn(50); i++ {
			es = append(es, c19Make(pick(r, []string{"int16", "string-short", "string-long"}), r, depth+1))
		}
		return c19Arr(es)
	case "deep":
		v := c19Make("int8", r, 9)
		for i := 0; i < 6; i++ {
			if i%2 == 0 {
				v = c19Arr([]c19Val{v, c19Make("string-short", r, 9)})
			} else {
				v = c19Obj(map[string]c19Val{"x": v, "k1": c19Make("false", r, 9)})
			}
		}
		return v
	}
	panic("unknown value kind " + kind)
}

func c19Main(args []string) error {
	seed, _ := strconv.ParseUint(argValue(args, "--seed", "1"), 10, 64)
	scs, err := readScenarios[c19Scenario](argValue(args, "--scenarios", "-"))
	if err != nil {
		return err
	}
	tr := newTracer(os.Stdout)
	defer tr.flush()
	for si := range scs {
		sc := &scs[si]
		rid := sc.ID
		if sc.Orig != 0 {
			rid = sc.Orig
		}
		r := newRng(seed ^ uint64(rid)*0x9E3779B1)
		tr.begin(ev{"sc": sc.ID, "part": sc.Part, "val": sc.Val, "schema": sc.Schema, "wmode": sc.WMode})
		pan, msg := guard(func() {
			if sc.Part == "enc" {
				c19Enc(tr, sc, r)
			} else {
				c19File(tr, sc, r)
			}
		})
		if pan {
			tr.emit("Err", ev{"what": "panic", "msg": msg})
		}
	}
	return nil
}

func c19Enc(tr *tracer, sc *c19Scenario, r *rng) {
	for rep := 0; rep < 3; rep++ {
		x := c19Make(sc.Val, r, 0)
		emit := func(how string, meta, val []byte, err error) {
			if err != nil {
				tr.emit("Err", ev{"what": how, "msg": err.Error()})
				return
			}
			rt := 0
			if m, err := variant.DecodeMetadata(meta); err == nil {
				if back, err := variant.Decode(m, val); err == nil && back.Equal(x.v) {
					rt = 1
				}
			}
			tr.emit("Enc", ev{"how": how, "meta": bytesToInts(meta), "val": bytesToInts(val), "want": x.tree, "rt": rt})
		}
		var mb variant.MetadataBuilder
		val := variant.Encode(&mb, x.v)
		_, meta := mb.Build()
		if val == nil {
			emit("encode", nil, nil, fmt.Errorf("Encode returned nil"))
		} else {
			emit("encode", meta, val, nil)
		}
		if x.goOK {
			meta, val, err := variant.Marshal(x.goV)
			emit("marshal", meta, val, err)
		}
		// the streaming builder
		b := variant.Builder{}
		x.v.Write(&b)
		bm, bv, err := b.Finish()
		emit("builder", bm, bv, err)
	}
}

type c19Rec struct {
	ID  int32 `parquet:"id"`
	Var any   `parquet:"var"`
}

type c19Raw struct {
	Metadata []byte `parquet:"metadata"`
	Value    []byte `parquet:"value"`
}

type c19RawRec struct {
	ID  int32  `parquet:"id"`
	Var c19Raw `parquet:"var,variant"`
}

func c19Node(kind string) (parquet.Node, string) {
	mk := func(n parquet.Node) parquet.Node {
		out, err := parquet.ShreddedVariant(n)
		if err != nil {
			panic(err)
		}
		return out
	}
	switch kind {
	case "none":
		return parquet.Variant(), ""
	case "string":
		return mk(parquet.String()), "string"
	case "int32":
		return mk(parquet.Leaf(parquet.Int32Type)), "int32"
	case "int64":
		return mk(parquet.Leaf(parquet.Int64Type)), "int64"
	case "double":
		return mk(parquet.Leaf(parquet.DoubleType)), "double"
	case "float":
		return mk(parquet.Leaf(parquet.FloatType)), "float"
	case "boolean":
		return mk(parquet.Leaf(parquet.BooleanType)), "boolean"
	case "binary":
		return mk(parquet.Leaf(parquet.ByteArrayType)), "binary"
	case "date":
		return mk(parquet.Date()), "date"
	case "dec-bytes":
		return mk(parquet.Decimal(2, 30, parquet.ByteArrayType)), ""
	case "dec-flba":
		return mk(parquet.Decimal(2, 30, parquet.FixedLenByteArrayType(16))), ""
	case "dec-int32":
		return mk(parquet.Decimal(2, 9, parquet.Int32Type)), ""
	case "dec-int64":
		return mk(parquet.Decimal(2, 18, parquet.Int64Type)), ""
	case "obj":
		return mk(parquet.Group{"a": parquet.Leaf(parquet.Int32Type), "name": parquet.String()}), ""
	case "obj-nested":
		return mk(parquet.Group{"a": parquet.Leaf(parquet.Int32Type), "nested": parquet.Group{"b": parquet.String(), "k1": parquet.Leaf(parquet.BooleanType)}}), ""
	case "list-int32":
		return mk(parquet.List(parquet.Leaf(parquet.Int32Type))), ""
	case "list-obj":
		return mk(parquet.List(parquet.Group{"a": parquet.Leaf(parquet.Int32Type), "b": parquet.String()})), ""
	case "obj-list":
		return mk(parquet.Group{"list": parquet.List(parquet.String()), "name": parquet.String()}), ""
	}
	panic("unknown schema kind " + kind)
}

func c19File(tr *tracer, sc *c19Scenario, r *rng) {
	node, primKind := c19Node(sc.Schema)
	schema := parquet.NewSchema("c19", parquet.Group{"id": parquet.Leaf(parquet.Int32Type), "var": node})
	// the values: every kind once, plus extra values of the kinds the schema shreds
	kinds := append([]string{}, c19Kinds...)
	kinds = append(kinds, "obj-nested", "obj-flat", "arr-mixed", "arr-obj", "int32", "string-short", "obj-nested",
		"int64", "int64", "int64", "int64", "int32", "int32", "int16", "int8", "double", "double", "float", "float", "true", "false", "binary", "date", "string-long",
		"dec4s", "dec4s", "dec4s", "dec8s", "dec8s", "dec8s", "dec16s", "dec16s", "dec16s", "dec16s", "dec16s", "dec16s")
	vals := []c19Val{}
	recs := []c19Rec{}
	for i, k := range kinds {
		if k == "obj-many" || k == "arr-many" {
			if r.intn(4) != 0 {
				continue
			}
		}
		x := c19Make(k, r, 0)
		var data any
		if sc.WMode == "typed" {
			if !x.goOK {
				continue
			}
			data = x.goV
			if data == nil {
				continue // a nil interface is a null row, not a variant null: C03's subject
			}
		} else {
			var mb variant.MetadataBuilder
			val := variant.Encode(&mb, x.v)
			_, meta := mb.Build()
			data = c19Raw{meta, val}
		}
		vals = append(vals, x)
		recs = append(recs, c19Rec{ID: int32(i), Var: data})
	}
	buf := new(bytes.Buffer)
	w := parquet.NewGenericWriter[c19Rec](buf, schema)
	if _, err := w.Write(recs); err != nil {
		tr.emit("Err", ev{"what": "write", "msg": err.Error()})
		return
	}
	if err := w.Close(); err != nil {
		tr.emit("Err", ev{"what": "close", "msg": err.Error()})
		return
	}
	data := buf.Bytes()
	f, err := parquet.OpenFile(bytes.NewReader(data), int64(len(data)))
	if err != nil {
		tr.emit("Err", ev{"what": "open", "msg": err.Error()})
		return
	}
	// read mode "raw": unshredded reader schema (the conversion reconstructs shredded columns)
	{
		rd := parquet.NewGenericReader[c19RawRec](f)
		out := make([]c19RawRec, len(recs)+1)
		n, err := rd.Read(out)
		if err != nil && err != io.EOF {
			tr.emit("Err", ev{"what": "read-raw", "msg": err.Error()})
		} else if n != len(recs) {
			tr.emit("Err", ev{"what": "read-raw", "msg": fmt.Sprintf("%d rows, want %d", n, len(recs))})
		} else {
			for i := range recs {
				tr.emit("Read", ev{"mode": "raw", "row": i, "meta": bytesToInts(out[i].Var.Metadata), "val": bytesToInts(out[i].Var.Value), "want": vals[i].tree, "lossy": 0})
			}
		}
		rd.Close()
	}
	// read modes "typed" (same schema) and "reshred" (another shredding schema): Go values, re-encoded
	for _, mode := range []string{"typed"} {
		rschema := schema
		if mode == "reshred" {
			other := map[string]string{"dec-bytes": "none", "dec-flba": "none", "dec-int32": "none", "dec-int64": "none", "none": "obj", "string": "int32", "int32": "string", "int64": "int32", "double": "obj", "float": "double", "boolean": "string",
				"binary": "string", "date": "int32", "obj": "obj-nested", "obj-nested": "obj", "list-int32": "list-obj", "list-obj": "list-int32", "obj-list": "obj"}[sc.Schema]
			n2, _ := c19Node(other)
			rschema = parquet.NewSchema("c19", parquet.Group{"id": parquet.Leaf(parquet.Int32Type), "var": n2})
		}
		rd := parquet.NewGenericReader[c19Rec](f, rschema)
		out := make([]c19Rec, len(recs)+1)
		n, err := rd.Read(out)
		if err != nil && err != io.EOF {
			tr.emit("Err", ev{"what": "read-" + mode, "msg": err.Error()})
		} else if n != len(recs) {
			tr.emit("Err", ev{"what": "read-" + mode, "msg": fmt.Sprintf("%d rows, want %d", n, len(recs))})
		} else {
			for i := range recs {
				meta, val, err := variant.Marshal(out[i].Var)
				if err != nil {
					tr.emit("Err", ev{"what": "remarshal-" + mode, "msg": err.Error()})
					continue
				}
				// the Go mapping (Value.GoValue) drops the logical kind of dates, times, decimals: not comparable
				tr.emit("Read", ev{"mode": mode, "row": i, "meta": bytesToInts(meta), "val": bytesToInts(val), "want": vals[i].tree, "lossy": b2i(!vals[i].goOK)})
			}
		}
		rd.Close()
	}
	// the physical leaves of a primitive shredding: metadata, value, typed_value
	if primKind != "" {
		rows := f.RowGroups()[0].Rows()
		rb := make([]parquet.Row, len(recs)+1)
		n, err := rows.ReadRows(rb)
		if (err != nil && err != io.EOF) || n != len(recs) {
			tr.emit("Err", ev{"what": "read-phys", "msg": fmt.Sprintf("%d rows, %v", n, err)})
		} else {
			for i, row := range rb[:n] {
				// columns: 0 id, 1 metadata, 2 value, 3 typed_value
				var meta, val, typed []byte
				hasV, hasT := false, false
				for _, v := range row {
					switch v.Column() {
					case 1:
						meta = append([]byte{}, v.ByteArray()...)
					case 2:
						if !v.IsNull() {
							hasV, val = true, append([]byte{}, v.ByteArray()...)
						}
					case 3:
						if !v.IsNull() {
							hasT = true
							switch primKind {
							case "boolean":
								typed = []byte{byte(b2i(v.Boolean()))}
							case "string", "binary":
								typed = append([]byte{}, v.ByteArray()...)
							default:
								typed = append([]byte{}, v.Bytes()...)
							}
						}
					}
				}
				tr.emit("Phys", ev{"row": i, "meta": bytesToInts(meta), "hasValue": b2i(hasV), "value": bytesToInts(val), "hasTyped": b2i(hasT),
					"typed": ev{"kind": primKind, "b": bytesToInts(typed)}, "want": vals[i].tree})
			}
		}
		rows.Close()
	}
}
