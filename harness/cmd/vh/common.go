package main

import (
	"bufio"
	"encoding/json"
	"fmt"
	"io"
	"os"
	"strings"
)

// The harness never judges: it drives the real library and prints plain
// observations as NDJSON events. TLC (the *Mon.tla monitors) decides.

type ev map[string]any

type tracer struct {
	w    *bufio.Writer
	t    int // current trace id
	seq  int
	sync bool // VH_SYNC=1: every event is written out at once, so that the trace survives the death of the process
}

func newTracer(w io.Writer) *tracer {
	return &tracer{w: bufio.NewWriterSize(w, 1<<20), sync: os.Getenv("VH_SYNC") == "1"}
}

// begin starts a new trace; the Init event carries the configuration.
func (tr *tracer) begin(fields ev) {
	tr.t++
	tr.seq = 0
	tr.emit("Init", fields)
}

func (tr *tracer) emit(name string, fields ev) {
	tr.seq++
	m := ev{"t": tr.t, "i": tr.seq, "ev": name}
	for k, v := range fields {
		m[k] = v
	}
	b, err := json.Marshal(m)
	if err != nil {
		panic(err)
	}
	tr.w.Write(b)
	tr.w.WriteByte('\n')
	if tr.sync {
		tr.w.Flush()
	}
}

func (tr *tracer) flush() { tr.w.Flush() }

func b2i(b bool) int {
	if b {
		return 1
	}
	return 0
}

// ints makes sure empty slices are encoded as [] (never null) so every trace
// field has one JSON type.
func ints(s []int) []int {
	if s == nil {
		return []int{}
	}
	return s
}

func readScenarios[T any](path string) ([]T, error) {
	var r io.Reader = os.Stdin
	if path != "" && path != "-" {
		f, err := os.Open(path)
		if err != nil {
			return nil, err
		}
		defer f.Close()
		r = f
	}
	var out []T
	sc := bufio.NewScanner(r)
	sc.Buffer(make([]byte, 1<<20), 1<<26)
	for sc.Scan() {
		line := strings.TrimSpace(sc.Text())
		if line == "" {
			continue
		}
		var s T
		if err := json.Unmarshal([]byte(line), &s); err != nil {
			return nil, fmt.Errorf("scenario %q: %w", line, err)
		}
		out = append(out, s)
	}
	return out, sc.Err()
}

// guard runs f and converts a panic in library code into an observation.
func guard(f func()) (panicked bool, msg string) {
	defer func() {
		if r := recover(); r != nil {
			panicked = true
			msg = fmt.Sprint(r)
		}
	}()
	f()
	return
}

// splitmix64: small deterministic PRNG so choices depend only on VERIF_SEED.
type rng struct{ s uint64 }

func newRng(seed uint64) *rng { return &rng{s: seed*0x9E3779B97F4A7C15 + 0x1234567} }
func (r *rng) next() uint64 {
	r.s += 0x9E3779B97F4A7C15
	z := r.s
	z = (z ^ (z >> 30)) * 0xBF58476D1CE4E5B9
	z = (z ^ (z >> 27)) * 0x94D049BB133111EB
	return z ^ (z >> 31)
}
func (r *rng) intn(n int) int {
	if n <= 0 {
		return 0
	}
	return int(r.next() % uint64(n))
}

func argValue(args []string, name, def string) string {
	for i, a := range args {
		if a == name && i+1 < len(args) {
			return args[i+1]
		}
		if strings.HasPrefix(a, name+"=") {
			return a[len(name)+1:]
		}
	}
	return def
}

func hashString(s string) uint64 {
	h := uint64(14695981039346656037)
	for i := 0; i < len(s); i++ {
		h ^= uint64(s[i])
		h *= 1099511628211
	}
	return h
}
