package main

import (
	"bytes"
	"fmt"
	"io"
	"os"
	"reflect"
	"strings"

	"github.com/parquet-go/parquet-go"
)

// C12: reading through a different but compatible schema only adds or drops columns.
// Scenario: named source and target schema trees (the target is the source
// edited by deletions, permutations and additions) and source rows. Go types
// are built with reflect.StructOf; rows are written with the source type and
// obtained back through the target schema in several ways.

func init() { commands["c12"] = c12Main }

type c12Scenario struct {
	ID   int      `json:"id"`
	Orig int      `json:"orig,omitempty"`
	Src  *c03Tree `json:"src"`
	Tgt  *c03Tree `json:"tgt"`
	Row  any      `json:"row,omitempty"`
	Rows []any    `json:"rows,omitempty"`
}

// c12GoType: like c03GoType but fields are named after the schema nodes.
func c12GoType(t *c03Tree, asReq bool) reflect.Type {
	if !asReq {
		switch t.Rep {
		case "opt":
			return reflect.PointerTo(c12GoType(t, true))
		case "rep":
			return reflect.SliceOf(c12GoType(t, true))
		}
	}
	if t.K == "leaf" {
		return reflect.TypeOf(int64(0))
	}
	fields := make([]reflect.StructField, len(t.Fields))
	for i, f := range t.Fields {
		fields[i] = reflect.StructField{
			Name: "F_" + strings.ToUpper(f.Name),
			Type: c12GoType(f, false),
			Tag:  reflect.StructTag(`parquet:"` + f.Name + `"`),
		}
	}
	return reflect.StructOf(fields)
}

// c12Stretch repeats the elements of every non-empty list k times.
func c12Stretch(t *c03Tree, v any, asReq bool, k int) any {
	if !asReq && (t.Rep == "opt" || t.Rep == "rep") {
		s := seqOf(v)
		out := []any{}
		for _, e := range s {
			out = append(out, c12Stretch(t, e, true, k))
		}
		if t.Rep == "rep" && len(out) > 0 {
			one := out
			for i := 1; i < k; i++ {
				for _, e := range one {
					out = append(out, c12Stretch(t, e, true, 1)) // a copy
				}
			}
		}
		return out
	}
	if t.K == "leaf" {
		return v
	}
	s := seqOf(v)
	out := make([]any, len(s))
	for i, f := range t.Fields {
		out[i] = c12Stretch(f, s[i], false, k)
	}
	return out
}

func c12Main(args []string) error {
	scs, err := readScenarios[c12Scenario](argValue(args, "--scenarios", "-"))
	if err != nil {
		return err
	}
	tr := newTracer(os.Stdout)
	defer tr.flush()
	for si := range scs {
		sc := &scs[si]
		rows := sc.Rows
		if rows == nil {
			rows = []any{sc.Row}
		}
		srcType, tgtType := c12GoType(sc.Src, true), c12GoType(sc.Tgt, true)
		srcSchema := parquet.SchemaOf(reflect.New(srcType).Interface())
		tgtSchema := parquet.SchemaOf(reflect.New(tgtType).Interface())
		// the row is repeated three times with distinct leaf numbers (several rows, order matters); in the
		// second and third copy every non-empty list is stretched to two and three elements (the model's
		// universe has lists of at most one element; the requirement Project is defined for any length)
		base := rows
		rows = append([]any{}, base...)
		for k := 2; k <= 3; k++ {
			for _, row := range base {
				rows = append(rows, c12Stretch(sc.Src, row, true, k))
			}
		}
		b := &c03Builder{r: newRng(uint64(sc.ID))}
		next := 0
		numbered := make([]any, len(rows))
		vals := make([]reflect.Value, len(rows))
		for i, row := range rows {
			numbered[i] = c03Renumber(sc.Src, row, true, &next, nil)
			v := reflect.New(srcType).Elem()
			b.fill(srcSchema, v, numbered[i], true)
			vals[i] = v
		}
		tr.begin(ev{"sc": sc.ID, "src": sc.Src, "tgt": sc.Tgt, "rows": numbered})

		// the source file
		buf := new(bytes.Buffer)
		w := parquet.NewWriter(buf, srcSchema)
		for _, v := range vals {
			if err := w.Write(v.Interface()); err != nil {
				return fmt.Errorf("scenario %d: writing source: %w", sc.ID, err)
			}
		}
		if err := w.Close(); err != nil {
			return fmt.Errorf("scenario %d: writing source: %w", sc.ID, err)
		}
		data := buf.Bytes()
		open := func() *parquet.File {
			f, err := parquet.OpenFile(bytes.NewReader(data), int64(len(data)))
			if err != nil {
				panic(err)
			}
			return f
		}
		emit := func(path string, out []any, err error, pan bool, msg string) {
			e := ev{"path": path, "rows": out, "err": b2i(err != nil || pan)}
			if out == nil || err != nil || pan {
				e["rows"] = []any{}
			}
			if err != nil {
				e["msg"] = err.Error()
			} else if pan {
				e["msg"] = "panic: " + msg
			}
			tr.emit("Out", e)
		}
		run := func(path string, f func() ([]any, error)) {
			var out []any
			var err error
			pan, msg := guard(func() { out, err = f() })
			emit(path, out, err, pan, msg)
		}
		projectRows := func(rr parquet.RowReader) ([]any, error) {
			out := []any{}
			rbuf := make([]parquet.Row, 2)
			for {
				n, err := rr.ReadRows(rbuf)
				for _, row := range rbuf[:n] {
					v := reflect.New(tgtType)
					if e := tgtSchema.Reconstruct(v.Interface(), row); e != nil {
						return out, e
					}
					out = append(out, c03Project(tgtSchema, v.Elem(), true))
				}
				if err != nil {
					if err == io.EOF {
						return out, nil
					}
					return out, err
				}
				if n == 0 {
					return out, io.ErrNoProgress
				}
			}
		}
		run("NewReader(file, schema).Read", func() ([]any, error) {
			r := parquet.NewReader(open(), tgtSchema)
			defer r.Close()
			out := []any{}
			for {
				v := reflect.New(tgtType)
				err := r.Read(v.Interface())
				if err == io.EOF {
					return out, nil
				}
				if err != nil {
					return out, err
				}
				out = append(out, c03Project(tgtSchema, v.Elem(), true))
			}
		})
		run("NewReader(file, schema).ReadRows", func() ([]any, error) {
			r := parquet.NewReader(open(), tgtSchema)
			defer r.Close()
			return projectRows(r)
		})
		run("ConvertRowGroup", func() ([]any, error) {
			conv, err := parquet.Convert(tgtSchema, srcSchema)
			if err != nil {
				return nil, err
			}
			rr := parquet.ConvertRowGroup(open().RowGroups()[0], conv).Rows()
			defer rr.Close()
			return projectRows(rr)
		})
		run("CopyRows", func() ([]any, error) {
			out := new(bytes.Buffer)
			w := parquet.NewWriter(out, tgtSchema)
			rr := open().RowGroups()[0].Rows()
			defer rr.Close()
			if _, err := parquet.CopyRows(w, rr); err != nil {
				return nil, err
			}
			if err := w.Close(); err != nil {
				return nil, err
			}
			f, err := parquet.OpenFile(bytes.NewReader(out.Bytes()), int64(out.Len()))
			if err != nil {
				return nil, err
			}
			r2 := f.RowGroups()[0].Rows()
			defer r2.Close()
			return projectRows(r2)
		})
		// other row sources of CopyRows: an in-memory RowBuffer (its Rows() can write themselves: RowWriterTo)
		// and a Buffer, copied into a writer and into a Buffer of the target schema
		for _, kind := range []string{"RowBuffer->Writer", "Buffer->Buffer", "RowBuffer->Buffer"} {
			run("CopyRows("+kind+")", func() ([]any, error) {
				var src parquet.Rows
				if kind[:3] == "Row" {
					rb := parquet.NewRowBuffer[any](srcSchema)
					for _, v := range vals {
						if _, err := rb.WriteRows([]parquet.Row{srcSchema.Deconstruct(nil, v.Interface())}); err != nil {
							return nil, err
						}
					}
					src = rb.Rows()
				} else {
					b := parquet.NewBuffer(srcSchema)
					for _, v := range vals {
						if err := b.Write(v.Interface()); err != nil {
							return nil, err
						}
					}
					src = b.Rows()
				}
				defer src.Close()
				if kind[len(kind)-6:] == "Writer" {
					out := new(bytes.Buffer)
					w := parquet.NewWriter(out, tgtSchema)
					if _, err := parquet.CopyRows(w, src); err != nil {
						return nil, err
					}
					if err := w.Close(); err != nil {
						return nil, err
					}
					f, err := parquet.OpenFile(bytes.NewReader(out.Bytes()), int64(out.Len()))
					if err != nil {
						return nil, err
					}
					r2 := f.RowGroups()[0].Rows()
					defer r2.Close()
					return projectRows(r2)
				}
				dst := parquet.NewBuffer(tgtSchema)
				if _, err := parquet.CopyRows(dst, src); err != nil {
					return nil, err
				}
				r2 := dst.Rows()
				defer r2.Close()
				return projectRows(r2)
			})
		}
		run("MergeRowGroups(schema)", func() ([]any, error) {
			m, err := parquet.MergeRowGroups([]parquet.RowGroup{open().RowGroups()[0]}, tgtSchema)
			if err != nil {
				return nil, err
			}
			rr := m.Rows()
			defer rr.Close()
			return projectRows(rr)
		})
	}
	return nil
}
