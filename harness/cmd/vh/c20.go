package main

import (
	"bytes"
	"crypto/sha256"
	"os"
	"strconv"
	"sync"
	"time"

	"github.com/parquet-go/parquet-go"
	"github.com/parquet-go/parquet-go/compress"
)

// C20: codecs are lossless whatever was compressed before.
// A scenario is a history of calls on the SHARED package-level codec values:
// round trips of valid payloads, decodes of invalid inputs, concurrent round
// trips. Every call is announced by a flushed "Call" event so that a death of
// the process inside the library is attributable.

func init() { commands["c20"] = c20Main }

type c20Op struct {
	Kind string `json:"kind"` // valid | badhdr | badbody
	K    int    `json:"k"`
}

type c20Scenario struct {
	ID    int     `json:"id"`
	Orig  int     `json:"orig,omitempty"`
	Ops   []c20Op `json:"ops"`
	Codec string  `json:"codec,omitempty"`
}

var c20Codecs = []string{"snappy", "gzip", "brotli", "zstd", "lz4", "none"}

func c20Codec(name string) compress.Codec {
	if name == "none" {
		return &parquet.Uncompressed
	}
	return wCodec(name)
}

func c20Payload(k int, r *rng) []byte {
	switch k % 5 {
	case 0:
		return []byte{}
	case 1:
		return []byte("a")
	case 2: // incompressible
		b := make([]byte, 100+r.intn(3000))
		for i := range b {
			b[i] = byte(r.next())
		}
		return b
	case 3: // highly compressible
		return bytes.Repeat([]byte{byte(k)}, 1+r.intn(70000))
	default:
		return bytes.Repeat([]byte("the quick brown fox jumps over the lazy dog "), 1+r.intn(50))
	}
}

func c20Dst(class int) []byte {
	switch class % 4 {
	case 0:
		return nil
	case 1:
		return make([]byte, 0, 1)
	case 2:
		b := make([]byte, 64)
		for i := range b {
			b[i] = 0xA5
		}
		return b[:7]
	default:
		b := make([]byte, 1<<17)
		for i := range b {
			b[i] = 0x5A
		}
		return b[:0]
	}
}

// c20Guard runs f like guard, but gives up after a deadline: a call that does not return is
// reported as a hang and the process exits (the goroutine cannot be stopped); the driver restarts
// the harness with the following scenarios.
func c20Guard(tr *tracer, op string, f func()) (panicked bool, msg string) {
	done := make(chan struct{})
	go func() {
		defer close(done)
		panicked, msg = guard(f)
	}()
	select {
	case <-done:
		return panicked, msg
	case <-time.After(15 * time.Second):
		tr.emit("Ret", ev{"op": op, "hang": 1, "panic": 0, "err": 0, "same": 0, "encErr": 0, "decErr": 0, "bad": 0})
		tr.flush()
		os.Exit(3)
		return false, ""
	}
}

func c20Main(args []string) error {
	seed, _ := strconv.ParseUint(argValue(args, "--seed", "1"), 10, 64)
	startT, _ := strconv.Atoi(argValue(args, "--first-trace", "1"))
	scs, err := readScenarios[c20Scenario](argValue(args, "--scenarios", "-"))
	if err != nil {
		return err
	}
	tr := newTracer(os.Stdout)
	tr.t = startT - 1
	defer tr.flush()
	for si := range scs {
		sc := &scs[si]
		rid := sc.ID
		if sc.Orig != 0 {
			rid = sc.Orig
		}
		codecs := c20Codecs
		if sc.Codec != "" {
			codecs = []string{sc.Codec}
		}
		for _, name := range codecs {
			r := newRng(seed ^ uint64(rid)*0x9E3779B1 ^ hashString(name))
			codec := c20Codec(name)
			tr.begin(ev{"sc": sc.ID, "codec": name})
			tr.flush()
			for _, op := range sc.Ops {
				switch op.Kind {
				case "valid":
					x := c20Payload(op.K, r)
					if r.intn(4) == 0 {
						// concurrent round trips on the shared codec value
						n := 2 + r.intn(6)
						tr.emit("Call", ev{"op": "par", "n": n})
						tr.flush()
						var wg sync.WaitGroup
						var mu sync.Mutex
						badCount, panics := 0, 0
						for g := 0; g < n; g++ {
							wg.Add(1)
							go func(g int) {
								defer wg.Done()
								y := append([]byte{byte(g)}, x...)
								pan, _ := guard(func() {
									enc, e1 := codec.Encode(c20Dst(g), y)
									dec, e2 := codec.Decode(c20Dst(g+1), enc)
									if e1 != nil || e2 != nil || !bytes.Equal(dec, y) {
										mu.Lock()
										badCount++
										mu.Unlock()
									}
								})
								if pan {
									mu.Lock()
									panics++
									mu.Unlock()
								}
							}(g)
						}
						wg.Wait()
						tr.emit("Ret", ev{"op": "par", "n": n, "bad": badCount, "panic": b2i(panics > 0)})
						continue
					}
					d1, d2 := r.intn(4), r.intn(4)
					tr.emit("Call", ev{"op": "rt", "len": len(x), "dst": d1})
					tr.flush()
					var enc, dec []byte
					var e1, e2 error
					pan, msg := c20Guard(tr, "rt", func() {
						enc, e1 = codec.Encode(c20Dst(d1), x)
						if e1 == nil {
							dec, e2 = codec.Decode(c20Dst(d2), enc)
						}
					})
					hx, hd := sha256.Sum256(x), sha256.Sum256(dec)
					e := ev{"op": "rt", "len": len(x), "encLen": len(enc), "same": b2i(hx == hd && len(x) == len(dec)),
						"encErr": b2i(e1 != nil), "decErr": b2i(e2 != nil), "panic": b2i(pan)}
					if pan {
						e["msg"] = msg
					} else if e1 != nil {
						e["msg"] = e1.Error()
					} else if e2 != nil {
						e["msg"] = e2.Error()
					}
					tr.emit("Ret", e)
				default:
					// invalid input for Decode
					var y []byte
					switch {
					case op.Kind == "badhdr" && r.intn(3) == 0:
						y = []byte{}
					case op.Kind == "badhdr":
						y = []byte("garbage-not-compressed-data")
					default: // badbody: a valid stream truncated, with a flipped byte, or followed by another stream
						x := c20Payload(2+r.intn(3), r)
						enc, _ := codec.Encode(nil, x)
						if len(enc) > 4 {
							switch r.intn(3) {
							case 0:
								y = enc[:len(enc)/2]
							case 1:
								enc2, _ := codec.Encode(nil, c20Payload(4, r))
								y = append(append([]byte{}, enc...), enc2...)
							default:
								y = append([]byte{}, enc...)
								y[len(y)/2] ^= 0x55
							}
						} else {
							y = []byte{1, 2, 3}
						}
					}
					d := r.intn(4)
					tr.emit("Call", ev{"op": "bad", "kind": op.Kind, "len": len(y), "dst": d})
					tr.flush()
					var derr error
					var out []byte
					pan, msg := c20Guard(tr, "bad", func() { out, derr = codec.Decode(c20Dst(d), y) })
					e := ev{"op": "bad", "err": b2i(derr != nil), "panic": b2i(pan), "outLen": len(out)}
					if pan {
						e["msg"] = msg
					} else if derr != nil {
						e["msg"] = derr.Error()
					}
					tr.emit("Ret", e)
				}
			}
			tr.flush()
		}
	}
	return nil
}
