package main

import (
	"bytes"
	"encoding/json"
	"fmt"
	"io"
	"os"
	"reflect"
	"strconv"
	"strings"

	"github.com/parquet-go/parquet-go"
)

// C03: every ingestion path shreds a Go value into the same Dremel streams.
//
// Scenarios carry a schema tree (dynamic universe) or the name of a static
// catalogue type, plus value trees for the rows. The harness builds the Go
// values from the trees (concretisation), hands them to the library through
// every applicable entry point and records the stored (token, r, d) streams.
// Dremel.tla (ShredMon.tla) computes the expected streams and judges.

func init() {
	commands["c03"] = c03Main
	commands["c03-catalogue"] = c03Catalogue
}

type c03Tree struct {
	K      string     `json:"k"`
	Rep    string     `json:"rep"`
	Fields []*c03Tree `json:"fields"`
	Name   string     `json:"name"`
	LT     string     `json:"lt"`
}

type c03Scenario struct {
	ID     int      `json:"id"`
	Type   string   `json:"type,omitempty"`
	Schema *c03Tree `json:"schema,omitempty"`
	Rows   []any    `json:"rows,omitempty"`
	Value  any      `json:"value,omitempty"` // single-row scenarios
	Paths  []string `json:"paths,omitempty"`
	// pattern scenarios: one row per bit (repeated Scale times); optional top-level
	// fields are present where the bit is 1 (odd fields use the inverted bit)
	Pattern []int   `json:"pattern,omitempty"`
	Scale   int     `json:"scale,omitempty"`
	Seed    *uint64 `json:"seed,omitempty"`
}

// ---------------------------------------------------------------- schema trees

func c03RepOf(n parquet.Node) string {
	switch {
	case n.Optional():
		return "opt"
	case n.Repeated():
		return "rep"
	}
	return "req"
}

func c03TreeOf(name string, n parquet.Node) *c03Tree {
	t := &c03Tree{Name: name, Rep: c03RepOf(n), Fields: []*c03Tree{}}
	if n.Leaf() {
		t.K = "leaf"
		return t
	}
	t.K = "group"
	if isList(n) {
		t.LT = "LIST"
	} else if isMap(n) {
		t.LT = "MAP"
	}
	for _, f := range n.Fields() {
		t.Fields = append(t.Fields, c03TreeOf(f.Name(), f))
	}
	return t
}

// dynamic Go type for a schema tree: opt -> pointer, rep -> slice, group -> struct, leaf -> int64
func c03GoType(t *c03Tree, asReq bool) reflect.Type {
	if !asReq {
		switch t.Rep {
		case "opt":
			return reflect.PointerTo(c03GoType(t, true))
		case "rep":
			return reflect.SliceOf(c03GoType(t, true))
		}
	}
	if t.K == "leaf" {
		return reflect.TypeOf(int64(0))
	}
	fields := make([]reflect.StructField, len(t.Fields))
	for i, f := range t.Fields {
		name := "F" + strconv.Itoa(i+1)
		fields[i] = reflect.StructField{
			Name: name,
			Type: c03GoType(f, false),
			Tag:  reflect.StructTag(`parquet:"` + strings.ToLower(name) + `"`),
		}
	}
	return reflect.StructOf(fields)
}

// -------------------------------------------------------------- leaf concretisation

func c03SetLeaf(dst reflect.Value, tok int) {
	switch dst.Kind() {
	case reflect.Int32, reflect.Int64, reflect.Int, reflect.Int16, reflect.Int8:
		dst.SetInt(int64(tok))
	case reflect.Uint32, reflect.Uint64, reflect.Uint16, reflect.Uint8, reflect.Uint:
		dst.SetUint(uint64(tok))
	case reflect.Float32, reflect.Float64:
		dst.SetFloat(float64(tok) + 0.5)
	case reflect.String:
		dst.SetString("t" + strconv.Itoa(tok))
	case reflect.Bool:
		dst.SetBool(tok != 0)
	case reflect.Array: // [16]byte and friends
		n := dst.Len()
		dst.Index(n - 1).SetUint(uint64(tok & 0xff))
		dst.Index(n - 2).SetUint(uint64((tok >> 8) & 0xff))
	case reflect.Slice: // []byte
		dst.SetBytes([]byte("t" + strconv.Itoa(tok)))
	default:
		panic("c03SetLeaf: unsupported leaf kind " + dst.Kind().String())
	}
}

func c03LeafToken(v parquet.Value) int {
	if v.IsNull() {
		return 0
	}
	switch v.Kind() {
	case parquet.Int32:
		return int(v.Int32())
	case parquet.Int64:
		return int(v.Int64())
	case parquet.Float:
		x := float64(v.Float()) - 0.5
		if x != float64(int(x)) {
			return alien
		}
		return int(x)
	case parquet.Double:
		x := v.Double() - 0.5
		if x != float64(int(x)) {
			return alien
		}
		return int(x)
	case parquet.Boolean:
		if v.Boolean() {
			return 1
		}
		return -2
	case parquet.ByteArray:
		b := string(v.ByteArray())
		if !strings.HasPrefix(b, "t") {
			return alien
		}
		n, err := strconv.Atoi(b[1:])
		if err != nil {
			return alien
		}
		return n
	case parquet.FixedLenByteArray:
		b := v.ByteArray()
		if len(b) < 2 {
			return alien
		}
		for _, x := range b[:len(b)-2] {
			if x != 0 {
				return alien
			}
		}
		return int(b[len(b)-2])<<8 | int(b[len(b)-1])
	}
	return alien
}

// ------------------------------------------------ tree -> Go value (concretisation)

func isList(n parquet.Node) bool {
	lt := n.Type().LogicalType()
	return !n.Leaf() && lt != nil && lt.String() == "LIST"
}
func isMap(n parquet.Node) bool {
	lt := n.Type().LogicalType()
	return !n.Leaf() && lt != nil && lt.String() == "MAP"
}

type c03Builder struct {
	r *rng // chooses nil vs empty for empty plain repeated fields
}

func seqOf(tr any) []any {
	s, ok := tr.([]any)
	if !ok {
		panic(fmt.Sprintf("value tree: expected a sequence, got %T %v", tr, tr))
	}
	return s
}

// fill sets dst (settable) from the value tree tr of schema node n.
func (b *c03Builder) fill(n parquet.Node, dst reflect.Value, tr any, asReq bool) {
	if !asReq && n.Optional() {
		s := seqOf(tr)
		if len(s) == 0 {
			return // zero value: nil pointer / nil slice / zero scalar
		}
		if dst.Kind() == reflect.Ptr {
			dst.Set(reflect.New(dst.Type().Elem()))
			b.fill(n, dst.Elem(), s[0], true)
		} else {
			b.fill(n, dst, s[0], true)
		}
		return
	}
	if !asReq && n.Repeated() {
		s := seqOf(tr)
		if len(s) == 0 {
			if b.r.intn(2) == 0 {
				dst.Set(reflect.MakeSlice(dst.Type(), 0, 0))
			}
			return
		}
		sl := reflect.MakeSlice(dst.Type(), len(s), len(s))
		for i := range s {
			b.fill(n, sl.Index(i), s[i], true)
		}
		dst.Set(sl)
		return
	}
	for dst.Kind() == reflect.Ptr { // required node behind a pointer
		if dst.IsNil() {
			dst.Set(reflect.New(dst.Type().Elem()))
		}
		dst = dst.Elem()
	}
	if n.Leaf() {
		c03SetLeaf(dst, int(tr.(float64)))
		return
	}
	if isList(n) && dst.Kind() == reflect.Slice {
		// group { repeated group list { element } }
		listNode := n.Fields()[0]
		elemNode := listNode.Fields()[0]
		elems := seqOf(seqOf(tr)[0])
		sl := reflect.MakeSlice(dst.Type(), len(elems), len(elems))
		for i := range elems {
			b.fill(elemNode, sl.Index(i), seqOf(elems[i])[0], false)
		}
		dst.Set(sl)
		return
	}
	if isMap(n) && dst.Kind() == reflect.Map {
		kvNode := n.Fields()[0]
		kNode, vNode := kvNode.Fields()[0], kvNode.Fields()[1]
		kvs := seqOf(seqOf(tr)[0])
		m := reflect.MakeMapWithSize(dst.Type(), len(kvs))
		for i := range kvs {
			kv := seqOf(kvs[i])
			k := reflect.New(dst.Type().Key()).Elem()
			v := reflect.New(dst.Type().Elem()).Elem()
			b.fill(kNode, k, kv[0], false)
			b.fill(vNode, v, kv[1], false)
			m.SetMapIndex(k, v)
		}
		dst.Set(m)
		return
	}
	s := seqOf(tr)
	for i, f := range n.Fields() {
		b.fill(f, f.Value(dst), s[i], false)
	}
}

// project is the inverse of fill: a Go value as a value tree (used for Reconstruct).
func c03Project(n parquet.Node, v reflect.Value, asReq bool) any {
	if !asReq && n.Optional() {
		if v.Kind() == reflect.Ptr {
			if v.IsNil() {
				return []any{}
			}
			return []any{c03Project(n, v.Elem(), true)}
		}
		if (v.Kind() == reflect.Slice || v.Kind() == reflect.Map) && v.Len() == 0 && v.IsNil() {
			return []any{}
		}
		if v.IsZero() {
			return []any{}
		}
		return []any{c03Project(n, v, true)}
	}
	if !asReq && n.Repeated() {
		out := []any{}
		for i := 0; i < v.Len(); i++ {
			out = append(out, c03Project(n, v.Index(i), true))
		}
		return out
	}
	for v.Kind() == reflect.Ptr {
		if v.IsNil() {
			v = reflect.Zero(v.Type().Elem())
		} else {
			v = v.Elem()
		}
	}
	if n.Leaf() {
		switch v.Kind() {
		case reflect.Int32, reflect.Int64, reflect.Int, reflect.Int16, reflect.Int8:
			return int(v.Int())
		case reflect.Uint32, reflect.Uint64, reflect.Uint16, reflect.Uint8, reflect.Uint:
			return int(v.Uint())
		case reflect.Float32, reflect.Float64:
			x := v.Float() - 0.5
			if x != float64(int(x)) {
				return alien
			}
			return int(x)
		case reflect.String:
			s := v.String()
			if k, err := strconv.Atoi(strings.TrimPrefix(s, "t")); err == nil && strings.HasPrefix(s, "t") {
				return k
			}
			return alien
		case reflect.Bool:
			return b2i(v.Bool())
		case reflect.Array:
			n := v.Len()
			return int(v.Index(n-2).Uint())<<8 | int(v.Index(n-1).Uint())
		case reflect.Slice:
			s := string(v.Bytes())
			if k, err := strconv.Atoi(strings.TrimPrefix(s, "t")); err == nil && strings.HasPrefix(s, "t") {
				return k
			}
			return alien
		}
		return alien
	}
	if isList(n) && v.Kind() == reflect.Slice {
		elemNode := n.Fields()[0].Fields()[0]
		elems := []any{}
		for i := 0; i < v.Len(); i++ {
			elems = append(elems, []any{c03Project(elemNode, v.Index(i), false)})
		}
		return []any{elems}
	}
	if isMap(n) && v.Kind() == reflect.Map {
		kvNode := n.Fields()[0]
		kvs := []any{}
		iter := v.MapRange()
		for iter.Next() {
			kvs = append(kvs, []any{c03Project(kvNode.Fields()[0], iter.Key(), false), c03Project(kvNode.Fields()[1], iter.Value(), false)})
		}
		return []any{kvs}
	}
	out := []any{}
	for _, f := range n.Fields() {
		out = append(out, c03Project(f, f.Value(v), false))
	}
	return out
}

// renumber replaces every leaf token of the tree by a counter in traversal order.
func c03Renumber(t *c03Tree, tr any, asReq bool, next *int, boolLeaf func(*c03Tree) bool) any {
	if !asReq && (t.Rep == "opt" || t.Rep == "rep") {
		s := seqOf(tr)
		out := make([]any, len(s))
		for i := range s {
			out[i] = c03Renumber(t, s[i], true, next, boolLeaf)
		}
		return out
	}
	if t.K == "leaf" {
		if boolLeaf != nil && boolLeaf(t) {
			return float64(1)
		}
		*next++
		return float64(*next)
	}
	s := seqOf(tr)
	if t.LT == "MAP" && len(s) == 1 {
		// Go map iteration order is random: keep at most one entry so that the
		// stored order is a function of the value
		if kvs := seqOf(s[0]); len(kvs) > 1 {
			s = []any{kvs[:1]}
		}
	}
	out := make([]any, len(s))
	for i, f := range t.Fields {
		out[i] = c03Renumber(f, s[i], false, next, boolLeaf)
	}
	return out
}

// ------------------------------------------------------------------ stream readback

type c03Entry = [3]int

func c03StreamsOfChunks(chunks []parquet.ColumnChunk) ([][]c03Entry, error) {
	out := make([][]c03Entry, len(chunks))
	for i, c := range chunks {
		out[i] = []c03Entry{}
		pages := c.Pages()
		for {
			p, err := pages.ReadPage()
			if err == io.EOF {
				break
			}
			if err != nil {
				pages.Close()
				return nil, err
			}
			vr := p.Values()
			buf := make([]parquet.Value, 64)
			for {
				n, err := vr.ReadValues(buf)
				for _, v := range buf[:n] {
					out[i] = append(out[i], c03Entry{c03LeafToken(v), v.RepetitionLevel(), v.DefinitionLevel()})
				}
				if err != nil || n == 0 {
					break
				}
			}
			parquet.Release(p)
		}
		pages.Close()
	}
	return out, nil
}

func c03StreamsOfFile(data []byte) ([][]c03Entry, error) {
	f, err := parquet.OpenFile(bytes.NewReader(data), int64(len(data)))
	if err != nil {
		return nil, err
	}
	var out [][]c03Entry
	for _, rg := range f.RowGroups() {
		s, err := c03StreamsOfChunks(rg.ColumnChunks())
		if err != nil {
			return nil, err
		}
		if out == nil {
			out = s
		} else {
			for i := range s {
				out[i] = append(out[i], s[i]...)
			}
		}
	}
	if out == nil {
		out = make([][]c03Entry, len(f.Schema().Columns()))
		for i := range out {
			out[i] = []c03Entry{}
		}
	}
	return out, nil
}

func c03StreamsOfRows(ncols int, rows []parquet.Row) [][]c03Entry {
	out := make([][]c03Entry, ncols)
	for i := range out {
		out[i] = []c03Entry{}
	}
	for _, row := range rows {
		for _, v := range row {
			c := v.Column()
			if c < 0 || c >= ncols {
				continue
			}
			out[c] = append(out[c], c03Entry{c03LeafToken(v), v.RepetitionLevel(), v.DefinitionLevel()})
		}
	}
	return out
}

// -------------------------------------------------------------------- the paths

type c03Emit func(path string, streams [][]c03Entry, err error)

// untyped paths work for any Go type (static or built with reflect.StructOf)
func c03Untyped(schema *parquet.Schema, vals []reflect.Value, want func(string) bool, emit c03Emit) {
	ncols := len(schema.Columns())
	run := func(path string, f func() ([][]c03Entry, error)) {
		if !want(path) {
			return
		}
		var s [][]c03Entry
		var err error
		if pan, msg := guard(func() { s, err = f() }); pan {
			err = fmt.Errorf("panic: %s", msg)
		}
		emit(path, s, err)
	}
	run("Writer.Write", func() ([][]c03Entry, error) {
		buf := new(bytes.Buffer)
		w := parquet.NewWriter(buf, schema)
		for _, v := range vals {
			if err := w.Write(v.Interface()); err != nil {
				return nil, err
			}
		}
		if err := w.Close(); err != nil {
			return nil, err
		}
		return c03StreamsOfFile(buf.Bytes())
	})
	run("Buffer.Write", func() ([][]c03Entry, error) {
		b := parquet.NewBuffer(schema)
		for _, v := range vals {
			if err := b.Write(v.Interface()); err != nil {
				return nil, err
			}
		}
		return c03StreamsOfChunks(b.ColumnChunks())
	})
	run("GenericWriter[any].Write", func() ([][]c03Entry, error) {
		buf := new(bytes.Buffer)
		w := parquet.NewGenericWriter[any](buf, schema)
		rows := make([]any, len(vals))
		for i, v := range vals {
			rows[i] = v.Interface()
		}
		if _, err := w.Write(rows); err != nil {
			return nil, err
		}
		if err := w.Close(); err != nil {
			return nil, err
		}
		return c03StreamsOfFile(buf.Bytes())
	})
	run("GenericBuffer[any].Write", func() ([][]c03Entry, error) {
		b := parquet.NewGenericBuffer[any](schema)
		rows := make([]any, len(vals))
		for i, v := range vals {
			rows[i] = v.Interface()
		}
		if _, err := b.Write(rows); err != nil {
			return nil, err
		}
		return c03StreamsOfChunks(b.ColumnChunks())
	})
	var drows []parquet.Row
	run("Schema.Deconstruct", func() ([][]c03Entry, error) {
		var rows []parquet.Row
		for _, v := range vals {
			rows = append(rows, schema.Deconstruct(nil, v.Interface()))
		}
		drows = rows // only when every row could be deconstructed
		return c03StreamsOfRows(ncols, drows), nil
	})
	if drows == nil {
		return
	}
	run("Writer.WriteRows(Deconstruct)", func() ([][]c03Entry, error) {
		buf := new(bytes.Buffer)
		w := parquet.NewWriter(buf, schema)
		if _, err := w.WriteRows(drows); err != nil {
			return nil, err
		}
		if err := w.Close(); err != nil {
			return nil, err
		}
		return c03StreamsOfFile(buf.Bytes())
	})
	run("Buffer.WriteRows(Deconstruct)", func() ([][]c03Entry, error) {
		b := parquet.NewBuffer(schema)
		if _, err := b.WriteRows(drows); err != nil {
			return nil, err
		}
		return c03StreamsOfChunks(b.ColumnChunks())
	})
	run("ColumnWriters.WriteRowValues", func() ([][]c03Entry, error) {
		buf := new(bytes.Buffer)
		w := parquet.NewWriter(buf, schema)
		cws := w.ColumnWriters()
		for _, row := range drows {
			cols := make([][]parquet.Value, ncols)
			for _, v := range row {
				cols[v.Column()] = append(cols[v.Column()], v)
			}
			for c, vs := range cols {
				if _, err := cws[c].WriteRowValues(vs); err != nil {
					return nil, err
				}
			}
		}
		if err := w.Close(); err != nil {
			return nil, err
		}
		return c03StreamsOfFile(buf.Bytes())
	})
}

// typed paths need a static instantiation
type c03Static struct {
	name string
	// tag names a Go-side feature of the type that the schema tree does not show;
	// the monitor appends it to the class of anything it flags for this type
	tag   string
	typ   reflect.Type
	typed func(vals []reflect.Value, want func(string) bool, emit c03Emit)
}

func c03Reg[T any](name string) c03Static {
	return c03Static{
		name: name,
		typ:  reflect.TypeOf((*T)(nil)).Elem(),
		typed: func(vals []reflect.Value, want func(string) bool, emit c03Emit) {
			rows := make([]T, len(vals))
			for i, v := range vals {
				rows[i] = v.Interface().(T)
			}
			run := func(path string, f func() ([][]c03Entry, error)) {
				if !want(path) {
					return
				}
				var s [][]c03Entry
				var err error
				if pan, msg := guard(func() { s, err = f() }); pan {
					err = fmt.Errorf("panic: %s", msg)
				}
				emit(path, s, err)
			}
			run("GenericWriter[T].Write", func() ([][]c03Entry, error) {
				buf := new(bytes.Buffer)
				w := parquet.NewGenericWriter[T](buf)
				if _, err := w.Write(rows); err != nil {
					return nil, err
				}
				if err := w.Close(); err != nil {
					return nil, err
				}
				return c03StreamsOfFile(buf.Bytes())
			})
			run("GenericWriter[T].Write(one by one)", func() ([][]c03Entry, error) {
				buf := new(bytes.Buffer)
				w := parquet.NewGenericWriter[T](buf)
				for i := range rows {
					if _, err := w.Write(rows[i : i+1]); err != nil {
						return nil, err
					}
				}
				if err := w.Close(); err != nil {
					return nil, err
				}
				return c03StreamsOfFile(buf.Bytes())
			})
			run("GenericBuffer[T].Write", func() ([][]c03Entry, error) {
				b := parquet.NewGenericBuffer[T]()
				if _, err := b.Write(rows); err != nil {
					return nil, err
				}
				return c03StreamsOfChunks(b.ColumnChunks())
			})
			run("RowBuffer[T].Write", func() ([][]c03Entry, error) {
				b := parquet.NewRowBuffer[T]()
				if _, err := b.Write(rows); err != nil {
					return nil, err
				}
				return c03StreamsOfChunks(b.ColumnChunks())
			})
		},
	}
}

// ---------------------------------------------------------------- the catalogue

type C03Base struct {
	B1 int64  `parquet:"b1"`
	B2 *int64 `parquet:"b2"`
}

type c03OptI32 struct {
	O int32 `parquet:"o,optional"`
}
type c03OptPtr struct {
	P *int64 `parquet:"p"`
}
type c03OptStr struct {
	S string `parquet:"s,optional"`
}
type c03Mixed struct {
	A int64   `parquet:"a"`
	O int32   `parquet:"o,optional"`
	P *string `parquet:"p"`
	L []int64 `parquet:"l"`
	D float64 `parquet:"d,optional"`
}
type c03ListReq struct {
	L []int64 `parquet:"l,list"`
}
type c03ListOpt struct {
	L []int64 `parquet:"l,optional,list"`
}
type c03ListOfStruct struct {
	L []struct {
		X int64  `parquet:"x"`
		Y *int64 `parquet:"y"`
	} `parquet:"l,list"`
}
type c03Nested struct {
	G struct {
		A int64   `parquet:"a"`
		B []int64 `parquet:"b"`
	} `parquet:"g"`
	H *struct {
		C int64  `parquet:"c"`
		D *int64 `parquet:"d"`
	} `parquet:"h"`
}
type c03RepGroup struct {
	R []struct {
		X int64   `parquet:"x"`
		Z []int64 `parquet:"z"`
	} `parquet:"r"`
}
type c03NestedList struct {
	LL [][]int64 `parquet:"ll,list"`
}
type c03Map struct {
	M map[string]int64 `parquet:"m"`
}
type c03Embedded struct {
	C03Base
	X int64 `parquet:"x"`
}
// two levels of embedding; the first level does not sit at offset zero of the row type
type C03Inner struct {
	Z int64 `parquet:"z,optional"`
	Q int64 `parquet:"q"`
}
type C03Middle struct {
	Y int64 `parquet:"y"`
	C03Inner
	W *int64 `parquet:"w"`
}
type c03Embedded2 struct {
	X int64 `parquet:"x"`
	C03Middle
	V int64 `parquet:"v,optional"`
}
type c03OptGroup struct {
	G struct {
		A int64 `parquet:"a"`
		B int64 `parquet:"b,optional"`
	} `parquet:"g,optional"`
	T int64 `parquet:"t"`
}
type c03Fixed struct {
	U [16]byte `parquet:"u,uuid"`
	O float64  `parquet:"o,optional"`
	F float32  `parquet:"f,optional"`
}
type c03Wide struct {
	A int32  `parquet:"a,optional"`
	B int64  `parquet:"b,optional"`
	C string `parquet:"c,optional"`
	D *int32 `parquet:"d"`
	E uint32 `parquet:"e,optional"`
	F []byte `parquet:"f,optional"`
}
type c03OptInOpt struct {
	P *struct {
		A *int64 `parquet:"a"`
		B int64  `parquet:"b,optional"`
	} `parquet:"p"`
	Q int64 `parquet:"q"`
}
type c03OptListOfOpt struct {
	L []*int64 `parquet:"l,optional,list"`
}

// a LIST whose elements are optional although the Go element type is not a pointer
type c03ListOptElem struct {
	L []int64 `parquet:"l,list" parquet-element:",optional"`
	Q int64   `parquet:"q"`
}

var c03Statics = []c03Static{
	c03Reg[c03OptI32]("OptI32"),
	c03Reg[c03OptPtr]("OptPtr"),
	c03Reg[c03OptStr]("OptStr"),
	c03Reg[c03Mixed]("Mixed"),
	c03Reg[c03ListReq]("ListReq"),
	c03Reg[c03ListOpt]("ListOpt"),
	c03Reg[c03ListOfStruct]("ListOfStruct"),
	c03Reg[c03Nested]("Nested"),
	c03Reg[c03RepGroup]("RepGroup"),
	c03Reg[c03NestedList]("NestedList"),
	c03Reg[c03Map]("Map"),
	c03Reg[c03Embedded]("Embedded"),
	c03Reg[c03Embedded2]("Embedded2"),
	c03Reg[c03OptGroup]("OptGroup"),
	c03Reg[c03Fixed]("Fixed"),
	c03Reg[c03Wide]("Wide"),
	c03Reg[c03OptInOpt]("OptInOpt"),
	c03Tagged(c03Reg[c03OptListOfOpt]("OptListOfOpt"), "list-of-pointers"),
	c03Reg[c03ListOptElem]("ListOptElem"),
}

func c03Tagged(s c03Static, tag string) c03Static { s.tag = tag; return s }

// c03MarkZeroStructs marks optional groups backed by a non-pointer Go struct: their zero
// value is "null" under the documented mapping, but the typed path stores it as a present
// group of zero children and the reflection path as a null group; generators never draw
// the null value for such nodes (DESIGN.md, C03 exclusions).
func c03MarkZeroStructs(t *c03Tree, n parquet.Node, gt reflect.Type) {
	for gt.Kind() == reflect.Ptr {
		gt = gt.Elem()
	}
	if n.Leaf() || gt.Kind() != reflect.Struct || isList(n) || isMap(n) {
		return
	}
	for i, f := range n.Fields() {
		fv := f.Value(reflect.New(gt).Elem())
		ft := fv.Type()
		if f.Optional() && !f.Leaf() && ft.Kind() == reflect.Struct {
			t.Fields[i].LT = "ZSTRUCT"
		}
		c03MarkZeroStructs(t.Fields[i], f, ft)
	}
}

func c03Catalogue(args []string) error {
	w := json.NewEncoder(os.Stdout)
	for _, st := range c03Statics {
		schema := parquet.SchemaOf(reflect.New(st.typ).Interface())
		tree := c03TreeOf("", schema)
		c03MarkZeroStructs(tree, schema, st.typ)
		if err := w.Encode(map[string]any{"name": st.name, "schema": tree}); err != nil {
			return err
		}
	}
	return nil
}

// ----------------------------------------------------------------------- driver

func c03Main(args []string) error {
	seed, _ := strconv.ParseUint(argValue(args, "--seed", "1"), 10, 64)
	scs, err := readScenarios[c03Scenario](argValue(args, "--scenarios", "-"))
	if err != nil {
		return err
	}
	tr := newTracer(os.Stdout)
	defer tr.flush()
	statics := map[string]c03Static{}
	for _, s := range c03Statics {
		statics[s.name] = s
	}
	for si := range scs {
		sc := &scs[si]
		rows := sc.Rows
		if rows == nil && sc.Pattern == nil {
			rows = []any{sc.Value}
		}
		var goType reflect.Type
		var st *c03Static
		if sc.Type != "" {
			s, ok := statics[sc.Type]
			if !ok {
				return fmt.Errorf("scenario %d: unknown catalogue type %q", sc.ID, sc.Type)
			}
			st = &s
			goType = s.typ
		} else {
			goType = c03GoType(sc.Schema, true)
		}
		schema := parquet.SchemaOf(reflect.New(goType).Interface())
		tree := c03TreeOf("", schema)
		c03MarkZeroStructs(tree, schema, goType)
		if sc.Pattern != nil {
			scale := max(sc.Scale, 1)
			for pi, bit := range sc.Pattern {
				for k := 0; k < scale; k++ {
					row := make([]any, len(tree.Fields))
					for j, f := range tree.Fields {
						on := bit == 1
						if j%2 == 1 {
							on = !on
						}
						_ = on
						row[j] = c03PatternValueAt(f, sc.Pattern, pi, j%2 == 1)
					}
					rows = append(rows, row)
				}
			}
		}
		if sc.Schema != nil && !c03SameShape(sc.Schema, tree) {
			return fmt.Errorf("scenario %d: the library maps the Go type to a different schema shape", sc.ID)
		}
		// concretise: renumber leaves, build Go values
		s := seed
		if sc.Seed != nil {
			s = *sc.Seed
		}
		b := &c03Builder{r: newRng(s ^ uint64(sc.ID)*2654435761)}
		next := 0
		boolLeaf := func(*c03Tree) bool { return false }
		vals := make([]reflect.Value, len(rows))
		numbered := make([]any, len(rows))
		for i, row := range rows {
			numbered[i] = c03Renumber(tree, row, true, &next, boolLeaf)
			v := reflect.New(goType).Elem()
			b.fill(schema, v, numbered[i], true)
			vals[i] = v
		}
		tag := ""
		if st != nil {
			tag = st.tag
		}
		tr.begin(ev{"sc": sc.ID, "type": sc.Type, "tag": tag, "schema": tree, "rows": numbered, "ncols": len(schema.Columns())})
		want := func(path string) bool {
			if len(sc.Paths) == 0 {
				return true
			}
			for _, p := range sc.Paths {
				if p == path {
					return true
				}
			}
			return false
		}
		emit := func(path string, streams [][]c03Entry, err error) {
			e := ev{"path": path, "err": b2i(err != nil)}
			if err != nil {
				e["msg"] = err.Error()
				e["streams"] = [][]c03Entry{}
			} else {
				e["streams"] = streams
			}
			tr.emit("Stored", e)
		}
		c03Untyped(schema, vals, want, emit)
		if st != nil {
			st.typed(vals, want, emit)
		}
		// Reconstruct(Deconstruct(v))
		if want("Schema.Reconstruct") {
			recon := make([]any, len(vals))
			var rerr error
			pan, msg := guard(func() {
				for i, v := range vals {
					row := schema.Deconstruct(nil, v.Interface())
					out := reflect.New(goType)
					if err := schema.Reconstruct(out.Interface(), row); err != nil {
						rerr = err
						return
					}
					recon[i] = c03Project(schema, out.Elem(), true)
				}
			})
			if pan {
				rerr = fmt.Errorf("panic: %s", msg)
			}
			e := ev{"err": b2i(rerr != nil), "rows": recon}
			if rerr != nil {
				e["msg"] = rerr.Error()
				e["rows"] = []any{}
			}
			tr.emit("Recon", e)
		}
	}
	return nil
}

func c03SameShape(a, b *c03Tree) bool {
	if a.K != b.K || a.Rep != b.Rep || len(a.Fields) != len(b.Fields) {
		return false
	}
	for i := range a.Fields {
		if !c03SameShape(a.Fields[i], b.Fields[i]) {
			return false
		}
	}
	return true
}

// c03Default: a fully present value tree for node t (as required when asReq).
func c03Default(t *c03Tree, asReq bool) any {
	if !asReq && t.Rep == "opt" {
		return []any{c03Default(t, true)}
	}
	if !asReq && t.Rep == "rep" {
		return []any{c03Default(t, true)}
	}
	if t.K == "leaf" {
		return float64(1)
	}
	out := make([]any, len(t.Fields))
	for i, f := range t.Fields {
		out[i] = c03Default(f, false)
	}
	return out
}

func c03PatternValue(t *c03Tree, on bool) any {
	if t.Rep == "req" || on || t.LT == "ZSTRUCT" {
		return c03Default(t, false)
	}
	return []any{} // null / empty
}

// c03PatternValueAt: like c03PatternValue, but optional nodes nested inside an optional
// node follow the pattern shifted by their depth, so that consecutive rows mix nulls of
// different definition levels.
func c03PatternValueAt(t *c03Tree, pattern []int, pos int, invert bool) any {
	bit := pattern[pos%len(pattern)] == 1
	if invert {
		bit = !bit
	}
	if t.Rep == "req" {
		return c03PatternInner(t, pattern, pos, invert)
	}
	if t.LT == "ZSTRUCT" {
		return []any{c03PatternInner(t, pattern, pos, invert)}
	}
	if !bit {
		return []any{}
	}
	return []any{c03PatternInner(t, pattern, pos, invert)}
}

func c03PatternInner(t *c03Tree, pattern []int, pos int, invert bool) any {
	if t.K == "leaf" {
		return float64(1)
	}
	out := make([]any, len(t.Fields))
	for i, f := range t.Fields {
		switch f.Rep {
		case "opt":
			out[i] = c03PatternValueAt(f, pattern, pos+1, invert)
		case "rep":
			out[i] = []any{c03Default(f, true)}
		default:
			out[i] = c03PatternInner(f, pattern, pos+1, invert)
		}
	}
	return out
}
