package main

import (
	"bytes"
	"fmt"
	"os"
	"strconv"
	"strings"

	"github.com/parquet-go/parquet-go"
)

// C06: page search. Every scenario is a list of pages (token lists, -1 = null);
// the real writer produces the column index, the real Find/Search is probed
// with every token, and the trace records index, contents and results.

func init() { commands["c06"] = c06Main }

type c06Scenario struct {
	ID    int     `json:"id"`
	Pages [][]int `json:"pages"`
	Kind  string  `json:"kind,omitempty"`
}

type c06Int32 struct {
	V *int32 `parquet:"v,optional"`
}
type c06Bytes struct {
	V *string `parquet:"v,optional"`
}
type c06Double struct {
	V *float64 `parquet:"v,optional"`
}

var c06Kinds = []string{"int32", "bytes", "bytesff", "double"}

const c06MaxTok = 4 // probes 0..4 (the model's V+1)

func c06Str(kind string, t int) string {
	if kind == "bytesff" {
		return "\xff\xff" + string([]byte{byte(t)})
	}
	return "ab" + strconv.Itoa(t)
}

func c06Value(kind string, t int) parquet.Value {
	switch kind {
	case "int32":
		return parquet.Int32Value(int32(t))
	case "double":
		return parquet.DoubleValue(float64(t) - 1.5)
	default:
		return parquet.ByteArrayValue([]byte(c06Str(kind, t)))
	}
}

// c06Project: a leaf value as a lexicographically ordered integer sequence.
func c06Project(kind string, v parquet.Value) []int {
	if v.IsNull() {
		return []int{-1}
	}
	switch kind {
	case "int32":
		if v.Kind() != parquet.Int32 {
			return []int{alien}
		}
		return []int{int(v.Int32())}
	case "double":
		if v.Kind() != parquet.Double {
			return []int{alien}
		}
		x := v.Double() + 1.5
		if x != float64(int(x)) || x < -1000 || x > 1000 {
			return []int{alien}
		}
		return []int{int(x)}
	default:
		out := []int{}
		for _, b := range v.ByteArray() {
			out = append(out, int(b))
		}
		return out
	}
}

func c06Write(kind string, pages [][]int) ([]byte, error) {
	buf := new(bytes.Buffer)
	opts := []parquet.WriterOption{parquet.PageBufferSize(1 << 20)}
	if strings.HasPrefix(kind, "bytes") {
		opts = append(opts, parquet.ColumnIndexSizeLimit(func([]string) int { return 2 }))
	}
	flush := func(cws []*parquet.ColumnWriter) error {
		for _, cw := range cws {
			if err := cw.Flush(); err != nil {
				return err
			}
		}
		return nil
	}
	switch kind {
	case "int32":
		w := parquet.NewGenericWriter[c06Int32](buf, opts...)
		for _, p := range pages {
			rows := make([]c06Int32, len(p))
			for i, t := range p {
				if t >= 0 {
					x := int32(t)
					rows[i].V = &x
				}
			}
			if _, err := w.Write(rows); err != nil {
				return nil, err
			}
			if err := flush(w.ColumnWriters()); err != nil {
				return nil, err
			}
		}
		if err := w.Close(); err != nil {
			return nil, err
		}
	case "double":
		w := parquet.NewGenericWriter[c06Double](buf, opts...)
		for _, p := range pages {
			rows := make([]c06Double, len(p))
			for i, t := range p {
				if t >= 0 {
					x := float64(t) - 1.5
					rows[i].V = &x
				}
			}
			if _, err := w.Write(rows); err != nil {
				return nil, err
			}
			if err := flush(w.ColumnWriters()); err != nil {
				return nil, err
			}
		}
		if err := w.Close(); err != nil {
			return nil, err
		}
	default:
		w := parquet.NewGenericWriter[c06Bytes](buf, opts...)
		for _, p := range pages {
			rows := make([]c06Bytes, len(p))
			for i, t := range p {
				if t >= 0 {
					x := c06Str(kind, t)
					rows[i].V = &x
				}
			}
			if _, err := w.Write(rows); err != nil {
				return nil, err
			}
			if err := flush(w.ColumnWriters()); err != nil {
				return nil, err
			}
		}
		if err := w.Close(); err != nil {
			return nil, err
		}
	}
	return buf.Bytes(), nil
}

func c06Main(args []string) error {
	kindsArg := argValue(args, "--kinds", strings.Join(c06Kinds, ","))
	scs, err := readScenarios[c06Scenario](argValue(args, "--scenarios", "-"))
	if err != nil {
		return err
	}
	tr := newTracer(os.Stdout)
	defer tr.flush()
	for si := range scs {
		sc := &scs[si]
		if len(sc.Pages) == 0 {
			continue // the writer emits no column chunk pages for an empty file
		}
		kinds := strings.Split(kindsArg, ",")
		if sc.Kind != "" {
			kinds = []string{sc.Kind}
		}
		for _, kind := range kinds {
			// a null page holds two nulls; pages with values also get one null to vary null counts
			pages := make([][]int, len(sc.Pages))
			for i, p := range sc.Pages {
				if len(p) == 1 && p[0] == -1 {
					pages[i] = []int{-1, -1}
				} else if (i+len(p))%2 == 0 {
					pages[i] = append(append([]int{}, p...), -1)
				} else {
					pages[i] = p
				}
			}
			data, err := c06Write(kind, pages)
			if err != nil {
				return fmt.Errorf("scenario %d kind %s: write: %w", sc.ID, kind, err)
			}
			f, err := parquet.OpenFile(bytes.NewReader(data), int64(len(data)))
			if err != nil {
				return fmt.Errorf("scenario %d kind %s: open: %w", sc.ID, kind, err)
			}
			chunk := f.RowGroups()[0].ColumnChunks()[0]
			index, err := chunk.ColumnIndex()
			if err != nil {
				return fmt.Errorf("scenario %d kind %s: column index: %w", sc.ID, kind, err)
			}
			n := index.NumPages()
			mins, maxs, nullPage := [][]int{}, [][]int{}, []int{}
			for i := 0; i < n; i++ {
				mins = append(mins, c06Project(kind, index.MinValue(i)))
				maxs = append(maxs, c06Project(kind, index.MaxValue(i)))
				nullPage = append(nullPage, b2i(index.NullPage(i)))
			}
			// page contents as really stored: read the pages back
			contents := [][][]int{}
			pr := chunk.Pages()
			for {
				p, err := pr.ReadPage()
				if err != nil {
					break
				}
				vals := [][]int{}
				vr := p.Values()
				vb := make([]parquet.Value, 16)
				for {
					m, err := vr.ReadValues(vb)
					for _, v := range vb[:m] {
						vals = append(vals, c06Project(kind, v))
					}
					if err != nil || m == 0 {
						break
					}
				}
				contents = append(contents, vals)
				parquet.Release(p)
			}
			pr.Close()
			tr.begin(ev{"sc": sc.ID, "kind": kind, "pages": contents, "min": mins, "max": maxs,
				"nullPage": ints(nullPage), "asc": b2i(index.IsAscending()), "desc": b2i(index.IsDescending()),
				"written": len(pages)})
			typ := chunk.Type()
			for t := 0; t <= c06MaxTok; t++ {
				v := c06Value(kind, t)
				for _, how := range []string{"search", "find-nullsfirst"} {
					var r int
					pan, msg := guard(func() {
						if how == "search" {
							r = parquet.Search(index, v, typ)
						} else {
							r = parquet.Find(index, v, parquet.CompareNullsFirst(typ.Compare))
						}
					})
					e := ev{"v": c06Project(kind, v), "r": r, "how": how, "err": b2i(pan)}
					if pan {
						e["msg"] = msg
					}
					tr.emit("Find", e)
				}
			}
		}
	}
	return nil
}
