package main

import (
	"bytes"
	"errors"
	"fmt"
	"io"
	"os"
	"strconv"
	"strings"

	"github.com/parquet-go/parquet-go"
	"github.com/parquet-go/parquet-go/encoding/thrift"
	"github.com/parquet-go/parquet-go/format"
)

// C13: corruption inside a checksummed page is reported, never returned.
// Scenario = a C08 seek/read history + a fault (column, page or dictionary,
// position class, single bit or 3-byte burst). The fault is applied to a copy
// of the file; the history then runs on every reader kind.

func init() { commands["c13"] = c13Main }

type c13Fault struct {
	Col   string `json:"col"`
	Page  int    `json:"page"`  // -1 = the dictionary page, else data page index in row group 0
	Where int    `json:"where"` // 0 first byte, 1 middle, 2 last byte of the body
	Kind  int    `json:"kind"`  // 0 single bit, 1 three-byte burst
}

type c13Scenario struct {
	c08Scenario
	Fault c13Fault `json:"fault"`
}

type pageBody struct {
	index        int // -1 dictionary page
	start, end   int // body byte range in the file
	firstRow     int
	numRows      int
	dictEncoded  bool
	headerOffset int
}

// pageBodies locates the stored bodies of the pages of one column chunk.
func pageBodies(data []byte, file *parquet.File, rg, leaf int) ([]pageBody, error) {
	md := file.Metadata().RowGroups[rg].Columns[leaf].MetaData
	chunk := file.RowGroups()[rg].ColumnChunks()[leaf]
	oi, err := chunk.OffsetIndex()
	if err != nil || oi == nil {
		return nil, fmt.Errorf("no offset index: %v", err)
	}
	parse := func(off int) (*format.PageHeader, int, error) {
		proto := thrift.CompactProtocol{}
		rd := proto.NewReaderFromBytes(data[off:])
		hdr := new(format.PageHeader)
		if err := thrift.NewDecoder(rd).Decode(hdr); err != nil {
			return nil, 0, err
		}
		return hdr, rd.BytesRead(), nil
	}
	out := []pageBody{}
	if md.DictionaryPageOffset != 0 {
		off := int(md.DictionaryPageOffset)
		hdr, n, err := parse(off)
		if err != nil {
			return nil, err
		}
		out = append(out, pageBody{index: -1, start: off + n, end: off + n + int(hdr.CompressedPageSize), headerOffset: off})
	}
	nrows := int(file.RowGroups()[rg].NumRows())
	for i := 0; i < oi.NumPages(); i++ {
		off := int(oi.Offset(i))
		hdr, n, err := parse(off)
		if err != nil {
			return nil, err
		}
		end := nrows
		if i+1 < oi.NumPages() {
			end = int(oi.FirstRowIndex(i + 1))
		}
		enc := format.Plain
		switch {
		case hdr.DataPageHeaderV2.Valid:
			enc = hdr.DataPageHeaderV2.V.Encoding
		case hdr.DataPageHeader.Valid:
			enc = hdr.DataPageHeader.V.Encoding
		}
		out = append(out, pageBody{index: i, start: off + n, end: off + n + int(hdr.CompressedPageSize),
			firstRow: int(oi.FirstRowIndex(i)), numRows: end - int(oi.FirstRowIndex(i)),
			dictEncoded: enc == format.RLEDictionary || enc == format.PlainDictionary, headerOffset: off})
	}
	return out, nil
}

func flipBytes(data []byte, pb pageBody, where, kind int) []byte {
	out := append([]byte{}, data...)
	n := pb.end - pb.start
	if n <= 0 {
		return out
	}
	pos := pb.start
	switch where {
	case 1:
		pos = pb.start + n/2
	case 2:
		pos = pb.end - 1
	}
	if kind == 0 {
		out[pos] ^= 0x10
	} else {
		for k := 0; k < 3 && pos+k < pb.end; k++ {
			out[pos+k] ^= 0xFF
		}
	}
	return out
}

var c13Layers = []string{"pages", "values", "rows", "rgreader", "reader", "generic", "apages", "arows"}

func c13Main(args []string) error {
	seed, _ := strconv.ParseUint(argValue(args, "--seed", "1"), 10, 64)
	layersArg := argValue(args, "--layers", strings.Join(c13Layers, ","))
	scs, err := readScenarios[c13Scenario](argValue(args, "--scenarios", "-"))
	if err != nil {
		return err
	}
	tr := newTracer(os.Stdout)
	defer tr.flush()
	batch := []int{1, 2, 3, 5, 64}
	for si := range scs {
		sc := &scs[si]
		layers := strings.Split(layersArg, ",")
		if sc.Layer != "" {
			layers = []string{sc.Layer}
		}
		for _, layer0 := range layers {
			rid := sc.ID
			if sc.Orig != 0 {
				rid = sc.Orig
			}
			r := newRng(seed ^ uint64(rid)*1315423911 ^ hashString(layer0))
			variant := r.intn(4)
			if sc.Variant != nil {
				variant = *sc.Variant
			}
			// column-oriented layers read the faulted column or (1 in 4) another one
			layer := layer0
			kind := strings.TrimPrefix(layer0, "a")
			readsCol := ""
			if kind == "pages" || kind == "values" {
				readsCol = sc.Fault.Col
				if strings.Contains(layer0, ":") {
					_, readsCol, _ = strings.Cut(layer0, ":")
					layer = layer0
				} else {
					if r.intn(4) == 0 {
						readsCol = c08Cols[r.intn(len(c08Cols))]
					}
					layer = layer0 + ":" + readsCol
				}
			}
			rd0, bf, itemsCol, err := c08Open(layer, &sc.c08Scenario, variant)
			if err != nil {
				return fmt.Errorf("scenario %d layer %s: %w", sc.ID, layer, err)
			}
			rd0.close()
			// locate and corrupt the target page in row group 0 of the clean file
			clean, err := parquet.OpenFile(bytes.NewReader(bf.data), int64(len(bf.data)))
			if err != nil {
				return err
			}
			leaf := c08Leaf(clean, sc.Fault.Col)
			bodies, err := pageBodies(bf.data, clean, 0, leaf)
			if err != nil {
				return fmt.Errorf("scenario %d: %w", sc.ID, err)
			}
			var target *pageBody
			for i := range bodies {
				if bodies[i].index == sc.Fault.Page {
					target = &bodies[i]
				}
			}
			if target == nil || target.end <= target.start {
				continue // e.g. no dictionary page for this column: nothing to corrupt
			}
			bad := flipBytes(bf.data, *target, sc.Fault.Where, sc.Fault.Kind)
			// tainted rows: the rows of the corrupted page, or of every dictionary-encoded page
			tainted := make([]bool, bf.total)
			for _, b := range bodies {
				if b.index >= 0 && (b.index == sc.Fault.Page || (sc.Fault.Page == -1 && b.dictEncoded)) {
					for k := b.firstRow; k < b.firstRow+b.numRows && k < len(tainted); k++ {
						tainted[k] = true
					}
				}
			}
			touches := readsCol == "" || readsCol == sc.Fault.Col
			rs := bf.rowStart[itemsCol]
			taint := make([]int, len(bf.items[itemsCol]))
			if touches {
				for row := 0; row+1 < len(rs); row++ {
					if tainted[row] {
						for j := rs[row]; j < rs[row+1]; j++ {
							taint[j] = 1
						}
					}
				}
			}
			rd, err := c13Open(layer, &sc.c08Scenario, bad)
			if err != nil {
				// opening may legitimately fail only if the footer was touched, which a body flip never does
				tr.begin(ev{"sc": sc.ID, "layer": layer, "variant": variant, "fault": sc.Fault, "items": ints(bf.items[itemsCol]),
					"rowStart": ints(rs), "taint": ints(taint)})
				tr.emit("Read", ev{"n": 0, "got": []int{}, "eof": 0, "err": 1, "corrupt": 0, "panic": 0, "msg": "open: " + err.Error()})
				continue
			}
			tr.begin(ev{"sc": sc.ID, "layer": layer, "variant": variant, "fault": sc.Fault, "items": ints(bf.items[itemsCol]),
				"rowStart": ints(rs), "taint": ints(taint)})
			for _, op := range sc.Ops {
				switch op.Op {
				case "seek":
					k := op.K
					var serr error
					pan, msg := guard(func() { serr = rd.seek(k) })
					e := ev{"k": k, "err": b2i(serr != nil || pan), "panic": b2i(pan)}
					if serr != nil {
						e["msg"] = serr.Error()
					} else if pan {
						e["msg"] = msg
					}
					tr.emit("Seek", e)
				case "read":
					n := batch[r.intn(len(batch))]
					var got []int
					var rerr error
					pan, msg := guard(func() { got, rerr = rd.read(n) })
					eof := errors.Is(rerr, io.EOF)
					e := ev{"n": n, "got": ints(got), "eof": b2i(eof), "err": b2i((rerr != nil && !eof) || pan),
						"corrupt": b2i(errors.Is(rerr, parquet.ErrCorrupted)), "panic": b2i(pan)}
					if rerr != nil && !eof {
						e["msg"] = rerr.Error()
					} else if pan {
						e["msg"] = msg
					}
					tr.emit("Read", e)
				}
			}
			guard(rd.close)
		}
	}
	return nil
}

// c13Open is c08Open on given bytes (single row group layers read row group 0).
func c13Open(layer string, sc *c08Scenario, data []byte) (c08Reader, error) {
	kind, col, _ := strings.Cut(layer, ":")
	async := strings.HasPrefix(kind, "a")
	if async {
		kind = kind[1:]
	}
	opts := []parquet.FileOption{parquet.SkipPageIndex(!sc.Cfg.HasIndex)}
	if async {
		opts = append(opts, parquet.FileReadMode(parquet.ReadModeAsync))
	}
	file, err := parquet.OpenFile(bytes.NewReader(data), int64(len(data)), opts...)
	if err != nil {
		return nil, err
	}
	switch kind {
	case "pages":
		return &c08Pages{col: col, pages: file.RowGroups()[0].ColumnChunks()[c08Leaf(file, col)].Pages()}, nil
	case "values":
		return &c08Values{col: col, r: parquet.NewColumnChunkValueReader(file.RowGroups()[0].ColumnChunks()[c08Leaf(file, col)])}, nil
	case "rows":
		rows := file.RowGroups()[0].Rows()
		return &c08Rows{file: file, r: rows, closer: rows}, nil
	case "rgreader":
		r := parquet.NewRowGroupReader(file.RowGroups()[0])
		return &c08Rows{file: file, r: r, closer: r}, nil
	case "reader":
		r := parquet.NewReader(file)
		return &c08Rows{file: file, r: r, closer: r}, nil
	case "generic":
		return &c08Generic{r: parquet.NewGenericReader[c08Row](file)}, nil
	}
	return nil, fmt.Errorf("unknown layer %q", layer)
}
