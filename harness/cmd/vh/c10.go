package main

import (
	"bytes"
	"fmt"
	"io"
	"os"
	"sort"
	"strconv"
	"strings"

	"github.com/parquet-go/parquet-go"
)

// C10: sorting buffers and the sorting writer output a correctly ordered permutation.
// Scenario: two sorting columns with (desc, nullsFirst) each, and a list of
// rows given as key-token pairs (0 = null). The harness writes them (batching
// from the seed) to GenericBuffer[T], Buffer, RowBuffer[T] and sorts them, and
// to a SortingWriter with several sort-run sizes; rows carry their id.

func init() { commands["c10"] = c10Main }

type c10Col struct {
	Desc       bool `json:"desc"`
	NullsFirst bool `json:"nullsFirst"`
}

type c10Scenario struct {
	ID   int      `json:"id"`
	Orig int      `json:"orig,omitempty"`
	Cs   []c10Col `json:"cs"`
	Rows [][]int  `json:"rows"`
	Var  *int     `json:"var,omitempty"`
}

type c10Inner struct {
	A *int64 `parquet:"a"`
	B int64  `parquet:"b"`
}

type c10Row struct {
	K1  *int64    `parquet:"k1"`
	K2  *string   `parquet:"k2"`
	ID  int32     `parquet:"id"`
	Pad string    `parquet:"pad"`
	P   *c10Inner `parquet:"p"` // payload whose nulls sit at different depths
	L   []int32   `parquet:"l"`
	RK  []int64   `parquet:"rk"` // a repeated column that can be declared as sorting column: lists sharing their first elements
	Z   int64     `parquet:"z"`  // a required column behind the repeated ones, also used as sorting column (paths .../by-z)
}

func c10Z(k1, k2 int) int64 { return int64(k1*3+k2) - 4 }

func c10Sorting(cs []c10Col) []parquet.SortingColumn {
	out := []parquet.SortingColumn{}
	for i, c := range cs {
		name := []string{"k1", "k2"}[i]
		var col parquet.SortingColumn = parquet.Ascending(name)
		if c.Desc {
			col = parquet.Descending(name)
		}
		if c.NullsFirst {
			col = parquet.NullsFirst(col)
		}
		out = append(out, col)
	}
	return out
}

func c10RowOf(id int, keys []int) c10Row {
	row := c10Row{ID: int32(id), Pad: "row-" + strconv.Itoa(id)}
	switch id % 3 {
	case 1:
		row.P = &c10Inner{B: int64(id)}
	case 2:
		x := int64(id) * 3
		row.P = &c10Inner{A: &x, B: int64(id)}
	}
	for j := 0; j < id%3; j++ {
		row.L = append(row.L, int32(id*10+j))
	}
	if len(keys) > 1 {
		row.RK = []int64{int64(keys[0]), int64(keys[1]), int64(id % 2)}[:1+(id+keys[0])%3]
	}
	if len(keys) > 1 {
		row.Z = c10Z(keys[0], keys[1])
	}
	if keys[0] != 0 {
		x := int64(keys[0])*7 - 10
		row.K1 = &x
	}
	if len(keys) > 1 && keys[1] != 0 {
		s := "key" + strconv.Itoa(keys[1])
		row.K2 = &s
	}
	return row
}

// c10Intact: the payload columns still belong to this row's id
func c10Intact(row c10Row) bool {
	want := c10RowOf(int(row.ID), []int{0, 0})
	if row.Pad != want.Pad || (row.P == nil) != (want.P == nil) || len(row.L) != len(want.L) {
		return false
	}
	if row.P != nil && (row.P.B != want.P.B || (row.P.A == nil) != (want.P.A == nil) || (row.P.A != nil && *row.P.A != *want.P.A)) {
		return false
	}
	for i := range row.L {
		if row.L[i] != want.L[i] {
			return false
		}
	}
	return true
}

func c10Keys(row c10Row) []int {
	if !c10Intact(row) {
		return []int{alien, alien}
	}
	defer func() { recover() }()
	k1, k2 := 0, 0
	if row.K1 != nil {
		x := *row.K1 + 10
		if x%7 != 0 {
			k1 = alien
		} else {
			k1 = int(x / 7)
		}
	}
	if row.K2 != nil {
		n, err := strconv.Atoi((*row.K2)[min(3, len(*row.K2)):])
		if err != nil {
			k2 = alien
		} else {
			k2 = n
		}
	}
	if k1 != alien && k2 != alien && row.Z != c10Z(k1, k2) {
		return []int{alien, alien}
	}
	return []int{k1, k2}
}

func c10Main(args []string) error {
	seed, _ := strconv.ParseUint(argValue(args, "--seed", "1"), 10, 64)
	scs, err := readScenarios[c10Scenario](argValue(args, "--scenarios", "-"))
	if err != nil {
		return err
	}
	tr := newTracer(os.Stdout)
	defer tr.flush()
	schema := parquet.SchemaOf(c10Row{})
	for si := range scs {
		sc := &scs[si]
		rid := sc.ID
		if sc.Orig != 0 {
			rid = sc.Orig
		}
		r := newRng(seed ^ uint64(rid)*0x9E3779B1)
		variant := int(r.next() % 4096)
		if sc.Var != nil {
			variant = *sc.Var
		}
		v := variant
		take := func(n int) int { x := v % n; v /= n; return x }
		scale := []int{1, 1, 9, 70}[take(4)]           // contiguous runs of >= 8 and >= 64 equal rows
		batch := []int{1, 2, 1000, 3, 11, 10}[take(6)] // 11/10: later writes of >= 8 rows at a non-zero base
		dedupe := take(2) == 1
		sorting := c10Sorting(sc.Cs)

		rows := []c10Row{}
		keys := [][]int{}
		for _, k := range sc.Rows {
			for j := 0; j < scale; j++ {
				rows = append(rows, c10RowOf(len(rows), k))
				keys = append(keys, []int{k[0], k[1]})
			}
		}
		tr.begin(ev{"sc": sc.ID, "var": variant, "cs": sc.Cs, "rows": keys, "dedupe": dedupe, "scale": scale, "batch": batch})

		comparator := schema.Comparator(sorting...)
		// ascending only: for descending lists the comparator keeps "shorter first" for prefixes while the buffers
		// reverse the whole order, and nothing says which of the two a descending list column means
		byRK := []parquet.SortingColumn{parquet.Ascending("rk")}
		rkComparator := schema.Comparator(byRK...)
		byZ := []parquet.SortingColumn{parquet.Ascending("z")}
		zComparator := schema.Comparator(byZ...)
		emit := func(path string, out []c10Row, meta [][]int, dd bool, err error, pan bool, msg string) {
			comparator, by := comparator, "keys"
			if strings.HasSuffix(path, "/by-rk") {
				comparator, by = rkComparator, "rk"
			}
			if strings.HasSuffix(path, "/by-z") {
				comparator, by = zComparator, "z"
			}
			ids, ks, cmps, zs := []int{}, [][]int{}, []int{}, []int{}
			for i := range out {
				ids = append(ids, int(out[i].ID))
				zs = append(zs, int(out[i].Z))
				ks = append(ks, c10Keys(out[i]))
				if i > 0 {
					a := schema.Deconstruct(nil, &out[i-1])
					b := schema.Deconstruct(nil, &out[i])
					cmps = append(cmps, comparator(a, b))
				}
			}
			e := ev{"path": path, "by": by, "z": ints(zs), "ids": ints(ids), "keys": ks, "cmp": ints(cmps), "dedupe": b2i(dd), "err": b2i(err != nil || pan)}
			if len(ks) == 0 {
				e["keys"] = [][]int{}
			}
			if meta == nil {
				e["meta"] = [][]int{{-1}}
			} else {
				e["meta"] = meta
			}
			if err != nil {
				e["msg"] = err.Error()
			} else if pan {
				e["msg"] = "panic: " + msg
			}
			tr.emit("Out", e)
		}
		readAll := func(rr parquet.Rows) ([]c10Row, error) {
			defer rr.Close()
			out := []c10Row{}
			buf := make([]parquet.Row, 5)
			for {
				n, err := rr.ReadRows(buf)
				for _, row := range buf[:n] {
					var x c10Row
					if e := schema.Reconstruct(&x, row); e != nil {
						return out, e
					}
					out = append(out, x)
				}
				if err != nil {
					if err == io.EOF {
						return out, nil
					}
					return out, err
				}
				if n == 0 {
					return out, io.ErrNoProgress
				}
			}
		}
		writeBatches := func(write func([]c10Row) error) error {
			for off := 0; off < len(rows); off += batch {
				if err := write(rows[off:min(off+batch, len(rows))]); err != nil {
					return err
				}
			}
			return nil
		}
		cfg := parquet.SortingRowGroupConfig(parquet.SortingColumns(sorting...))

		run := func(path string, f func() ([]c10Row, [][]int, bool, error)) {
			var out []c10Row
			var meta [][]int
			var dd bool
			var err error
			pan, msg := guard(func() { out, meta, dd, err = f() })
			emit(path, out, meta, dd, err, pan, msg)
		}
		run("GenericBuffer[T]", func() ([]c10Row, [][]int, bool, error) {
			b := parquet.NewGenericBuffer[c10Row](cfg)
			if err := writeBatches(func(p []c10Row) error { _, e := b.Write(p); return e }); err != nil {
				return nil, nil, false, err
			}
			sort.Sort(b)
			out, err := readAll(b.Rows())
			return out, nil, false, err
		})
		run("Buffer", func() ([]c10Row, [][]int, bool, error) {
			b := parquet.NewBuffer(schema, cfg)
			for i := range rows {
				if err := b.Write(&rows[i]); err != nil {
					return nil, nil, false, err
				}
			}
			sort.Sort(b)
			out, err := readAll(b.Rows())
			return out, nil, false, err
		})
		run("RowBuffer[T]", func() ([]c10Row, [][]int, bool, error) {
			b := parquet.NewRowBuffer[c10Row](cfg)
			if err := writeBatches(func(p []c10Row) error { _, e := b.Write(p); return e }); err != nil {
				return nil, nil, false, err
			}
			sort.Sort(b)
			out, err := readAll(b.Rows())
			return out, nil, false, err
		})
		run("GenericBuffer[T]->file", func() ([]c10Row, [][]int, bool, error) {
			b := parquet.NewGenericBuffer[c10Row](cfg)
			if _, err := b.Write(rows); err != nil {
				return nil, nil, false, err
			}
			sort.Sort(b)
			out := new(bytes.Buffer)
			w := parquet.NewGenericWriter[c10Row](out, parquet.SortingWriterConfig(parquet.SortingColumns(sorting...)))
			if _, err := w.WriteRowGroup(b); err != nil {
				return nil, nil, false, err
			}
			if err := w.Close(); err != nil {
				return nil, nil, false, err
			}
			return c10ReadFile(out.Bytes(), readAll)
		})
		// the repeated column as the sorting column: the order of lists is what Schema.Comparator says
		rkCfg := parquet.SortingRowGroupConfig(parquet.SortingColumns(byRK...))
		run("GenericBuffer[T]/by-rk", func() ([]c10Row, [][]int, bool, error) {
			b := parquet.NewGenericBuffer[c10Row](rkCfg)
			if err := writeBatches(func(p []c10Row) error { _, e := b.Write(p); return e }); err != nil {
				return nil, nil, false, err
			}
			sort.Sort(b)
			out, err := readAll(b.Rows())
			return out, nil, false, err
		})
		run("SortingWriter/by-rk", func() ([]c10Row, [][]int, bool, error) {
			out := new(bytes.Buffer)
			w := parquet.NewSortingWriter[c10Row](out, 3, parquet.SortingWriterConfig(parquet.SortingColumns(byRK...)))
			if err := writeBatches(func(p []c10Row) error { _, e := w.Write(p); return e }); err != nil {
				return nil, nil, false, err
			}
			if err := w.Close(); err != nil {
				return nil, nil, false, err
			}
			rows, _, _, err := c10ReadFile(out.Bytes(), readAll)
			return rows, nil, false, err
		})
		// a required sorting column behind repeated columns holding several values per row
		zCfg := parquet.SortingRowGroupConfig(parquet.SortingColumns(byZ...))
		run("GenericBuffer[T]/by-z", func() ([]c10Row, [][]int, bool, error) {
			b := parquet.NewGenericBuffer[c10Row](zCfg)
			if err := writeBatches(func(p []c10Row) error { _, e := b.Write(p); return e }); err != nil {
				return nil, nil, false, err
			}
			sort.Sort(b)
			out, err := readAll(b.Rows())
			return out, nil, false, err
		})
		run("RowBuffer[T]/by-z", func() ([]c10Row, [][]int, bool, error) {
			b := parquet.NewRowBuffer[c10Row](zCfg)
			if err := writeBatches(func(p []c10Row) error { _, e := b.Write(p); return e }); err != nil {
				return nil, nil, false, err
			}
			sort.Sort(b)
			out, err := readAll(b.Rows())
			return out, nil, false, err
		})
		run("SortingWriter/by-z", func() ([]c10Row, [][]int, bool, error) {
			out := new(bytes.Buffer)
			w := parquet.NewSortingWriter[c10Row](out, 3, parquet.SortingWriterConfig(parquet.SortingColumns(byZ...)))
			if err := writeBatches(func(p []c10Row) error { _, e := w.Write(p); return e }); err != nil {
				return nil, nil, false, err
			}
			if err := w.Close(); err != nil {
				return nil, nil, false, err
			}
			rows, _, _, err := c10ReadFile(out.Bytes(), readAll)
			return rows, nil, false, err
		})
		for _, runSize := range []int64{1, 2, 3, 1 << 20} {
			if runSize == 3 && r.intn(2) == 0 {
				continue
			}
			run(fmt.Sprintf("SortingWriter/run=%d", runSize), func() ([]c10Row, [][]int, bool, error) {
				out := new(bytes.Buffer)
				w := parquet.NewSortingWriter[c10Row](out, runSize,
					parquet.SortingWriterConfig(parquet.SortingColumns(sorting...), parquet.DropDuplicatedRows(dedupe)))
				if err := writeBatches(func(p []c10Row) error { _, e := w.Write(p); return e }); err != nil {
					return nil, nil, dedupe, err
				}
				if err := w.Close(); err != nil {
					return nil, nil, dedupe, err
				}
				rows, meta, _, err := c10ReadFile(out.Bytes(), readAll)
				return rows, meta, dedupe, err
			})
		}
	}
	return nil
}

func c10ReadFile(data []byte, readAll func(parquet.Rows) ([]c10Row, error)) ([]c10Row, [][]int, bool, error) {
	f, err := parquet.OpenFile(bytes.NewReader(data), int64(len(data)))
	if err != nil {
		return nil, nil, false, err
	}
	out := []c10Row{}
	meta := [][]int{}
	for g, rg := range f.RowGroups() {
		part, err := readAll(rg.Rows())
		out = append(out, part...)
		if err != nil {
			return out, nil, false, err
		}
		if g == 0 {
			for _, sc := range rg.SortingColumns() {
				col := -1
				switch sc.Path()[0] {
				case "k1":
					col = 1
				case "k2":
					col = 2
				}
				meta = append(meta, []int{col, b2i(sc.Descending()), b2i(sc.NullsFirst())})
			}
		}
	}
	return out, meta, false, nil
}
