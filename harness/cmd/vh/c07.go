package main

import (
	"bytes"
	"compress/gzip"
	"fmt"
	"io"
	"os"
	"strconv"

	"github.com/parquet-go/parquet-go"
	"github.com/parquet-go/parquet-go/deprecated"
	"github.com/parquet-go/parquet-go/encoding/thrift"
	"github.com/parquet-go/parquet-go/format"
)

// C07: bloom filters never answer "absent" for a written value.
// Scenarios come from Bloom.tla: a configuration (dictionary column or not,
// dictionary limit, filter pre-sized by WriteRowGroup) and a history of pages
// (sets of tokens) and row-group flushes. The harness multiplies them by
// physical type, entry path and filter options chosen from the seed.

func init() { commands["c07"] = c07Main }

type c07Op struct {
	Op   string `json:"op"`
	Vals []int  `json:"vals,omitempty"`
}

type c07Scenario struct {
	ID   int `json:"id"`
	Orig int `json:"orig,omitempty"`
	Cfg  struct {
		Dict  bool `json:"dict"`
		Limit int  `json:"limit"`
	} `json:"cfg"`
	Ops  []c07Op `json:"ops"`
	Type string  `json:"type,omitempty"`
	Var  *int    `json:"var,omitempty"`
}

var c07Types = []string{"boolean", "int32", "int64", "int96", "float", "double", "bytes", "fixed16", "fixed5"}

func c07Leaf(typ string) parquet.Type {
	switch typ {
	case "boolean":
		return parquet.BooleanType
	case "int32":
		return parquet.Int32Type
	case "int64":
		return parquet.Int64Type
	case "int96":
		return parquet.Int96Type
	case "float":
		return parquet.FloatType
	case "double":
		return parquet.DoubleType
	case "bytes":
		return parquet.ByteArrayType
	case "fixed16":
		return parquet.FixedLenByteArrayType(16)
	case "fixed5":
		return parquet.FixedLenByteArrayType(5)
	}
	panic("unknown type " + typ)
}

// c07Values: the concrete values a token stands for (a few per token so pages hold several values).
func c07Values(typ string, tok, salt int) []parquet.Value {
	out := []parquet.Value{}
	for j := 0; j < 3; j++ {
		x := tok*1000 + j*7 + salt
		switch typ {
		case "boolean":
			out = append(out, parquet.BooleanValue(tok%2 == 1))
		case "int32":
			out = append(out, parquet.Int32Value(int32(x)-1500))
		case "int64":
			out = append(out, parquet.Int64Value(int64(x)<<33-5))
		case "int96":
			out = append(out, parquet.Int96Value(deprecated.Int96{uint32(x), uint32(tok), uint32(j)}))
		case "float":
			out = append(out, parquet.FloatValue(float32(x)/8))
		case "double":
			out = append(out, parquet.DoubleValue(float64(x)/8-300))
		case "bytes":
			out = append(out, parquet.ByteArrayValue([]byte("value-"+strconv.Itoa(x))))
		case "fixed16":
			b := make([]byte, 16)
			copy(b, strconv.Itoa(x))
			b[15] = byte(tok)
			out = append(out, parquet.FixedLenByteArrayValue(b))
		case "fixed5":
			b := []byte{byte(x), byte(x >> 8), byte(tok), byte(j), 0xEE}
			out = append(out, parquet.FixedLenByteArrayValue(b))
		}
	}
	return out
}

// "mixed": pages before a "wrg" op are written directly (pending row group); the pages after it are
// collected in a buffer that is handed to Writer.WriteRowGroup. The other paths treat "wrg" as a flush.
var c07Paths = []string{"mixed", "rows", "colwriter", "mixed", "file-copy", "file-reencode"}

func c07Main(args []string) error {
	seed, _ := strconv.ParseUint(argValue(args, "--seed", "1"), 10, 64)
	scs, err := readScenarios[c07Scenario](argValue(args, "--scenarios", "-"))
	if err != nil {
		return err
	}
	tr := newTracer(os.Stdout)
	defer tr.flush()
	for si := range scs {
		sc := &scs[si]
		rid := sc.ID
		if sc.Orig != 0 {
			rid = sc.Orig
		}
		types := c07Types
		if sc.Type != "" {
			types = []string{sc.Type}
		}
		for _, typ := range types {
			r := newRng(seed ^ uint64(rid)*0x9E3779B1 ^ hashString(typ))
			variant := int(r.next() % (1 << 16))
			if sc.Var != nil {
				variant = *sc.Var
			}
			c07Run(tr, sc, typ, variant)
		}
	}
	return nil
}

func c07Run(tr *tracer, sc *c07Scenario, typ string, variant int) {
	v := variant
	take := func(n int) int { x := v % n; v /= n; return x }
	optional := take(2) == 1
	bits := []uint{10, 1, 64}[take(3)]
	deferred := take(2) == 1
	gz := take(2) == 1
	codec := []string{"none", "snappy", "gzip"}[take(3)]
	ver := 1 + take(2)
	salt := take(5)
	path := c07Paths[take(len(c07Paths))]
	prefetch := take(2) == 1
	tinyPages := take(2) == 1

	node := parquet.Leaf(c07Leaf(typ))
	if sc.Cfg.Dict {
		node = parquet.Encoded(node, &parquet.RLEDictionary)
	}
	if optional {
		node = parquet.Optional(node)
	}
	schema := parquet.NewSchema("c07", parquet.Group{"v": node})
	mkOpts := func(codec string, withBloom bool) []parquet.WriterOption {
		pageBuf := 1 << 20
		if tinyPages {
			pageBuf = 24 // WriteRowGroup then cuts several pages per row group
		}
		opts := []parquet.WriterOption{schema, parquet.DataPageVersion(ver), parquet.PageBufferSize(pageBuf)}
		if withBloom {
			opts = append(opts, parquet.BloomFilters(parquet.SplitBlockFilter(bits, "v")))
			if deferred {
				opts = append(opts, parquet.DeferBloomFiltersWithBuffers(parquet.NewBufferPool()))
			}
			if gz {
				opts = append(opts, parquet.BloomFilterCompression(&parquet.Gzip))
			}
		}
		if codec != "none" {
			opts = append(opts, parquet.Compression(wCodec(codec)))
		}
		if sc.Cfg.Limit > 0 {
			opts = append(opts, parquet.DictionaryMaxBytes(1))
		}
		return opts
	}
	tr.begin(ev{"sc": sc.ID, "type": typ, "var": variant, "path": path, "cfg": sc.Cfg,
		"opt": ev{"optional": optional, "bits": bits, "deferred": deferred, "gzipFilter": gz, "codec": codec, "ver": ver, "prefetch": prefetch, "tinyPages": tinyPages}})

	d := 0
	if optional {
		d = 1
	}
	rowsOf := func(vals []int) []parquet.Row {
		rows := []parquet.Row{}
		for _, t := range vals {
			for _, x := range c07Values(typ, t, salt) {
				rows = append(rows, parquet.Row{x.Level(0, d, 0)})
			}
		}
		if optional {
			rows = append(rows, parquet.Row{parquet.NullValue().Level(0, 0, 0)})
		}
		return rows
	}
	// split the history into row groups of pages
	groups := [][][]int{{}}
	for _, op := range sc.Ops {
		switch op.Op {
		case "page":
			groups[len(groups)-1] = append(groups[len(groups)-1], op.Vals)
		case "flush", "wrg":
			groups = append(groups, [][]int{})
		}
	}

	out := new(bytes.Buffer)
	var werr error
	writeDirect := func(dst *bytes.Buffer, opts []parquet.WriterOption, how string) error {
		w := parquet.NewWriter(dst, opts...)
		for _, g := range groups {
			for _, page := range g {
				rows := rowsOf(page)
				if how == "colwriter" {
					cw := w.ColumnWriters()[0]
					for _, row := range rows {
						if _, err := cw.WriteRowValues(row); err != nil {
							return err
						}
					}
				} else {
					if _, err := w.WriteRows(rows); err != nil {
						return err
					}
				}
				if err := w.ColumnWriters()[0].Flush(); err != nil {
					return err
				}
			}
			if err := w.Flush(); err != nil {
				return err
			}
		}
		return w.Close()
	}
	pan, msg := guard(func() {
		switch path {
		case "rows", "colwriter":
			werr = writeDirect(out, mkOpts(codec, true), path)
		case "mixed":
			w := parquet.NewWriter(out, mkOpts(codec, true)...)
			var pending *parquet.Buffer // rows collected for WriteRowGroup
			commit := func() error {
				if pending != nil {
					b := pending
					pending = nil
					if b.NumRows() > 0 {
						_, err := w.WriteRowGroup(b)
						return err
					}
				}
				return nil
			}
			for _, op := range sc.Ops {
				switch op.Op {
				case "page":
					rows := rowsOf(op.Vals)
					if pending != nil {
						if _, err := pending.WriteRows(rows); err != nil {
							werr = err
							return
						}
						continue
					}
					if _, err := w.WriteRows(rows); err != nil {
						werr = err
						return
					}
					if err := w.ColumnWriters()[0].Flush(); err != nil {
						werr = err
						return
					}
				case "flush":
					if err := commit(); err != nil {
						werr = err
						return
					}
					if err := w.Flush(); err != nil {
						werr = err
						return
					}
				case "wrg":
					if err := commit(); err != nil {
						werr = err
						return
					}
					pending = parquet.NewBuffer(schema)
				}
			}
			if err := commit(); err != nil {
				werr = err
				return
			}
			werr = w.Close()
		case "file-copy", "file-reencode":
			src := new(bytes.Buffer)
			srcCodec := codec
			if path == "file-reencode" {
				srcCodec = map[string]string{"none": "snappy", "snappy": "gzip", "gzip": "none"}[codec]
			}
			// the source carries a bloom filter too in the copy case (a verbatim copy needs an equivalent filter)
			if err := writeDirect(src, mkOpts(srcCodec, path == "file-copy"), "rows"); err != nil {
				werr = fmt.Errorf("source: %w", err)
				return
			}
			sf, err := parquet.OpenFile(bytes.NewReader(src.Bytes()), int64(src.Len()))
			if err != nil {
				werr = fmt.Errorf("source: %w", err)
				return
			}
			w := parquet.NewWriter(out, mkOpts(codec, true)...)
			for _, rg := range sf.RowGroups() {
				if _, err := w.WriteRowGroup(rg); err != nil {
					werr = err
					return
				}
			}
			werr = w.Close()
		}
	})
	if pan {
		werr = fmt.Errorf("panic: %s", msg)
	}
	if werr != nil {
		tr.emit("WriteError", ev{"msg": werr.Error()})
		return
	}
	data := out.Bytes()
	f, err := parquet.OpenFile(bytes.NewReader(data), int64(len(data)), parquet.PrefetchBloomFilters(prefetch))
	if err != nil {
		tr.emit("WriteError", ev{"msg": "open: " + err.Error()})
		return
	}
	for g, rg := range f.RowGroups() {
		chunk := rg.ColumnChunks()[0]
		var bf parquet.BloomFilter
		pan, msg := guard(func() { bf = chunk.BloomFilter() })
		// the filter as it lies in the file: header parsed here, bitset handed to the specification (Sbbf.tla)
		fe := ev{"rg": g, "present": b2i(bf != nil && !pan), "configured": 1, "msg": msg, "bits": []int{}, "std": 0}
		if md := f.Metadata().RowGroups[g].Columns[0].MetaData; md.BloomFilterOffset > 0 && int(md.BloomFilterOffset) < len(data) {
			var hdr format.BloomFilterHeader
			proto := thrift.CompactProtocol{}
			rd := proto.NewReaderFromBytes(data[md.BloomFilterOffset:])
			if err := thrift.NewDecoder(rd).Decode(&hdr); err == nil {
				body := data[int(md.BloomFilterOffset)+rd.BytesRead():]
				_, block := hdr.Algorithm.Value.(*format.SplitBlockAlgorithm)
				_, xxh := hdr.Hash.Value.(*format.XxHash)
				fe["std"] = b2i(block && xxh)
				if _, gz := hdr.Compression.Value.(*format.BloomFilterGzip); gz {
					// parquet-go extension: NumBytes is the compressed size
					if zr, err := gzip.NewReader(bytes.NewReader(body[:min(int(hdr.NumBytes), len(body))])); err == nil {
						if plain, err := io.ReadAll(zr); err == nil {
							fe["bits"] = bytesToInts(plain)
						}
					}
					fe["std"] = 0 // not a filter other readers understand; judged through the library only
				} else if int(hdr.NumBytes) <= len(body) {
					fe["bits"] = bytesToInts(body[:hdr.NumBytes])
				}
			}
		}
		tr.emit("Filter", fe)
		if bf == nil || pan {
			continue
		}
		// the values really stored in this chunk
		pr := chunk.Pages()
		seen := map[string]bool{}
		for {
			p, err := pr.ReadPage()
			if err != nil {
				if err != io.EOF {
					tr.emit("WriteError", ev{"msg": "read: " + err.Error()})
				}
				break
			}
			vb := make([]parquet.Value, 32)
			vr := p.Values()
			for {
				n, err := vr.ReadValues(vb)
				for _, x := range vb[:n] {
					if x.IsNull() {
						continue
					}
					key := string(x.Bytes())
					if seen[key] {
						continue
					}
					seen[key] = true
					var ok bool
					var cerr error
					pan, msg := guard(func() { ok, cerr = bf.Check(x.Clone()) })
					e := ev{"rg": g, "v": bytesToInts(x.Bytes()), "ok": b2i(ok), "err": b2i(cerr != nil || pan)}
					if cerr != nil {
						e["msg"] = cerr.Error()
					} else if pan {
						e["msg"] = "panic: " + msg
					}
					tr.emit("Check", e)
				}
				if err != nil || n == 0 {
					break
				}
			}
			parquet.Release(p)
		}
		pr.Close()
	}
}
