package main

import (
	"bytes"
	"encoding/binary"
	"fmt"
	"io"
	"os"
	"strconv"
	"strings"

	"github.com/parquet-go/parquet-go"
	"github.com/parquet-go/parquet-go/format"
)

// C18: encrypted files round-trip, leak no plaintext and authenticate every module.
// Scenario (from Encryption.tla + option vectors): footer mode, key assignment, page version,
// codec, a tamper kind and target, an access path. The harness writes the file, reads it back
// along several paths, scans the raw bytes for plaintext markers, then tampers with a copy.

func init() { commands["c18"] = c18Main }

type c18Scenario struct {
	ID     int    `json:"id"`
	Orig   int    `json:"orig,omitempty"`
	Mode   string `json:"mode"`   // encfooter | plainfooter
	Keys   string `json:"keys"`   // footer | percol
	Ver    int    `json:"ver"`    // page version
	Codec  string `json:"codec"`  // none | snappy
	Dict   bool   `json:"dict"`   // dictionary-encode the string column
	Tamper string `json:"tamper"` // none | flip | swap | otherfile | othercol | otherrg | wrongkey | nokey | truncate
	At     int    `json:"at"`     // data page index the tamper applies to
	Path   string `json:"path"`   // seq | seek | readseek (read one batch, then seek forward past a whole page)
	Fid    string `json:"fid"`    // explicit | default: who chooses the file identifier
	Reuse  bool   `json:"reuse"`  // the file is the second one of a writer reused through Reset
	Index  bool   `json:"index"`  // open with the page index
}

type c18Row struct {
	ID     int64  `parquet:"id"`
	Secret string `parquet:"secret"`
	Note   string `parquet:"note"`
}

func c18RowOf(id int) c18Row {
	return c18Row{ID: int64(id), Secret: fmt.Sprintf("MARKER-secret-%04d-zzzzzzzzzzzzzzzzzzzz", id), Note: fmt.Sprintf("MARKER-note-%04d-qqqqqqqqqq", id%5)}
}

type c18Keys struct {
	footer  []byte
	columns map[string][]byte
	missing map[string]bool
}

func (k *c18Keys) FooterKey([]byte) ([]byte, error) { return k.footer, nil }
func (k *c18Keys) ColumnKey(path []string, _ []byte) ([]byte, error) {
	p := strings.Join(path, ".")
	if k.missing[p] {
		return nil, fmt.Errorf("no key for %s: %w", p, parquet.ErrKeyNotFound)
	}
	if key, ok := k.columns[p]; ok {
		return key, nil
	}
	return k.footer, nil
}

var (
	c18Footer = []byte("0123456789abcdef")
	c18ColKey = []byte("fedcba9876543210")
	c18Wrong  = []byte("XXXXXXXXXXXXXXXX")
)

const c18PageRows, c18Pages, c18Groups = 4, 3, 2

func c18Write(sc *c18Scenario, fileID byte) ([]byte, error) {
	cfg := &parquet.EncryptionConfig{FooterKey: c18Footer, EncryptedFooter: sc.Mode == "encfooter"}
	if sc.Fid != "default" { // otherwise the library draws a random identifier per file
		cfg.FileIdentifier = []byte{fileID, 2, 3, 4, 5, 6, 7, 8}
	}
	if sc.Keys == "percol" {
		cfg.ColumnKeys = map[string][]byte{"secret": c18ColKey}
	}
	opts := []parquet.WriterOption{parquet.WithEncryption(cfg), parquet.DataPageVersion(sc.Ver), parquet.PageBufferSize(1 << 20)}
	if sc.Codec != "none" {
		opts = append(opts, parquet.Compression(wCodec(sc.Codec)))
	}
	if sc.Dict {
		opts = append(opts, parquet.DefaultEncodingFor(parquet.ByteArray, &parquet.RLEDictionary))
	}
	buf := new(bytes.Buffer)
	w := parquet.NewGenericWriter[c18Row](buf, opts...)
	if sc.Reuse {
		// an earlier file with two row groups, then Reset
		for g := 0; g < 2; g++ {
			rows := make([]c18Row, c18PageRows)
			for i := range rows {
				rows[i] = c18RowOf(1000 + i)
			}
			if _, err := w.Write(rows); err != nil {
				return nil, err
			}
			if err := w.Flush(); err != nil {
				return nil, err
			}
		}
		if err := w.Close(); err != nil {
			return nil, err
		}
		buf.Reset()
		w.Reset(buf)
	}
	id := 0
	for g := 0; g < c18Groups; g++ {
		for p := 0; p < c18Pages; p++ {
			rows := make([]c18Row, c18PageRows)
			for i := range rows {
				rows[i] = c18RowOf(id)
				id++
			}
			if _, err := w.Write(rows); err != nil {
				return nil, err
			}
			for _, cw := range w.ColumnWriters() {
				if err := cw.Flush(); err != nil {
					return nil, err
				}
			}
		}
		if err := w.Flush(); err != nil {
			return nil, err
		}
	}
	if err := w.Close(); err != nil {
		return nil, err
	}
	return buf.Bytes(), nil
}

func c18KeysFor(sc *c18Scenario) *c18Keys {
	k := &c18Keys{footer: c18Footer, columns: map[string][]byte{}, missing: map[string]bool{}}
	if sc.Keys == "percol" {
		k.columns["secret"] = c18ColKey
	}
	return k
}

// c18Read reads rows along an access path; cols restricts to some columns (nil = all, typed read).
func c18Read(data []byte, keys parquet.KeyRetriever, sc *c18Scenario, from int) (rows []int, err error) {
	opts := []parquet.FileOption{parquet.WithDecryption(keys), parquet.SkipPageIndex(!sc.Index)}
	f, err := parquet.OpenFile(bytes.NewReader(data), int64(len(data)), opts...)
	if err != nil {
		return nil, err
	}
	r := parquet.NewGenericReader[c18Row](f)
	if sc.Path == "readseek" {
		// one row group: its page readers stay the same across the seek (a multi-row-group reader reopens them)
		r.Close()
		r = parquet.NewGenericRowGroupReader[c18Row](f.RowGroups()[0])
	}
	defer r.Close()
	rows = []int{}
	buf := make([]c18Row, 3)
	if sc.Path == "readseek" { // something is buffered when the seek comes
		n, err := r.Read(buf)
		for _, row := range buf[:n] {
			if row == c18RowOf(int(row.ID)) {
				rows = append(rows, int(row.ID))
			} else {
				rows = append(rows, alien)
			}
		}
		if err != nil {
			return rows, err
		}
	}
	if from > 0 {
		if err := r.SeekToRow(int64(from)); err != nil {
			return rows, err
		}
	}
	for {
		n, err := r.Read(buf)
		for _, row := range buf[:n] {
			if row == c18RowOf(int(row.ID)) {
				rows = append(rows, int(row.ID))
			} else {
				rows = append(rows, alien)
			}
		}
		if err != nil {
			if err == io.EOF {
				return rows, nil
			}
			return rows, err
		}
		if n == 0 {
			return rows, io.ErrNoProgress
		}
	}
}

// envelope boundaries of the data pages of one column chunk: [headerStart, bodyStart, end) per page
type c18Module struct{ start, end int }

func c18Envelopes(data []byte, start, total int) []c18Module {
	out := []c18Module{}
	off := start
	for off+4 <= start+total {
		n := int(binary.LittleEndian.Uint32(data[off:]))
		if n <= 0 || off+4+n > len(data) {
			break
		}
		out = append(out, c18Module{off, off + 4 + n})
		off += 4 + n
	}
	return out
}

func c18Main(args []string) error {
	seed, _ := strconv.ParseUint(argValue(args, "--seed", "1"), 10, 64)
	_ = seed
	scs, err := readScenarios[c18Scenario](argValue(args, "--scenarios", "-"))
	if err != nil {
		return err
	}
	tr := newTracer(os.Stdout)
	defer tr.flush()
	total := c18PageRows * c18Pages * c18Groups
	for si := range scs {
		sc := &scs[si]
		data, err := c18Write(sc, 1)
		if err != nil {
			return fmt.Errorf("scenario %d: write: %w", sc.ID, err)
		}
		expect := make([]int, total)
		for i := range expect {
			expect[i] = i
		}
		tr.begin(ev{"sc": sc.ID, "mode": sc.Mode, "keys": sc.Keys, "expect": expect, "scenario": sc})
		keys := c18KeysFor(sc)
		from := 0
		if sc.Path == "seek" {
			from = c18PageRows*sc.At + 1 // a row inside the target page of row group 0
		}
		wantRound := expect
		if sc.Path == "readseek" {
			from = c18PageRows*2 + 1 // first batch from page 0, then past page 1 into page 2
			wantRound = append(append([]int{}, expect[:3]...), expect[from:c18PageRows*c18Pages]...)
		} else {
			wantRound = expect[from:]
		}
		guardRead := func(d []byte, k parquet.KeyRetriever) (rows []int, err error, pan bool, msg string) {
			pan, msg = guard(func() { rows, err = c18Read(d, k, sc, from) })
			if rows == nil {
				rows = []int{}
			}
			return
		}
		// ---- round trip
		rows, rerr, pan, msg := guardRead(data, keys)
		// what a reader with the keys learns about the columns of every row group
		meta := []int{}
		guard(func() {
			if f, err := parquet.OpenFile(bytes.NewReader(data), int64(len(data)), parquet.WithDecryption(keys)); err == nil {
				for _, rg := range f.Metadata().RowGroups {
					ok := true
					for ci, cc := range rg.Columns {
						want := []string{"id", "secret", "note"}[ci]
						codecOK := (sc.Codec == "none") == (cc.MetaData.Codec == format.Uncompressed)
						ok = ok && len(cc.MetaData.PathInSchema) == 1 && cc.MetaData.PathInSchema[0] == want && codecOK && len(cc.MetaData.Encoding) > 0 &&
							(cc.MetaData.Type == format.Int64) == (ci == 0)
					}
					meta = append(meta, b2i(ok))
				}
			}
		})
		e := ev{"path": sc.Path, "rows": ints(rows), "want": wantRound, "err": b2i(rerr != nil), "panic": b2i(pan), "meta": ints(meta)}
		if rerr != nil {
			e["msg"] = rerr.Error()
		} else if pan {
			e["msg"] = msg
		}
		tr.emit("Round", e)
		// ---- plaintext leaks: values, hence also statistics and dictionary entries
		for _, what := range []string{"secret", "note"} {
			found := bytes.Contains(data, []byte("MARKER-"+what))
			tr.emit("Leak", ev{"what": what, "found": b2i(found)})
		}
		if sc.Tamper == "none" || sc.Path == "readseek" {
			continue
		}
		// ---- tampering
		f, err := parquet.OpenFile(bytes.NewReader(data), int64(len(data)), parquet.WithDecryption(keys))
		if err != nil {
			return fmt.Errorf("scenario %d: reopen: %w", sc.ID, err)
		}
		secretCol := 1
		md := f.Metadata().RowGroups[0].Columns[secretCol].MetaData
		chunkStart := int(md.DataPageOffset)
		if md.DictionaryPageOffset != 0 {
			chunkStart = int(md.DictionaryPageOffset)
		}
		mods := c18Envelopes(data, chunkStart, int(md.TotalCompressedSize))
		// modules: [dict header, dict body]? then per data page: header, body
		first := 0
		if md.DictionaryPageOffset != 0 {
			first = 2
		}
		pageBody := func(p int) c18Module { return mods[first+2*p+1] }
		bad := append([]byte{}, data...)
		tk := keys
		needed := 1
		want := expect[from:]
		module := "data-page-body"
		switch sc.Tamper {
		case "flip":
			m := pageBody(sc.At)
			bad[(m.start+m.end)/2] ^= 0x20
		case "swap":
			a, b := pageBody(sc.At), pageBody((sc.At+1)%c18Pages)
			if a.end-a.start != b.end-b.start {
				continue // envelopes of different sizes cannot be swapped in place
			}
			copy(bad[a.start:a.end], data[b.start:b.end])
			copy(bad[b.start:b.end], data[a.start:a.end])
		case "otherfile":
			other, err := c18Write(sc, 9) // same keys and layout, different file identifier
			if err != nil || len(other) != len(data) {
				continue
			}
			m := pageBody(sc.At)
			copy(bad[m.start:m.end], other[m.start:m.end])
		case "othercol", "otherrg":
			// the same page of another column (note) / of the next row group, if the envelope sizes agree
			var src c18Module
			if sc.Tamper == "othercol" {
				md2 := f.Metadata().RowGroups[0].Columns[2].MetaData
				st := int(md2.DataPageOffset)
				f2 := 0
				if md2.DictionaryPageOffset != 0 {
					st, f2 = int(md2.DictionaryPageOffset), 2
				}
				m2 := c18Envelopes(data, st, int(md2.TotalCompressedSize))
				src = m2[f2+2*sc.At+1]
			} else {
				md2 := f.Metadata().RowGroups[1].Columns[secretCol].MetaData
				st := int(md2.DataPageOffset)
				f2 := 0
				if md2.DictionaryPageOffset != 0 {
					st, f2 = int(md2.DictionaryPageOffset), 2
				}
				m2 := c18Envelopes(data, st, int(md2.TotalCompressedSize))
				src = m2[f2+2*sc.At+1]
			}
			m := pageBody(sc.At)
			if src.end-src.start != m.end-m.start {
				continue
			}
			copy(bad[m.start:m.end], data[src.start:src.end])
		case "wrongkey":
			module = "column-key"
			tk = c18KeysFor(sc)
			if sc.Keys == "percol" {
				tk.columns["secret"] = c18Wrong
			} else {
				tk.footer = c18Wrong
			}
		case "nokey":
			module = "column-key"
			if sc.Keys != "percol" {
				continue
			}
			tk = c18KeysFor(sc)
			tk.missing["secret"] = true
		case "truncate":
			module = "file"
			m := pageBody(sc.At)
			bad = bad[:m.end-3]
		}
		// a read starting after the tampered page (seek past it, with an index) does not need it
		if (sc.Tamper == "flip" || sc.Tamper == "swap" || strings.HasPrefix(sc.Tamper, "other")) && sc.Path == "seek" && sc.Index {
			// from lies inside page `At` of row group 0, so the page is needed; nothing to relax
			needed = 1
		}
		rows, rerr, pan, msg = guardRead(bad, tk)
		e = ev{"kind": sc.Tamper, "module": module, "needed": needed, "rows": ints(rows), "want": want, "err": b2i(rerr != nil), "panic": b2i(pan)}
		if rerr != nil {
			e["msg"] = rerr.Error()
		} else if pan {
			e["msg"] = msg
		}
		tr.emit("Tamper", e)
		// a read that does not need the tampered page: row group 1 only
		if sc.Tamper == "flip" || sc.Tamper == "swap" || strings.HasPrefix(sc.Tamper, "other") {
			var rows2 []int
			var err2 error
			pan2, msg2 := guard(func() {
				f2, e := parquet.OpenFile(bytes.NewReader(bad), int64(len(bad)), parquet.WithDecryption(tk), parquet.SkipPageIndex(!sc.Index))
				if e != nil {
					err2 = e
					return
				}
				rr := f2.RowGroups()[1].Rows()
				defer rr.Close()
				schema := parquet.SchemaOf(c18Row{})
				rb := make([]parquet.Row, 5)
				for {
					n, e := rr.ReadRows(rb)
					for _, row := range rb[:n] {
						var x c18Row
						schema.Reconstruct(&x, row)
						if x == c18RowOf(int(x.ID)) {
							rows2 = append(rows2, int(x.ID))
						} else {
							rows2 = append(rows2, alien)
						}
					}
					if e != nil {
						if e != io.EOF {
							err2 = e
						}
						return
					}
					if n == 0 {
						return
					}
				}
			})
			needed2 := 0
			if sc.Tamper == "otherrg" {
				needed2 = 0 // the source envelope is only copied, row group 1 is intact
			}
			e2 := ev{"kind": sc.Tamper, "module": module + "/untouched-row-group", "needed": needed2, "rows": ints(rows2),
				"want": expect[c18PageRows*c18Pages:], "err": b2i(err2 != nil), "panic": b2i(pan2)}
			if err2 != nil {
				e2["msg"] = err2.Error()
			} else if pan2 {
				e2["msg"] = msg2
			}
			tr.emit("Tamper", e2)
		}
	}
	return nil
}
