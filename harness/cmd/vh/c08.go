package main

import (
	"bytes"
	"errors"
	"fmt"
	"io"
	"os"
	"strconv"
	"strings"

	"github.com/parquet-go/parquet-go"
	"github.com/parquet-go/parquet-go/compress/snappy"
)

// C08: seek-then-read. Scenarios (from TLC) are executed on every reader kind;
// the trace records, for every call, what came back as integer tokens.

func init() { commands["c08"] = c08Main }

type c08Op struct {
	Op string `json:"op"`
	K  int    `json:"k"`
}

type c08Scenario struct {
	ID  int `json:"id"`
	Cfg struct {
		PageRows []int `json:"pageRows"`
		HasIndex bool  `json:"hasIndex"`
	} `json:"cfg"`
	Ops []c08Op `json:"ops"`
	// optional pinning for replays
	Orig    int    `json:"orig,omitempty"` // id the random choices were derived from
	Layer   string `json:"layer,omitempty"`
	Variant *int   `json:"variant,omitempty"`
}

type c08Row struct {
	ID int64   `parquet:"id"`
	S  *string `parquet:"s,optional,dict"`
	L  []int64 `parquet:"l,list"`
}

func c08RowOf(id int) c08Row {
	r := c08Row{ID: int64(id)}
	if id%4 != 1 {
		s := "s" + strconv.Itoa(id)
		r.S = &s
	}
	for j := 0; j < id%3; j++ {
		r.L = append(r.L, int64(id*10+j))
	}
	return r
}

const alien = -9

// c08Token projects a leaf value back to its token (inverse concretisation).
func c08Token(col string, v parquet.Value) int {
	if v.IsNull() {
		return -1
	}
	switch col {
	case "id", "l":
		if v.Kind() != parquet.Int64 {
			return alien
		}
		return int(v.Int64())
	case "s":
		if v.Kind() != parquet.ByteArray {
			return alien
		}
		b := string(v.ByteArray())
		if !strings.HasPrefix(b, "s") {
			return alien
		}
		n, err := strconv.Atoi(b[1:])
		if err != nil {
			return alien
		}
		return n
	}
	return alien
}

type c08File struct {
	data  []byte
	total int
	// per column name: expected tokens and first item index of every row (len total+1)
	items    map[string][]int
	rowStart map[string][]int
	colIndex map[string]int
}

var c08Cols = []string{"id", "s", "l"}

func c08Build(pageRows []int, nrg, ver int, compressed bool) (*c08File, error) {
	buf := new(bytes.Buffer)
	opts := []parquet.WriterOption{parquet.DataPageVersion(ver), parquet.PageBufferSize(1 << 20)}
	if compressed {
		opts = append(opts, parquet.Compression(&snappy.Codec{}))
	}
	w := parquet.NewGenericWriter[c08Row](buf, opts...)
	f := &c08File{items: map[string][]int{}, rowStart: map[string][]int{}, colIndex: map[string]int{}}
	id := 0
	for g := 0; g < nrg; g++ {
		for _, n := range pageRows {
			rows := make([]c08Row, n)
			for i := range rows {
				rows[i] = c08RowOf(id)
				id++
			}
			if _, err := w.Write(rows); err != nil {
				return nil, err
			}
			for _, cw := range w.ColumnWriters() {
				if err := cw.Flush(); err != nil {
					return nil, err
				}
			}
		}
		if err := w.Flush(); err != nil {
			return nil, err
		}
	}
	if err := w.Close(); err != nil {
		return nil, err
	}
	f.data = buf.Bytes()
	f.total = id
	for _, c := range c08Cols {
		f.items[c] = []int{}
		f.rowStart[c] = []int{}
	}
	for r := 0; r < id; r++ {
		row := c08RowOf(r)
		f.rowStart["id"] = append(f.rowStart["id"], len(f.items["id"]))
		f.items["id"] = append(f.items["id"], r)
		f.rowStart["s"] = append(f.rowStart["s"], len(f.items["s"]))
		if row.S == nil {
			f.items["s"] = append(f.items["s"], -1)
		} else {
			f.items["s"] = append(f.items["s"], r)
		}
		f.rowStart["l"] = append(f.rowStart["l"], len(f.items["l"]))
		if len(row.L) == 0 {
			f.items["l"] = append(f.items["l"], -1)
		}
		for _, x := range row.L {
			f.items["l"] = append(f.items["l"], int(x))
		}
	}
	for _, c := range c08Cols {
		f.rowStart[c] = append(f.rowStart[c], len(f.items[c]))
	}
	return f, nil
}

var c08Cache = map[string]*c08File{}

func c08Get(pageRows []int, nrg, ver int, compressed bool) (*c08File, error) {
	key := fmt.Sprint(pageRows, nrg, ver, compressed)
	if f, ok := c08Cache[key]; ok {
		return f, nil
	}
	f, err := c08Build(pageRows, nrg, ver, compressed)
	if err != nil {
		return nil, err
	}
	c08Cache[key] = f
	return f, nil
}

func c08Leaf(file *parquet.File, name string) int {
	for i, p := range file.Schema().Columns() {
		if p[0] == name {
			return i
		}
	}
	return -1
}

// c08RowToken: the id of the row if every column agrees with what was written
// for that id, otherwise an alien token naming the disagreeing column.
func c08RowToken(file *parquet.File, row parquet.Row) int {
	return c08RowTokenOf(file.Schema(), row)
}

// c08RowTokenOf: column indexes are those of the schema the rows come with (a merged row group orders its
// columns by name, not like the file).
func c08RowTokenOf(schema *parquet.Schema, row parquet.Row) int {
	leaf := func(name string) int {
		for i, p := range schema.Columns() {
			if p[0] == name {
				return i
			}
		}
		return -1
	}
	idc, sc, lc := leaf("id"), leaf("s"), leaf("l")
	id := alien
	var s []int
	var l []int
	for _, v := range row {
		switch v.Column() {
		case idc:
			id = c08Token("id", v)
		case sc:
			s = append(s, c08Token("s", v))
		case lc:
			l = append(l, c08Token("l", v))
		}
	}
	if id < 0 {
		return alien
	}
	want := c08RowOf(id)
	ws := -1
	if want.S != nil {
		ws = id
	}
	if len(s) != 1 || s[0] != ws {
		return -20
	}
	wl := []int{}
	for _, x := range want.L {
		wl = append(wl, int(x))
	}
	if len(wl) == 0 {
		wl = []int{-1}
	}
	if len(l) != len(wl) {
		return -30
	}
	for i := range l {
		if l[i] != wl[i] {
			return -30
		}
	}
	return id
}

func c08StructToken(r c08Row) int {
	id := int(r.ID)
	if id < 0 {
		return alien
	}
	want := c08RowOf(id)
	if (want.S == nil) != (r.S == nil) || (r.S != nil && *r.S != *want.S) {
		return -20
	}
	if len(r.L) != len(want.L) {
		return -30
	}
	for i := range r.L {
		if r.L[i] != want.L[i] {
			return -30
		}
	}
	return id
}

// a c08Reader adapts one reader kind to seek/read returning tokens.
type c08Reader interface {
	reset() bool // false: this kind of reader has no Reset
	seek(k int) error
	read(n int) (got []int, err error)
	close()
}

type c08Pages struct {
	col   string
	pages parquet.Pages
}

func (p *c08Pages) reset() bool      { return false }
func (p *c08Pages) seek(k int) error { return p.pages.SeekToRow(int64(k)) }
func (p *c08Pages) read(int) ([]int, error) {
	page, err := p.pages.ReadPage()
	if err != nil {
		return []int{}, err
	}
	defer parquet.Release(page)
	got := []int{}
	vr := page.Values()
	buf := make([]parquet.Value, 7)
	for {
		n, err := vr.ReadValues(buf)
		for _, v := range buf[:n] {
			got = append(got, c08Token(p.col, v))
		}
		if err != nil {
			if err == io.EOF {
				return got, nil
			}
			return got, err
		}
		if n == 0 {
			return got, io.ErrNoProgress
		}
	}
}
func (p *c08Pages) close() { p.pages.Close() }

type c08Values struct {
	col string
	r   parquet.ColumnChunkValueReader
}

func (p *c08Values) reset() bool      { return false }
func (p *c08Values) seek(k int) error { return p.r.SeekToRow(int64(k)) }
func (p *c08Values) read(n int) ([]int, error) {
	buf := make([]parquet.Value, n)
	m, err := p.r.ReadValues(buf)
	got := []int{}
	for _, v := range buf[:m] {
		got = append(got, c08Token(p.col, v))
	}
	return got, err
}
func (p *c08Values) close() { p.r.Close() }

type c08Rows struct {
	schema *parquet.Schema // schema of the rows when it is not the file's
	file   *parquet.File
	r      interface {
		parquet.RowReader
		SeekToRow(int64) error
	}
	closer io.Closer
}

func (p *c08Rows) reset() bool {
	if r, ok := p.r.(interface{ Reset() }); ok {
		r.Reset()
		return true
	}
	return false
}
func (p *c08Rows) seek(k int) error { return p.r.SeekToRow(int64(k)) }
func (p *c08Rows) read(n int) ([]int, error) {
	rows := make([]parquet.Row, n)
	m, err := p.r.ReadRows(rows)
	got := []int{}
	for _, row := range rows[:m] {
		if p.schema != nil {
			got = append(got, c08RowTokenOf(p.schema, row))
		} else {
			got = append(got, c08RowToken(p.file, row))
		}
	}
	return got, err
}
func (p *c08Rows) close() {
	if p.closer != nil {
		p.closer.Close()
	}
}

type c08Generic struct {
	r *parquet.GenericReader[c08Row]
}

func (p *c08Generic) reset() bool      { p.r.Reset(); return true }
func (p *c08Generic) seek(k int) error { return p.r.SeekToRow(int64(k)) }
func (p *c08Generic) read(n int) ([]int, error) {
	rows := make([]c08Row, n)
	m, err := p.r.Read(rows)
	got := []int{}
	for _, row := range rows[:m] {
		got = append(got, c08StructToken(row))
	}
	return got, err
}
func (p *c08Generic) close() { p.r.Close() }

// layers: name -> (row groups in file, constructor)
var c08Layers = []string{
	"pages:id", "pages:s", "pages:l",
	"values:id", "values:s", "values:l",
	"rows", "rgreader", "reader", "generic",
	"apages:s", "apages:l", "arows", "areader",
	"multi", "merged", "mergedsorted", "buffer",
	"convertreader", // ConvertRowReader over the rows of the row group: seeks forward only (backward seeks are refused)
	// row-range views of the row group (row_range.go, hook VerifRowRange): the rows and the pages of a column
	"range", "rangepages:id", "rangepages:s", "rangepages:l",
}

// c08Range: the view [off, off+length) a range layer reads (chosen from the variant; never the whole row group)
func c08Range(total, variant int) (off, length int) {
	if total < 2 {
		return 0, total
	}
	off = (variant / 4) % total
	length = 1 + (variant/4/total)%(total-off)
	if off == 0 && length == total {
		length--
	}
	return off, length
}

func c08Open(layer string, sc *c08Scenario, variant int) (c08Reader, *c08File, string, error) {
	ver := 1 + variant%2
	compressed := (variant/2)%2 == 1
	nrg := 1
	kind, col, _ := strings.Cut(layer, ":")
	async := strings.HasPrefix(kind, "a")
	if async {
		kind = kind[1:]
	}
	if kind == "reader" || kind == "generic" || kind == "multi" || kind == "merged" || kind == "mergedsorted" {
		nrg = 2
	}
	bf, err := c08Get(sc.Cfg.PageRows, nrg, ver, compressed)
	if err != nil {
		return nil, nil, "", err
	}
	opts := []parquet.FileOption{parquet.SkipPageIndex(!sc.Cfg.HasIndex)}
	if async {
		opts = append(opts, parquet.FileReadMode(parquet.ReadModeAsync))
	}
	file, err := parquet.OpenFile(bytes.NewReader(bf.data), int64(len(bf.data)), opts...)
	if err != nil {
		return nil, nil, "", err
	}
	itemsCol := "id"
	var rd c08Reader
	switch kind {
	case "pages":
		itemsCol = col
		rd = &c08Pages{col: col, pages: file.RowGroups()[0].ColumnChunks()[c08Leaf(file, col)].Pages()}
	case "values":
		itemsCol = col
		rd = &c08Values{col: col, r: parquet.NewColumnChunkValueReader(file.RowGroups()[0].ColumnChunks()[c08Leaf(file, col)])}
	case "rows":
		rows := file.RowGroups()[0].Rows()
		rd = &c08Rows{file: file, r: rows, closer: rows}
	case "rgreader":
		r := parquet.NewRowGroupReader(file.RowGroups()[0])
		rd = &c08Rows{file: file, r: r, closer: r}
	case "reader":
		r := parquet.NewReader(file)
		rd = &c08Rows{file: file, r: r, closer: r}
	case "generic":
		rd = &c08Generic{r: parquet.NewGenericReader[c08Row](file)}
	case "multi": // the row groups of the file as one logical row group
		rows := parquet.MultiRowGroup(file.RowGroups()...).Rows()
		rd = &c08Rows{file: file, r: rows, closer: rows}
	case "merged", "mergedsorted": // ids increase across row groups: a sorted merge keeps the file order
		opts := []parquet.RowGroupOption{}
		if kind == "mergedsorted" {
			opts = append(opts, parquet.SortingRowGroupConfig(parquet.SortingColumns(parquet.Ascending("id"))))
		}
		m, err := parquet.MergeRowGroups(file.RowGroups(), opts...)
		if err != nil {
			return nil, nil, "", err
		}
		rows := m.Rows()
		rd = &c08Rows{file: file, r: rows, closer: rows, schema: m.Schema()}
	case "convertreader":
		conv, err := parquet.Convert(file.Schema(), file.Schema())
		if err != nil {
			return nil, nil, "", err
		}
		src := file.RowGroups()[0].Rows()
		cr := parquet.ConvertRowReader(src, conv)
		sk, ok := cr.(interface {
			parquet.RowReader
			SeekToRow(int64) error
		})
		if !ok {
			return nil, nil, "", fmt.Errorf("ConvertRowReader no longer exposes SeekToRow")
		}
		rd = &c08Rows{file: file, r: sk, closer: src}
	case "range", "rangepages":
		base := file.RowGroups()[0]
		off, n := c08Range(int(base.NumRows()), variant)
		view := parquet.VerifRowRange(base, int64(off), int64(n))
		if kind == "range" {
			rows := view.Rows()
			rd = &c08Rows{file: file, r: rows, closer: rows}
		} else {
			itemsCol = col
			rd = &c08Pages{col: col, pages: view.ColumnChunks()[c08Leaf(file, col)].Pages()}
		}
	case "buffer": // the same rows in an in-memory buffer
		b := parquet.NewBuffer(file.Schema())
		src := file.RowGroups()[0].Rows()
		if _, err := parquet.CopyRows(b, src); err != nil {
			return nil, nil, "", err
		}
		src.Close()
		rows := b.Rows()
		rd = &c08Rows{file: file, r: rows, closer: rows}
	default:
		return nil, nil, "", fmt.Errorf("unknown layer %q", layer)
	}
	return rd, bf, itemsCol, nil
}

func c08Main(args []string) error {
	seed, _ := strconv.ParseUint(argValue(args, "--seed", "1"), 10, 64)
	layersArg := argValue(args, "--layers", strings.Join(c08Layers, ","))
	scs, err := readScenarios[c08Scenario](argValue(args, "--scenarios", "-"))
	if err != nil {
		return err
	}
	tr := newTracer(os.Stdout)
	defer tr.flush()
	batch := []int{1, 2, 3, 5, 64}
	for si := range scs {
		sc := &scs[si]
		layers := strings.Split(layersArg, ",")
		if sc.Layer != "" {
			layers = []string{sc.Layer}
		}
		for _, layer := range layers {
			rid := sc.ID
			if sc.Orig != 0 {
				rid = sc.Orig
			}
			r := newRng(seed ^ uint64(rid)*1315423911 ^ hashString(layer))
			variant := r.intn(4)
			if strings.HasPrefix(layer, "range") {
				variant += 4 * r.intn(64) // which rows the view shows
			}
			if sc.Variant != nil {
				variant = *sc.Variant
			}
			rd, bf, col, err := c08Open(layer, sc, variant)
			if err != nil {
				return fmt.Errorf("scenario %d layer %s: %w", sc.ID, layer, err)
			}
			items, rowStart := bf.items[col], bf.rowStart[col]
			if strings.HasPrefix(layer, "range") {
				// what a sequential read of the view returns: the items of its rows
				off, n := c08Range(sumInts(sc.Cfg.PageRows), variant)
				first := rowStart[off]
				items = items[first:rowStart[off+n]]
				rs := make([]int, n+1)
				for i := range rs {
					rs[i] = rowStart[off+i] - first
				}
				rowStart = rs
			}
			tr.begin(ev{"sc": sc.ID, "layer": layer, "variant": variant,
				"items": ints(items), "rowStart": ints(rowStart)})
			for _, op := range sc.Ops {
				switch op.Op {
				case "seek":
					k := op.K
					// files with two row groups: address either copy of the layout
					if bf.total > sumInts(sc.Cfg.PageRows) && r.intn(2) == 1 {
						k += sumInts(sc.Cfg.PageRows)
					}
					if strings.HasPrefix(layer, "range") {
						k %= len(rowStart) // rows of the view, and one past its end
					}
					var serr error
					pan, msg := guard(func() { serr = rd.seek(k) })
					e := ev{"k": k, "err": b2i(serr != nil || pan), "panic": b2i(pan)}
					if serr != nil {
						e["msg"] = serr.Error()
					} else if pan {
						e["msg"] = msg
					}
					tr.emit("Seek", e)
				case "reset": // back to the first row: Reset where the reader has it, SeekToRow(0) otherwise
					var serr error
					did := false
					pan, msg := guard(func() {
						if did = rd.reset(); !did {
							serr = rd.seek(0)
						}
					})
					e := ev{"k": 0, "err": b2i(serr != nil || pan), "panic": b2i(pan), "reset": b2i(did)}
					if serr != nil {
						e["msg"] = serr.Error()
					} else if pan {
						e["msg"] = msg
					}
					tr.emit("Seek", e)
				case "read":
					n := batch[r.intn(len(batch))]
					if op.K > 0 { // a read of a given size (directed histories)
						n = op.K
					}
					var got []int
					var rerr error
					pan, msg := guard(func() { got, rerr = rd.read(n) })
					eof := errors.Is(rerr, io.EOF)
					e := ev{"n": n, "got": ints(got), "eof": b2i(eof), "err": b2i((rerr != nil && !eof) || pan), "panic": b2i(pan)}
					if rerr != nil && !eof {
						e["msg"] = rerr.Error()
					} else if pan {
						e["msg"] = msg
					}
					tr.emit("Read", e)
				}
			}
			guard(rd.close)
		}
	}
	return nil
}

func sumInts(s []int) int {
	t := 0
	for _, x := range s {
		t += x
	}
	return t
}
