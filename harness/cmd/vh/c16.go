package main

import (
	"bytes"
	"io"
	"os"
	"runtime"
	"strconv"

	"github.com/parquet-go/parquet-go"
)

// C16: values handed to the caller are not changed by later library activity.
// Scenario: a history of abstract operations from Ownership.tla (read within a page, read across
// pages, clone, typed read, seek, churn). Memory returned to the pools is poisoned (hook), so a
// reference into pooled memory shows up as a changed value. Every value is deep-copied on receipt
// and compared later; the trace records the comparisons, SnapMon.tla applies the validity windows.

func init() { commands["c16"] = c16Main }

type c16Scenario struct {
	ID     int      `json:"id"`
	Orig   int      `json:"orig,omitempty"`
	Ops    []string `json:"ops"`
	Reader string   `json:"reader,omitempty"`
	Var    *int     `json:"var,omitempty"`
}

var c16Readers = []string{"rows", "reader", "values", "merged", "converted", "generic"}

const c16Rows = 48

// c16DictFallback: when set, files are written with a tiny dictionary limit, so that the chunks of the
// dictionary-encoded columns start with a dictionary page and continue with PLAIN pages.
var c16DictFallback bool

func c16File(compressed bool, ver int, seed uint64, first int) []byte {
	buf := new(bytes.Buffer)
	opts := []parquet.WriterOption{parquet.PageBufferSize(512), parquet.DataPageVersion(ver)}
	if c16DictFallback {
		// every byte array column starts dictionary-encoded; the 300-byte string of the value table overflows the limit
		// somewhere in the middle of the chunk
		opts = append(opts, parquet.DictionaryMaxBytes(150), parquet.DefaultEncodingFor(parquet.ByteArray, &parquet.RLEDictionary))
	}
	if compressed {
		opts = append(opts, parquet.Compression(&parquet.Snappy))
	}
	w := parquet.NewGenericWriter[wRow](buf, opts...)
	rows := make([]wRow, c16Rows)
	for i := range rows {
		rows[i] = wRowOf(first+i, seed)
	}
	if c16DictFallback {
		// several pages per column, so that the dictionary limit is crossed after some dictionary-encoded pages
		for i := 0; i < len(rows); i += 6 {
			w.Write(rows[i:min(i+6, len(rows))])
			for _, cw := range w.ColumnWriters() {
				cw.Flush()
			}
		}
	} else {
		w.Write(rows)
	}
	w.Close()
	return buf.Bytes()
}

type c16Hold struct {
	id     int
	row    parquet.Row // nil for typed holds
	snap   parquet.Row
	typed  *wRow
	tsnap  wRow
	window string
	epoch  int // number of calls made on the reader when the value was received
}

func c16DeepCopy(r wRow) wRow {
	c := r
	c.Bytes = append([]byte(nil), r.Bytes...)
	c.S = string(append([]byte(nil), r.S...))
	c.SD = string(append([]byte(nil), r.SD...))
	if r.OptS != nil {
		s := string(append([]byte(nil), *r.OptS...))
		c.OptS = &s
	}
	if r.OptI != nil {
		x := *r.OptI
		c.OptI = &x
	}
	c.L = append([]int64(nil), r.L...)
	c.LS = nil
	for _, s := range r.LS {
		c.LS = append(c.LS, string(append([]byte(nil), s...)))
	}
	if r.M != nil {
		c.M = map[string]int64{}
		for k, v := range r.M {
			c.M[string(append([]byte(nil), k...))] = v
		}
	}
	c.N.B = nil
	for _, s := range r.N.B {
		c.N.B = append(c.N.B, string(append([]byte(nil), s...)))
	}
	if r.NP != nil {
		in := wInner{A: r.NP.A}
		for _, s := range r.NP.B {
			in.B = append(in.B, string(append([]byte(nil), s...)))
		}
		c.NP = &in
	}
	return c
}

func c16SameRow(a, b parquet.Row) bool {
	if len(a) != len(b) {
		return false
	}
	for i := range a {
		if a[i].Kind() != b[i].Kind() || a[i].IsNull() != b[i].IsNull() || a[i].Column() != b[i].Column() ||
			a[i].RepetitionLevel() != b[i].RepetitionLevel() || a[i].DefinitionLevel() != b[i].DefinitionLevel() {
			return false
		}
		if !a[i].IsNull() && !bytes.Equal(a[i].Bytes(), b[i].Bytes()) {
			return false
		}
	}
	return true
}

func c16Churn(seed uint64, round int) {
	// unrelated readers and writers in the same process reuse the pools
	// rows taken apart by reflection (Schema.Deconstruct and its scratch space): Writer.Write(any), Buffer.Write(any)
	out := new(bytes.Buffer)
	w := parquet.NewWriter(out, wSchema)
	b := parquet.NewBuffer(wSchema)
	for i := 0; i < 12; i++ {
		row := wRowOf(5000*round+i, seed+uint64(round))
		w.Write(&row)
		b.Write(&row)
	}
	w.Close()
	data := c16File(round%2 == 0, 1+round%2, seed+uint64(round), 1000*round)
	f, err := parquet.OpenFile(bytes.NewReader(data), int64(len(data)))
	if err == nil {
		r := parquet.NewGenericReader[wRow](f)
		buf := make([]wRow, 16)
		for {
			n, err := r.Read(buf)
			if err != nil || n == 0 {
				break
			}
		}
		r.Close()
	}
	runtime.GC()
}

func c16Main(args []string) error {
	seed, _ := strconv.ParseUint(argValue(args, "--seed", "1"), 10, 64)
	scs, err := readScenarios[c16Scenario](argValue(args, "--scenarios", "-"))
	if err != nil {
		return err
	}
	parquet.VerifSetPoison(true)
	tr := newTracer(os.Stdout)
	defer tr.flush()
	schema := parquet.SchemaOf(wRow{})
	for si := range scs {
		sc := &scs[si]
		rid := sc.ID
		if sc.Orig != 0 {
			rid = sc.Orig
		}
		readers := c16Readers
		if sc.Reader != "" {
			readers = []string{sc.Reader}
		}
		for _, kind := range readers {
			r := newRng(seed ^ uint64(rid)*0x9E3779B1 ^ hashString(kind))
			variant := r.intn(16)
			if sc.Var != nil {
				variant = *sc.Var
			}
			c16DictFallback = variant&4 != 0
			reuseBatch := variant&8 != 0 // the caller passes the same batch to every Read and keeps shallow copies
			data := c16File(variant%2 == 1, 1+(variant/2)%2, seed, 0)
			f, err := parquet.OpenFile(bytes.NewReader(data), int64(len(data)))
			if err != nil {
				return err
			}
			tr.begin(ev{"sc": sc.ID, "reader": kind, "var": variant})
			// the reader under test
			var rows interface {
				ReadRows([]parquet.Row) (int, error)
				SeekToRow(int64) error
			}
			var values parquet.ColumnChunkValueReader
			var generic *parquet.GenericReader[wRow]
			var closer io.Closer
			rowSchema := schema
			switch kind {
			case "rows":
				rr := f.RowGroups()[0].Rows()
				rows, closer = rr, rr
			case "reader":
				rd := parquet.NewReader(f)
				rows, closer = rd, rd
			case "merged":
				data2 := c16File(false, 2, seed, 0)
				f2, _ := parquet.OpenFile(bytes.NewReader(data2), int64(len(data2)))
				m, err := parquet.MergeRowGroups([]parquet.RowGroup{f.RowGroups()[0], f2.RowGroups()[0]}, schema)
				if err != nil {
					return err
				}
				rr := m.Rows()
				rows, closer = rr, rr
			case "converted":
				conv, err := parquet.Convert(schema, f.Schema())
				if err != nil {
					return err
				}
				rr := parquet.ConvertRowGroup(f.RowGroups()[0], conv).Rows()
				rows, closer = rr, rr
			case "values":
				// the string column: values point into page memory
				col := -1
				for i, p := range f.Schema().Columns() {
					if p[0] == "s" {
						col = i
					}
				}
				values = parquet.NewColumnChunkValueReader(f.RowGroups()[0].ColumnChunks()[col])
				closer = values
			case "generic":
				generic = parquet.NewGenericReader[wRow](f)
				closer = generic
			}
			holds := []*c16Hold{}
			nextHold := 0
			epoch := 0 // calls made on the reader under test: rows of the "call" window are valid until the next one
			gbatch := make([]wRow, 32)
			check := func() {
				for _, h := range holds {
					same := false
					if h.typed != nil {
						same = wSame(*h.typed, h.tsnap) == 0
					} else {
						same = c16SameRow(h.row, h.snap)
					}
					tr.emit("Check", ev{"h": h.id, "same": b2i(same)})
				}
			}
			addRowHold := func(row parquet.Row, window string, asWritten bool) {
				nextHold++
				h := &c16Hold{id: nextHold, row: row, snap: row.Clone(), window: window, epoch: epoch}
				holds = append(holds, h)
				tr.emit("Hold", ev{"h": h.id, "window": window, "reader": kind, "asWritten": b2i(asWritten)})
			}
			rowAsWritten := func(row parquet.Row) bool {
				var x wRow
				if err := rowSchema.Reconstruct(&x, row); err != nil {
					return false
				}
				return wToken(x, seed) >= 0
			}
			churns := 0
			for _, op := range sc.Ops {
				switch op {
				case "read", "readmany":
					epoch++
					n := 1 + r.intn(2)
					if op == "readmany" {
						n = 9 + r.intn(20) // spans several pages
					}
					tr.emit("Call", ev{"reader": kind})
					pan, _ := guard(func() {
						switch {
						case rows != nil:
							buf := make([]parquet.Row, n)
							m, _ := rows.ReadRows(buf)
							for _, row := range buf[:m] {
								addRowHold(row, "call", rowAsWritten(row))
							}
						case values != nil:
							buf := make([]parquet.Value, n)
							m, _ := values.ReadValues(buf)
							if m > 0 {
								row := parquet.Row(buf[:m])
								ok := true
								for _, v := range row {
									ok = ok && !v.IsNull() // column s is required
								}
								addRowHold(row, "call", ok)
							}
						case generic != nil:
							buf := make([]wRow, n)
							if reuseBatch {
								buf = gbatch[:min(n, len(gbatch))]
							}
							m, _ := generic.Read(buf)
							for i := 0; i < m; i++ {
								nextHold++
								kept := &buf[i]
								if reuseBatch {
									c := buf[i] // what append(all, batch[:n]...) keeps: a copy of the struct, sharing what it points to
									kept = &c
								}
								h := &c16Hold{id: nextHold, typed: kept, tsnap: c16DeepCopy(buf[i]), window: "forever"}
								holds = append(holds, h)
								tr.emit("Hold", ev{"h": h.id, "window": "forever", "reader": kind, "asWritten": b2i(wToken(buf[i], seed) >= 0)})
							}
						}
					})
					if pan {
						tr.emit("Hold", ev{"h": -1, "window": "call", "reader": kind, "asWritten": 0})
					}
				case "clone":
					// what the caller holds is cloned: the clones stay valid forever
					for _, h := range holds {
						if h.row != nil && h.window == "call" && h.epoch == epoch { // still inside its window
							c := h.row.Clone()
							nextHold++
							nh := &c16Hold{id: nextHold, row: c, snap: c.Clone(), window: "forever"}
							holds = append(holds, nh)
							tr.emit("Hold", ev{"h": nh.id, "window": "forever", "reader": kind, "asWritten": b2i(c16SameRow(c, h.snap))})
						}
					}
				case "typed":
					tr.emit("Call", ev{"reader": "other"})
					all, err := parquet.Read[wRow](bytes.NewReader(data), int64(len(data)))
					if err == nil && len(all) > 0 {
						i := r.intn(len(all))
						nextHold++
						h := &c16Hold{id: nextHold, typed: &all[i], tsnap: c16DeepCopy(all[i]), window: "forever"}
						holds = append(holds, h)
						tr.emit("Hold", ev{"h": h.id, "window": "forever", "reader": "Read[T]", "asWritten": b2i(wToken(all[i], seed) >= 0)})
					}
				case "seek":
					epoch++
					tr.emit("Call", ev{"reader": kind})
					guard(func() {
						k := int64(r.intn(c16Rows))
						switch {
						case rows != nil:
							rows.SeekToRow(k)
						case values != nil:
							values.SeekToRow(k)
						case generic != nil:
							generic.SeekToRow(k)
						}
					})
				case "churn":
					churns++
					c16Churn(seed, churns)
				}
				check()
			}
			tr.emit("Call", ev{"reader": kind})
			guard(func() { closer.Close() })
			c16Churn(seed, 99)
			check()
			// writer side: the caller's rows must not be modified by Write
			in := make([]wRow, 20)
			snap := make([]wRow, 20)
			for i := range in {
				in[i] = wRowOf(i, seed+7)
				snap[i] = c16DeepCopy(in[i])
			}
			out := new(bytes.Buffer)
			w := parquet.NewGenericWriter[wRow](out, parquet.PageBufferSize(256))
			w.Write(in)
			w.Close()
			same := true
			for i := range in {
				same = same && wSame(in[i], snap[i]) == 0
			}
			tr.emit("Input", ev{"same": b2i(same)})
		}
	}
	return nil
}
