package main

import (
	"bytes"
	"fmt"
	"io"
	"os"
	"sort"
	"strconv"

	"github.com/parquet-go/parquet-go"
)

// C09: merging sorted row groups yields a sorted, complete, per-input-stable sequence.
// Scenario: a sorting configuration and k inputs, each a sorted list of key
// tokens (0 = null). Every abstract row becomes a block of physical rows with
// the same key (block size from the seed: 1, 3 or 400 so that the range
// refinement, which needs >= 1024-row stretches, is reached).

func init() { commands["c09"] = c09Main }

type c09Scenario struct {
	ID   int `json:"id"`
	Orig int `json:"orig,omitempty"`
	Cfg  struct {
		Desc       bool `json:"desc"`
		NullsFirst bool `json:"nullsFirst"`
	} `json:"cfg"`
	Inputs [][]int `json:"inputs"`
	Var    *int    `json:"var,omitempty"`
}

// fields in alphabetical order: MergeRowGroups orders the merged schema alphabetically, and only
// row groups whose schema equals the writer's take the chunk-level fast paths of WriteRowGroup
type c09Row struct {
	Idx int32  `parquet:"idx"`
	K   *int64 `parquet:"k"`
	Src int32  `parquet:"src"`
	Sub int32  `parquet:"sub"` // second sorting column of the two-column mode
	Tag string `parquet:"tag"` // a byte-array payload naming the row: its memory belongs to the source
}

func c09Tag(src, idx int32) string { return fmt.Sprintf("row-%d-%d-of-the-input", src, idx) }

func c09Sorting(sc *c09Scenario) parquet.SortingColumn {
	var col parquet.SortingColumn = parquet.Ascending("k")
	if sc.Cfg.Desc {
		col = parquet.Descending("k")
	}
	if sc.Cfg.NullsFirst {
		col = parquet.NullsFirst(col)
	}
	return col
}

func c09Main(args []string) error {
	seed, _ := strconv.ParseUint(argValue(args, "--seed", "1"), 10, 64)
	scs, err := readScenarios[c09Scenario](argValue(args, "--scenarios", "-"))
	if err != nil {
		return err
	}
	tr := newTracer(os.Stdout)
	defer tr.flush()
	for si := range scs {
		sc := &scs[si]
		rid := sc.ID
		if sc.Orig != 0 {
			rid = sc.Orig
		}
		r := newRng(seed ^ uint64(rid)*0x9E3779B1)
		variant := int(r.next() % 4096)
		if sc.Var != nil {
			variant = *sc.Var
		}
		v := variant
		take := func(n int) int { x := v % n; v /= n; return x }
		block := []int{1, 3, 1, 400, 3, 1, 1100, 2}[take(8)] // 1100: a single abstract row is a >= 1024-row stretch
		dedupe := take(2) == 1
		source := []string{"file", "buffer", "file-multipage"}[take(3)]
		compressed := take(2) == 1
		// spread: the physical rows of an abstract key get distinct, interleaving key values (so pages hold
		// key RANGES, as in time-ordered files); otherwise all rows of a block share one key value
		spread := take(2) == 1
		// two: the key of the spread mode split over two sorting columns: k is shared by the rows of an abstract key,
		// sub orders them (in the same direction); page bounds of the first column alone no longer order the rows
		two := take(2) == 1 && !spread
		sorting := []parquet.SortingColumn{c09Sorting(sc)}
		if two {
			if sc.Cfg.Desc {
				sorting = append(sorting, parquet.Descending("sub"))
			} else {
				sorting = append(sorting, parquet.Ascending("sub"))
			}
		}

		// build the inputs
		inputs := make([][]c09Row, len(sc.Inputs))
		keys := make([][]int, len(sc.Inputs)) // physical key tokens
		for i, in := range sc.Inputs {
			idx := 0
			count := map[int]int{} // abstract rows of this key seen so far in this input
			total := map[int]int{}
			for _, k := range in {
				total[k]++
			}
			for _, k := range in {
				for j := 0; j < block; j++ {
					row := c09Row{Src: int32(i), Idx: int32(idx), Tag: c09Tag(int32(i), int32(idx))}
					tok := k
					if k != 0 {
						x := int64(k)*1000 - 1500
						if spread || two {
							pos := count[k]*block + j // position among this input's rows of abstract key k
							if sc.Cfg.Desc {
								pos = total[k]*block - 1 - pos
							}
							tok = k*100000 + pos*len(sc.Inputs) + i
							if spread {
								x = int64(tok)
							} else {
								row.Sub = int32(pos*len(sc.Inputs) + i)
							}
						}
						row.K = &x
					}
					inputs[i] = append(inputs[i], row)
					keys[i] = append(keys[i], tok)
					idx++
				}
				count[k]++
			}
		}
		rgs := []parquet.RowGroup{}
		var buildErr error
		for i := range inputs {
			switch source {
			case "buffer":
				b := parquet.NewGenericBuffer[c09Row](parquet.SortingRowGroupConfig(parquet.SortingColumns(sorting...)))
				if _, err := b.Write(inputs[i]); err != nil {
					buildErr = err
				}
				rgs = append(rgs, b)
			default:
				buf := new(bytes.Buffer)
				opts := []parquet.WriterOption{parquet.SortingWriterConfig(parquet.SortingColumns(sorting...))}
				if compressed {
					opts = append(opts, parquet.Compression(&parquet.Snappy))
				}
				if spread || two {
					opts = append(opts, parquet.PageBufferSize(512)) // many small pages, each a key range
				}
				w := parquet.NewGenericWriter[c09Row](buf, opts...)
				per := len(inputs[i])
				if source == "file-multipage" {
					per = max(block, 1) // one page per abstract row
				}
				for off := 0; off < len(inputs[i]); off += per {
					end := min(off+per, len(inputs[i]))
					if _, err := w.Write(inputs[i][off:end]); err != nil {
						buildErr = err
					}
					for _, cw := range w.ColumnWriters() {
						cw.Flush()
					}
				}
				if err := w.Close(); err != nil {
					buildErr = err
				}
				f, err := parquet.OpenFile(bytes.NewReader(buf.Bytes()), int64(buf.Len()))
				if err != nil {
					buildErr = err
				} else {
					rgs = append(rgs, f.RowGroups()...)
				}
			}
		}
		if buildErr != nil {
			return fmt.Errorf("scenario %d: building inputs: %w", sc.ID, buildErr)
		}
		tr.begin(ev{"sc": sc.ID, "var": variant, "cfg": ev{"desc": sc.Cfg.Desc, "nullsFirst": sc.Cfg.NullsFirst, "dedupe": dedupe},
			"inputs": keys, "block": block, "source": source, "spread": spread, "two": two})

		project := func(rows []c09Row) [][]int {
			out := make([][]int, len(rows))
			for i, row := range rows {
				k := 0
				if row.K != nil && spread {
					k = int(*row.K)
				} else if row.K != nil {
					x := *row.K + 1500
					if x%1000 != 0 || x < 1000 || x > 9000 {
						k = alien
					} else {
						k = int(x / 1000)
						if two {
							k = k*100000 + int(row.Sub)
						}
					}
				}
				out[i] = []int{int(row.Src), int(row.Idx), k}
			}
			return out
		}
		emit := func(path string, rows []c09Row, err error, pan bool, msg string) {
			e := ev{"path": path, "rows": project(rows), "err": b2i(err != nil || pan)}
			if err != nil {
				e["msg"] = err.Error()
			} else if pan {
				e["msg"] = "panic: " + msg
			}
			if len(rows) == 0 {
				e["rows"] = [][]int{}
			}
			tr.emit("Out", e)
		}
		mergeOpts := []parquet.RowGroupOption{parquet.SortingRowGroupConfig(parquet.SortingColumns(sorting...), parquet.DropDuplicatedRows(dedupe))}
		readRows := func(rows parquet.RowReader, batch int) ([]c09Row, error) {
			out := []c09Row{}
			schema := parquet.SchemaOf(c09Row{})
			buf := make([]parquet.Row, batch)
			for {
				n, err := rows.ReadRows(buf)
				for _, row := range buf[:n] {
					var x c09Row
					// merged schemas may reorder columns: look values up by column name
					if e := c09Decode(schema, row, &x); e != nil {
						return out, e
					}
					out = append(out, x)
				}
				if err != nil {
					if err == io.EOF {
						return out, nil
					}
					return out, err
				}
				if n == 0 {
					return out, io.ErrNoProgress
				}
			}
		}
		for _, batch := range []int{1, 2, 7, 1000} {
			if batch == 7 && r.intn(2) == 0 {
				continue
			}
			var rows []c09Row
			var err error
			pan, msg := guard(func() {
				merged, e := parquet.MergeRowGroups(rgs, mergeOpts...)
				if e != nil {
					err = e
					return
				}
				rr := merged.Rows()
				defer rr.Close()
				c09Schema = merged.Schema()
				rows, err = readRows(rr, batch)
			})
			emit("MergeRowGroups.Rows/batch="+strconv.Itoa(batch), rows, err, pan, msg)
		}
		{ // the merged row group written to a file, then read back
			var rows []c09Row
			var err error
			pan, msg := guard(func() {
				merged, e := parquet.MergeRowGroups(rgs, mergeOpts...)
				if e != nil {
					err = e
					return
				}
				out := new(bytes.Buffer)
				w := parquet.NewWriter(out, merged.Schema())
				if _, e := w.WriteRowGroup(merged); e != nil {
					err = e
					return
				}
				if e := w.Close(); e != nil {
					err = e
					return
				}
				f, e := parquet.OpenFile(bytes.NewReader(out.Bytes()), int64(out.Len()))
				if e != nil {
					err = e
					return
				}
				c09Schema = f.Schema()
				for _, rg := range f.RowGroups() {
					rr := rg.Rows()
					part, e := readRows(rr, 50)
					rr.Close()
					rows = append(rows, part...)
					if e != nil {
						err = e
						return
					}
				}
			})
			emit("Writer.WriteRowGroup(merged)", rows, err, pan, msg)
		}
		if !dedupe { // MergeRowReaders over chunking readers, with Schema.Comparator
			var rows []c09Row
			var err error
			pan, msg := guard(func() {
				schema := parquet.SchemaOf(c09Row{})
				c09Schema = schema
				readers := make([]parquet.RowReader, len(inputs))
				for i := range inputs {
					readers[i] = &c09Chunker{rows: inputs[i], schema: schema, chunk: []int{1, 2, 3, 5, 8, 24}[r.intn(6)], recycle: r.intn(2) == 1}
				}
				rows, err = readRows(parquet.MergeRowReaders(readers, schema.Comparator(sorting...)), []int{3, 16, 64}[r.intn(3)])
			})
			emit("MergeRowReaders", rows, err, pan, msg)
		}
	}
	return nil
}

var c09Schema *parquet.Schema

func c09Decode(_ *parquet.Schema, row parquet.Row, x *c09Row) error {
	cols := c09Schema.Columns()
	for _, v := range row {
		c := v.Column()
		if c < 0 || c >= len(cols) {
			return fmt.Errorf("value with column index %d", c)
		}
		switch cols[c][0] {
		case "k":
			if !v.IsNull() {
				k := v.Int64()
				x.K = &k
			}
		case "src":
			x.Src = v.Int32()
		case "sub":
			x.Sub = v.Int32()
		case "idx":
			x.Idx = v.Int32()
		case "tag":
			x.Tag = string(v.ByteArray())
		}
	}
	if x.Tag != c09Tag(x.Src, x.Idx) { // the payload no longer belongs to the row: not one of the rows written
		x.Idx = -1000 - x.Idx
	}
	return nil
}

// c09Chunker serves rows in small chunks (a RowReader whose ReadRows returns fewer rows than asked).
// With recycle set, the byte arrays of the rows live in a buffer of the reader that is overwritten by the
// next call, as the RowReader contract allows (rows are valid until the next ReadRows).
type c09Chunker struct {
	rows    []c09Row
	schema  *parquet.Schema
	chunk   int
	off     int
	recycle bool
	scratch []byte
}

func (c *c09Chunker) ReadRows(rows []parquet.Row) (int, error) {
	n := 0
	if c.recycle {
		for i := range c.scratch {
			c.scratch[i] = '#'
		}
		c.scratch = c.scratch[:0]
	}
	for n < len(rows) && n < c.chunk && c.off < len(c.rows) {
		rows[n] = c.schema.Deconstruct(rows[n][:0], &c.rows[c.off])
		if c.recycle {
			if cap(c.scratch) == 0 {
				c.scratch = make([]byte, 0, 1<<16)
			}
			for j, v := range rows[n] {
				if v.Kind() == parquet.ByteArray {
					at := len(c.scratch)
					c.scratch = append(c.scratch, v.ByteArray()...)
					rows[n][j] = parquet.ByteArrayValue(c.scratch[at:len(c.scratch):len(c.scratch)]).Level(v.RepetitionLevel(), v.DefinitionLevel(), v.Column())
				}
			}
		}
		c.off++
		n++
	}
	if c.off == len(c.rows) {
		return n, io.EOF
	}
	return n, nil
}

var _ = sort.Ints
