package main

import (
	"bytes"
	"crypto/sha256"
	"encoding/hex"
	"errors"
	"fmt"
	"github.com/parquet-go/parquet-go"
	"io"
	"os"
	"strconv"
)

// C17: output bytes are a function of input and options only.
// A scenario is a prior history P (possibly with a failing sink, possibly
// abandoned without Close), then Reset, then a history H. The file produced by
// H on the reused writer must be byte-identical to H on a fresh writer, in
// another goroutine, and in the purego build (compared by the monitor).

func init() { commands["c17"] = c17Main }

type c17Scenario struct {
	ID     int    `json:"id"`
	Orig   int    `json:"orig,omitempty"`
	Cfg    wCfg   `json:"cfg"`
	Prior  []wOp  `json:"prior"`
	H      []wOp  `json:"h"`
	FailAt int    `json:"failAt"` // the prior sink fails after this many bytes (-1: never)
	API    string `json:"api,omitempty"`
	Scale  int    `json:"scale,omitempty"` // as in c01: every write k times larger, rows from the high-cardinality id space
}

type failingSink struct {
	n, limit int
}

func (s *failingSink) Write(b []byte) (int, error) {
	if s.limit >= 0 && s.n+len(b) > s.limit {
		k := s.limit - s.n
		if k < 0 {
			k = 0
		}
		s.n += k
		return k, errors.New("sink failure")
	}
	s.n += len(b)
	return len(b), nil
}

// silent runs a history without emitting events (the prior history proves nothing by itself).
func c17Silent(w wWriter, ops []wOp, seed uint64, salt int) {
	next := 1000 * salt
	for _, op := range ops {
		guard(func() {
			switch op.Op {
			case "write":
				rows := make([]wRow, op.N)
				for i := range rows {
					rows[i] = wRowOf(next+i, seed)
				}
				next += op.N
				w.write(rows)
			case "colflush":
				for i, cw := range w.columnWriters() {
					if (op.C == 1 && i == 0) || (op.C != 1 && i%2 == 1) {
						cw.Flush()
					}
				}
			case "flush":
				w.flush()
			case "close":
				w.close()
			}
		})
	}
}

// c17Base: first row id of a produced file (wBulk for scenarios at scale)
var c17Base int

func c17Produce(w wWriter, ops []wOp, seed uint64) error {
	next := c17Base
	closed := false
	for _, op := range ops {
		var err error
		switch op.Op {
		case "write":
			rows := make([]wRow, op.N)
			for i := range rows {
				rows[i] = wRowOf(next+i, seed)
			}
			next += op.N
			_, err = w.write(rows)
		case "wrg": // the rows arrive as a sorted in-memory row group
			b := parquet.NewGenericBuffer[wRow](parquet.SortingRowGroupConfig(parquet.SortingColumns(parquet.Ascending("id"))))
			rows := make([]wRow, op.N)
			for i := range rows {
				rows[i] = wRowOf(next+i, seed)
			}
			next += op.N
			if _, err = b.Write(rows); err == nil {
				_, err = w.writeRowGroup(b)
			}
		case "colflush":
			for i, cw := range w.columnWriters() {
				if (op.C == 1 && i == 0) || (op.C != 1 && i%2 == 1) {
					if e := cw.Flush(); e != nil {
						err = e
					}
				}
			}
		case "flush":
			err = w.flush()
		case "close":
			err = w.close()
			closed = true
		}
		if err != nil {
			return err
		}
	}
	if !closed {
		return w.close()
	}
	return nil
}

func c17Main(args []string) error {
	seed, _ := strconv.ParseUint(argValue(args, "--seed", "1"), 10, 64)
	build := argValue(args, "--build", "default")
	keep := argValue(args, "--keep-files", "")
	scs, err := readScenarios[c17Scenario](argValue(args, "--scenarios", "-"))
	if err != nil {
		return err
	}
	tr := newTracer(os.Stdout)
	defer tr.flush()
	for si := range scs {
		sc := &scs[si]
		rid := sc.ID
		if sc.Orig != 0 {
			rid = sc.Orig
		}
		r := newRng(seed ^ uint64(rid)*0x9E3779B1)
		api := sc.API
		if api == "" {
			api = wAPIs[r.intn(len(wAPIs))]
		}
		encPick := r.next() // the same encoding choices for every writer of this scenario
		mk := func(out io.Writer) wWriter { return wNew(api, out, wOptions(sc.Cfg, &rng{s: encPick})) }
		c17Base = 0
		if sc.Scale > 1 {
			c17Base = wBulk
			sc.Cfg.MaxRows *= sc.Scale
			for _, ops := range [][]wOp{sc.Prior, sc.H} {
				for i := range ops {
					ops[i].N *= sc.Scale
				}
			}
		}
		tr.begin(ev{"sc": sc.ID, "key": fmt.Sprintf("%d/%s", rid, api), "build": build, "api": api, "cfg": sc.Cfg, "scale": sc.Scale})
		emit := func(variant string, data []byte, err error) {
			sum := sha256.Sum256(data)
			e := ev{"variant": variant, "err": b2i(err != nil), "sha": hex.EncodeToString(sum[:]), "len": len(data)}
			if err != nil {
				e["msg"] = err.Error()
			}
			tr.emit("Out", e)
		}
		run := func(variant string, f func() ([]byte, error)) []byte {
			var data []byte
			var err error
			if pan, msg := guard(func() { data, err = f() }); pan {
				err = fmt.Errorf("panic: %s", msg)
			}
			emit(variant, data, err)
			return data
		}
		fresh := func() ([]byte, error) {
			buf := new(bytes.Buffer)
			err := c17Produce(mk(buf), sc.H, seed)
			return buf.Bytes(), err
		}
		ref := run("fresh", fresh)
		reused := run("reused", func() ([]byte, error) {
			w := mk(&failingSink{limit: sc.FailAt})
			if rid%3 == 0 { // the earlier file also got key/value metadata at run time
				w.setKV("earlier-file", "only")
			}
			c17Silent(w, sc.Prior, seed, 1)
			buf := new(bytes.Buffer)
			w.reset(buf)
			err := c17Produce(w, sc.H, seed)
			return buf.Bytes(), err
		})
		// the bytes do not depend on what recycled pool memory holds: the same file with every buffer that goes
		// back to the pools overwritten (hook)
		run("poisoned", func() ([]byte, error) {
			parquet.VerifSetPoison(true)
			defer parquet.VerifSetPoison(false)
			return fresh()
		})
		run("goroutine", func() ([]byte, error) {
			type res struct {
				b []byte
				e error
			}
			ch := make(chan res, 1)
			go func() {
				b, e := fresh()
				ch <- res{b, e}
			}()
			x := <-ch
			return x.b, x.e
		})
		if keep != "" {
			os.WriteFile(fmt.Sprintf("%s/c17-%d-fresh.parquet", keep, sc.ID), ref, 0o644)
			os.WriteFile(fmt.Sprintf("%s/c17-%d-reused.parquet", keep, sc.ID), reused, 0o644)
		}
		if !bytes.Equal(ref, reused) {
			// diagnostic only: where do the two files differ
			off := 0
			for off < len(ref) && off < len(reused) && ref[off] == reused[off] {
				off++
			}
			tr.emit("Diff", ev{"offset": off, "lenFresh": len(ref), "lenReused": len(reused)})
		}
	}
	return nil
}
