package main

import (
	"bytes"
	"crypto/sha256"
	"encoding/hex"
	"fmt"
	"hash"
	"io"
	"os"
	"runtime"
	"sort"
	"strconv"
	"sync"
	"time"

	"github.com/parquet-go/parquet-go"
)

// C15, usage patterns: work that the documentation allows to run on several
// goroutines is run concurrently and serially; the harness reports a digest
// of every task's result in both runs (Serial / Conc events) and the pointers
// seen by concurrent callers of lazily published objects (Publish events).
// ConcMon.tla compares. The binary is built with -race; race reports go to
// stderr, where bin/check turns them into Race events of the scenario that
// was running (marker lines "##sc").

func init() { commands["c15"] = c15Main }

type c15Step struct {
	Who int    `json:"who"`
	Op  string `json:"op"`
	B   int    `json:"b"`
}

type c15Scenario struct {
	ID       int       `json:"id"`
	Orig     int       `json:"orig,omitempty"`
	Pat      string    `json:"pat"`
	Tasks    []string  `json:"tasks,omitempty"`
	N        int       `json:"n,omitempty"`
	Steps    []c15Step `json:"steps,omitempty"`
	Arrivals []int     `json:"arrivals,omitempty"`
	Releases []int     `json:"releases,omitempty"`
	Var      *uint64   `json:"var,omitempty"`
}

type c15Ctx struct {
	lg   *c15Log
	sc   *c15Scenario
	r    *rng
	seed uint64
}

func c15Digest(b []byte) string {
	s := sha256.Sum256(b)
	return hex.EncodeToString(s[:8])
}

func c15Main(args []string) error {
	seed, _ := strconv.ParseUint(argValue(args, "--seed", "1"), 10, 64)
	first, _ := strconv.Atoi(argValue(args, "--first-trace", "1"))
	scs, err := readScenarios[c15Scenario](argValue(args, "--scenarios", "-"))
	if err != nil {
		return err
	}
	lg := &c15Log{tr: newTracer(os.Stdout)}
	lg.tr.t = first - 1
	defer lg.tr.flush()
	for si := range scs {
		sc := &scs[si]
		rid := sc.ID
		if sc.Orig != 0 {
			rid = sc.Orig
		}
		variant := newRng(seed ^ uint64(rid)*0x9E3779B1 ^ hashString(sc.Pat)).next()
		if sc.Var != nil {
			variant = *sc.Var
		}
		cx := &c15Ctx{lg: lg, sc: sc, r: newRng(variant), seed: variant}
		lg.mu.Lock()
		lg.tr.begin(ev{"sc": sc.ID, "pat": sc.Pat, "var": strconv.FormatUint(variant, 10)})
		lg.tr.flush()
		lg.mu.Unlock()
		fmt.Fprintf(os.Stderr, "##sc %d t %d\n", sc.ID, lg.tr.t)
		done := make(chan struct{})
		go func() {
			defer close(done)
			pan, msg := guard(func() {
				switch sc.Pat {
				case "rowgroups":
					c15RowGroups(cx)
				case "publish":
					c15Publish(cx)
				case "readers", "asyncfile":
					c15Readers(cx)
				case "independent":
					c15Independent(cx)
				case "colwriters":
					c15ColWriters(cx)
				default:
					panic("unknown pattern " + sc.Pat)
				}
			})
			if pan {
				lg.emit("Panic", ev{"msg": msg})
			}
		}()
		select {
		case <-done:
		case <-time.After(120 * time.Second):
			lg.emit("Hang", ev{})
			lg.mu.Lock()
			lg.tr.flush()
			buf := make([]byte, 1<<18)
			os.Stderr.Write(buf[:runtime.Stack(buf, true)])
			os.Exit(3)
		}
		fmt.Fprintf(os.Stderr, "##end %d\n", sc.ID)
	}
	return nil
}

// parallel runs the tasks on one goroutine each, released together; panics become Panic events.
func (cx *c15Ctx) parallel(n int, f func(i int)) {
	var wg sync.WaitGroup
	start := make(chan struct{})
	for i := 0; i < n; i++ {
		wg.Add(1)
		go func() {
			defer wg.Done()
			<-start
			if pan, msg := guard(func() { f(i) }); pan {
				cx.lg.emit("Panic", ev{"msg": msg, "task": i})
			}
		}()
	}
	close(start)
	wg.Wait()
}

func c15RandomCfg(r *rng) wCfg {
	return wCfg{
		MaxRows: []int{0, 0, 40}[r.intn(3)],
		Ver:     1 + r.intn(2),
		Codec:   []string{"none", "snappy", "gzip", "zstd", "lz4", "brotli"}[r.intn(6)],
		Enc:     []string{"default", "plain", "delta", "dict"}[r.intn(4)],
		Dict:    []string{"inf", "tiny"}[r.intn(2)],
		PageBuf: []string{"default", "tiny"}[r.intn(2)],
		Bloom:   []string{"", "on"}[r.intn(2)],
	}
}

func c15Rows(first, n int, seed uint64) []wRow {
	rows := make([]wRow, n)
	for i := range rows {
		rows[i] = wRowOf(first+i, seed)
	}
	return rows
}

func c15RawRows(rows []wRow) []parquet.Row {
	out := make([]parquet.Row, len(rows))
	for i := range rows {
		out[i] = wSchema.Deconstruct(nil, &rows[i])
	}
	return out
}

// ------------------------------------------------------------ row groups

// c15RowGroups: N ConcurrentRowGroupWriters filled by their own goroutines, committed by the owner.
// Reference: the same calls with the row groups filled one after the other, in commit order.
func c15RowGroups(cx *c15Ctx) {
	sc, r := cx.sc, cx.r
	cfg := c15RandomCfg(r)
	cfg.MaxRows = 0
	optSeed := r.next()
	batch := func(b int) []parquet.Row {
		return c15RawRows(c15Rows(b*10, 1+int(hashString(strconv.Itoa(b))%5), cx.seed))
	}
	newWriter := func(out io.Writer) *parquet.GenericWriter[wRow] {
		return parquet.NewGenericWriter[wRow](out, wOptions(cfg, &rng{s: optSeed})...)
	}
	// canonical serial order: for each commit, the owner's pending writes, then that row group's batches
	type call struct {
		who int // 0: owner
		op  string
		b   int
	}
	var serial []call
	pendingRG := map[int][]call{}
	for _, s := range sc.Steps {
		switch s.Op {
		case "stage":
			pendingRG[s.Who] = append(pendingRG[s.Who], call{s.Who, "write", s.B})
		case "mainwrite":
			serial = append(serial, call{0, "mainwrite", s.B})
		case "commit":
			serial = append(serial, pendingRG[s.B]...)
			pendingRG[s.B] = nil
			serial = append(serial, call{0, "commit", s.B})
		}
	}
	run := func(calls []call, mode string) (string, error) {
		out := new(bytes.Buffer)
		w := newWriter(out)
		rgs := map[int]*parquet.ConcurrentRowGroupWriter{}
		for i := 1; i <= sc.N; i++ {
			rgs[i] = w.BeginRowGroup()
		}
		var firstErr error
		var mu sync.Mutex
		fail := func(err error) {
			mu.Lock()
			if firstErr == nil && err != nil {
				firstErr = err
			}
			mu.Unlock()
		}
		do := func(c call) {
			switch c.op {
			case "write":
				_, err := rgs[c.who].WriteRows(batch(c.b))
				fail(err)
			case "mainwrite":
				_, err := w.WriteRows(batch(c.b))
				fail(err)
			case "commit":
				_, err := rgs[c.b].Commit()
				fail(err)
			}
		}
		switch mode {
		case "sequential":
			for _, c := range calls {
				do(c)
			}
		case "steered":
			// every row group has its goroutine; a token makes them take turns in the scenario's order
			chans := map[int]chan call{}
			ack := make(chan struct{})
			var wg sync.WaitGroup
			for i := 1; i <= sc.N; i++ {
				ch := make(chan call)
				chans[i] = ch
				wg.Add(1)
				go func() {
					defer wg.Done()
					for c := range ch {
						if pan, msg := guard(func() { do(c) }); pan {
							cx.lg.emit("Panic", ev{"msg": msg})
						}
						ack <- struct{}{}
					}
				}()
			}
			for _, c := range calls {
				if c.op == "write" {
					chans[c.who] <- c
					<-ack
				} else {
					do(c)
				}
			}
			for _, ch := range chans {
				close(ch)
			}
			wg.Wait()
		case "free":
			// all fills between two commits run in parallel; the owner's calls stay on this goroutine
			pend := map[int][]call{}
			flushFills := func() {
				ids := []int{}
				for i, cs := range pend {
					if len(cs) > 0 {
						ids = append(ids, i)
					}
				}
				sort.Ints(ids)
				cx.parallel(len(ids), func(k int) {
					for _, c := range pend[ids[k]] {
						do(c)
					}
				})
				pend = map[int][]call{}
			}
			for _, c := range calls {
				if c.op == "write" {
					pend[c.who] = append(pend[c.who], c)
					continue
				}
				flushFills()
				do(c)
			}
			// fills never committed are dropped in the model too, but must not disturb anything
			flushFills()
		}
		if firstErr != nil {
			return "", firstErr
		}
		if err := w.Close(); err != nil {
			return "", err
		}
		return c15Digest(out.Bytes()), nil
	}
	report := func(name string, task int, calls []call, mode string) {
		d, err := run(calls, mode)
		if err != nil {
			d = "error:" + err.Error()
		}
		cx.lg.emit(name, ev{"task": task, "digest": d, "mode": mode})
	}
	var interleaved []call
	for _, s := range sc.Steps {
		switch s.Op {
		case "stage":
			interleaved = append(interleaved, call{s.Who, "write", s.B})
		case "mainwrite", "commit":
			interleaved = append(interleaved, call{0, s.Op, s.B})
		}
	}
	// batches never committed are not part of the reference; drop them from the concurrent runs' outputs as well
	// by construction (they stay in their row group), so all runs must produce the reference bytes
	report("Serial", 0, serial, "sequential")
	report("Conc", 0, interleaved, "sequential")
	report("Conc", 0, interleaved, "steered")
	report("Conc", 0, interleaved, "free")
}

// --------------------------------------------------------------- publish

type c15GatedReader struct {
	r       io.ReaderAt
	arrived chan int
	release chan struct{}
	id      int
	once    sync.Once
}

func (g *c15GatedReader) ReadAt(p []byte, off int64) (int, error) {
	g.once.Do(func() {
		g.arrived <- g.id
		<-g.release
	})
	return g.r.ReadAt(p, off)
}

func c15Publish(cx *c15Ctx) {
	sc, r := cx.sc, cx.r
	cfg := c15RandomCfg(r)
	cfg.Bloom = "on"
	buf := new(bytes.Buffer)
	w := parquet.NewGenericWriter[wRow](buf, wOptions(cfg, r)...)
	if _, err := w.Write(c15Rows(0, 60, cx.seed)); err != nil {
		panic(err)
	}
	if err := w.Close(); err != nil {
		panic(err)
	}
	data := buf.Bytes()
	free := r.intn(2) == 1
	for _, kind := range []string{"columnindex", "offsetindex", "bloom"} {
		f, err := parquet.OpenFile(bytes.NewReader(data), int64(len(data)), parquet.SkipPageIndex(true), parquet.SkipBloomFilters(true))
		if err != nil {
			panic(err)
		}
		chunk := f.RowGroups()[0].ColumnChunks()[0].(*parquet.FileColumnChunk) // "id": has a bloom filter
		get := func(rd io.ReaderAt) string {
			switch kind {
			case "columnindex":
				x, err := chunk.ColumnIndexFrom(rd)
				if err != nil {
					return "error:" + err.Error()
				}
				return fmt.Sprintf("%p", x)
			case "offsetindex":
				x, err := chunk.OffsetIndexFrom(rd)
				if err != nil {
					return "error:" + err.Error()
				}
				return fmt.Sprintf("%p", x)
			default:
				x, err := chunk.BloomFilterFrom(rd)
				if err != nil {
					return "error:" + err.Error()
				}
				return fmt.Sprintf("%p", x)
			}
		}
		got := make([]string, sc.N+1)
		arrived := make(chan int, sc.N)
		gates := map[int]*c15GatedReader{}
		returned := map[int]chan struct{}{}
		// the goroutines that find the pointer unset: all inside the read before anyone publishes
		for _, p := range sc.Arrivals {
			g := &c15GatedReader{r: bytes.NewReader(data), arrived: arrived, release: make(chan struct{}), id: p}
			gates[p] = g
			ret := make(chan struct{})
			returned[p] = ret
			go func() {
				defer close(ret)
				if pan, msg := guard(func() { got[p] = get(g) }); pan {
					cx.lg.emit("Panic", ev{"msg": msg})
				}
			}()
		}
		for range sc.Arrivals {
			<-arrived
		}
		for _, p := range sc.Releases {
			close(gates[p].release)
			if !free {
				<-returned[p] // one at a time, in the scenario's order: the first to be released publishes
			}
		}
		for _, p := range sc.Arrivals {
			<-returned[p]
		}
		// the late comers
		late := []int{}
		for p := 1; p <= sc.N; p++ {
			if _, ok := gates[p]; !ok {
				late = append(late, p)
			}
		}
		cx.parallel(len(late), func(i int) { got[late[i]] = get(bytes.NewReader(data)) })
		// number the pointers by first appearance; 0 = nothing / error
		ids := map[string]int{}
		out := []int{}
		for p := 1; p <= sc.N; p++ {
			s := got[p]
			if s == "" || len(s) > 5 && s[:5] == "error" || s == "0x0" {
				out = append(out, 0)
				continue
			}
			if _, ok := ids[s]; !ok {
				ids[s] = len(ids) + 1
			}
			out = append(out, ids[s])
		}
		cx.lg.emit("Publish", ev{"kind": kind, "got": out, "free": b2i(free)})
	}
}

// --------------------------------------------------------------- readers

type c15Hasher struct{ h hash.Hash }

func newC15Hasher() *c15Hasher                { return &c15Hasher{sha256.New()} }
func (h *c15Hasher) add(f string, a ...any)   { fmt.Fprintf(h.h, f, a...) }
func (h *c15Hasher) sum() string              { return hex.EncodeToString(h.h.Sum(nil)[:8]) }
func (h *c15Hasher) row(row parquet.Row)      { h.add("%+v\n", row) }
func (h *c15Hasher) err(err error) *c15Hasher { h.add("error:%v", err); return h }

func c15ReadAllRows(h *c15Hasher, rows parquet.Rows, batch int) error {
	buf := make([]parquet.Row, batch)
	for {
		n, err := rows.ReadRows(buf)
		for _, row := range buf[:n] {
			h.row(row)
		}
		if err == io.EOF {
			return nil
		}
		if err != nil {
			return err
		}
		if n == 0 {
			return fmt.Errorf("ReadRows returned 0, nil")
		}
	}
}

// c15ReaderTask: one task over the shared file; variant makes different goroutines use different batch sizes etc.
func c15ReaderTask(f *parquet.File, task string, variant int, nrows int) string {
	h := newC15Hasher()
	switch task {
	case "rows":
		for _, rg := range f.RowGroups() {
			rows := rg.Rows()
			if err := c15ReadAllRows(h, rows, 7); err != nil {
				h.err(err)
			}
			rows.Close()
		}
	case "genericread":
		gr := parquet.NewGenericReader[wRow](f)
		buf := make([]wRow, 16)
		for {
			clear(buf) // reading into rows that still hold maps keeps their entries: start from zero rows
			n, err := gr.Read(buf)
			for i := range buf[:n] {
				h.row(wSchema.Deconstruct(nil, &buf[i]))
			}
			if err != nil {
				if err != io.EOF {
					h.err(err)
				}
				break
			}
		}
		gr.Close()
	case "pages":
		for _, rg := range f.RowGroups() {
			for ci, chunk := range rg.ColumnChunks() {
				pages := chunk.Pages()
				vs := make([]parquet.Value, 64)
				for {
					p, err := pages.ReadPage()
					if err != nil {
						if err != io.EOF {
							h.err(err)
						}
						break
					}
					h.add("c%d rows=%d values=%d nulls=%d\n", ci, p.NumRows(), p.NumValues(), p.NumNulls())
					vr := p.Values()
					for {
						n, err := vr.ReadValues(vs)
						for _, v := range vs[:n] {
							h.add("%+v,", v)
						}
						if err != nil || n == 0 {
							break
						}
					}
					parquet.Release(p)
				}
				pages.Close()
			}
		}
	case "seekrows":
		for _, rg := range f.RowGroups() {
			rows := rg.Rows()
			n := int(rg.NumRows())
			buf := make([]parquet.Row, 3)
			for _, k := range []int{n / 2, 0, n - 1, n / 3, n} {
				if err := rows.SeekToRow(int64(k)); err != nil {
					h.err(err)
					continue
				}
				m, err := rows.ReadRows(buf)
				h.add("seek %d -> %d %v\n", k, m, err)
				for _, row := range buf[:m] {
					h.row(row)
				}
			}
			rows.Close()
		}
	case "colindex":
		for _, rg := range f.RowGroups() {
			for ci, chunk := range rg.ColumnChunks() {
				x, err := chunk.ColumnIndex()
				if err != nil {
					h.add("c%d %v\n", ci, err)
					continue
				}
				for p := 0; p < x.NumPages(); p++ {
					h.add("c%d p%d %+v %+v %d %v;", ci, p, x.MinValue(p), x.MaxValue(p), x.NullCount(p), x.NullPage(p))
				}
				h.add("%v %v\n", x.IsAscending(), x.IsDescending())
			}
		}
	case "offindex":
		for _, rg := range f.RowGroups() {
			for ci, chunk := range rg.ColumnChunks() {
				x, err := chunk.OffsetIndex()
				if err != nil {
					h.add("c%d %v\n", ci, err)
					continue
				}
				for p := 0; p < x.NumPages(); p++ {
					h.add("c%d p%d %d %d %d;", ci, p, x.Offset(p), x.CompressedPageSize(p), x.FirstRowIndex(p))
				}
			}
		}
	case "bloom":
		for _, rg := range f.RowGroups() {
			for ci, chunk := range rg.ColumnChunks() {
				bf := chunk.BloomFilter()
				if bf == nil {
					continue
				}
				for id := -5; id < nrows+5; id++ {
					ok, err := bf.Check(parquet.Int64Value(int64(id)))
					h.add("c%d %d %v %v;", ci, id, ok, err)
				}
			}
		}
	case "find":
		for _, rg := range f.RowGroups() {
			chunk := rg.ColumnChunks()[0]
			x, err := chunk.ColumnIndex()
			if err != nil {
				h.add("%v\n", err)
				continue
			}
			for id := -2; id < nrows+2; id += 3 {
				h.add("%d->%d;", id, parquet.Find(x, parquet.Int64Value(int64(id)), chunk.Type().Compare))
			}
		}
	}
	return h.sum()
}

func c15Readers(cx *c15Ctx) {
	sc, r := cx.sc, cx.r
	cfg := c15RandomCfg(r)
	nrows := 90 + r.intn(60)
	buf := new(bytes.Buffer)
	w := parquet.NewGenericWriter[wRow](buf, wOptions(cfg, r)...)
	if _, err := w.Write(c15Rows(0, nrows, cx.seed)); err != nil {
		panic(err)
	}
	if err := w.Close(); err != nil {
		panic(err)
	}
	data := buf.Bytes()
	async := sc.Pat == "asyncfile" || r.intn(3) == 0
	lazy := r.intn(2) == 1
	open := func() *parquet.File {
		opts := []parquet.FileOption{}
		if async {
			opts = append(opts, parquet.FileReadMode(parquet.ReadModeAsync))
		}
		if lazy {
			opts = append(opts, parquet.SkipPageIndex(true), parquet.SkipBloomFilters(true))
		}
		f, err := parquet.OpenFile(bytes.NewReader(data), int64(len(data)), opts...)
		if err != nil {
			panic(err)
		}
		return f
	}
	// serial: a fresh File, tasks one after the other
	fs := open()
	for i, task := range sc.Tasks {
		cx.lg.emit("Serial", ev{"task": i, "digest": c15ReaderTask(fs, task, i, nrows), "name": task})
	}
	// concurrent: one File shared by all goroutines, twice (cold caches, then warm)
	fc := open()
	for round := 0; round < 2; round++ {
		out := make([]string, len(sc.Tasks))
		cx.parallel(len(sc.Tasks), func(i int) { out[i] = c15ReaderTask(fc, sc.Tasks[i], i, nrows) })
		for i, d := range out {
			cx.lg.emit("Conc", ev{"task": i, "digest": d, "name": sc.Tasks[i], "round": round, "async": b2i(async), "lazy": b2i(lazy)})
		}
	}
}

// ----------------------------------------------------------- independent

type c15KeyRow struct {
	K int64  `parquet:"k"`
	S string `parquet:"s,dict"`
	P []byte `parquet:"p"`
}

func c15KeyRows(n int, seed uint64) []c15KeyRow {
	r := newRng(seed)
	rows := make([]c15KeyRow, n)
	for i := range rows {
		rows[i] = c15KeyRow{K: int64(r.intn(40)), S: pick(r, wStrs[:8]), P: []byte(strconv.Itoa(i))}
	}
	return rows
}

func c15IndependentTask(task string, idx int, seed uint64) string {
	h := newC15Hasher()
	r := newRng(seed ^ uint64(idx)*7919)
	codecs := []string{"snappy", "gzip", "zstd", "lz4", "brotli", "none"}
	switch task {
	case "write-read", "copy":
		cfg := c15RandomCfg(r)
		cfg.Codec = codecs[idx%len(codecs)]
		buf := new(bytes.Buffer)
		w := parquet.NewGenericWriter[wRow](buf, wOptions(cfg, r)...)
		if _, err := w.Write(c15Rows(idx*1000, 70+r.intn(40), seed)); err != nil {
			return h.err(err).sum()
		}
		if err := w.Close(); err != nil {
			return h.err(err).sum()
		}
		h.add("%s|", c15Digest(buf.Bytes()))
		f, err := parquet.OpenFile(bytes.NewReader(buf.Bytes()), int64(buf.Len()))
		if err != nil {
			return h.err(err).sum()
		}
		if task == "write-read" {
			h.add("%s", c15ReaderTask(f, "rows", 0, 0))
			break
		}
		out := new(bytes.Buffer)
		cfg2 := cfg
		cfg2.Codec = codecs[(idx+1)%len(codecs)]
		w2 := parquet.NewGenericWriter[wRow](out, wOptions(cfg2, r)...)
		for _, rg := range f.RowGroups() {
			if _, err := w2.WriteRowGroup(rg); err != nil {
				return h.err(err).sum()
			}
		}
		if err := w2.Close(); err != nil {
			return h.err(err).sum()
		}
		h.add("%s", c15Digest(out.Bytes()))
	case "reflect-write": // Writer.Write(any): every row is taken apart by Schema.Deconstruct
		buf := new(bytes.Buffer)
		w := parquet.NewWriter(buf, wSchema, parquet.Compression(wCodec(codecs[idx%len(codecs)])))
		rows := c15Rows(idx*1000, 60+r.intn(40), seed)
		for i := range rows {
			if err := w.Write(&rows[i]); err != nil {
				return h.err(err).sum()
			}
		}
		if err := w.Close(); err != nil {
			return h.err(err).sum()
		}
		h.add("%s", c15Digest(buf.Bytes()))
	case "reflect-read": // Reader.Read(any) and GenericReader.Read: rows put together by Schema.Reconstruct
		buf := new(bytes.Buffer)
		w := parquet.NewGenericWriter[wRow](buf)
		want := c15Rows(idx*1000, 60+r.intn(40), seed)
		if _, err := w.Write(want); err != nil {
			return h.err(err).sum()
		}
		if err := w.Close(); err != nil {
			return h.err(err).sum()
		}
		f, err := parquet.OpenFile(bytes.NewReader(buf.Bytes()), int64(buf.Len()))
		if err != nil {
			return h.err(err).sum()
		}
		rd := parquet.NewReader(f)
		for k := 0; ; k++ {
			var row wRow
			if err := rd.Read(&row); err != nil {
				if err != io.EOF {
					h.err(err)
				}
				break
			}
			if k < len(want) {
				h.add("%d|", wSame(row, want[k])) // 0: the row written at this position
			} else {
				h.add("extra|")
			}
		}
		rd.Close()
		// the caller's own loop: rows loaded in batches, then put together one by one
		rr := parquet.NewReader(f)
		batch := make([]parquet.Row, 8)
		for k := 0; ; {
			n, err := rr.ReadRows(batch)
			runtime.Gosched()
			for _, row := range batch[:n] {
				var x wRow
				if e := wSchema.Reconstruct(&x, row); e != nil {
					h.err(e)
				} else if k < len(want) {
					h.add("%d|", wSame(x, want[k]))
				}
				k++
			}
			if err != nil || n == 0 {
				break
			}
		}
		rr.Close()
		h.add("%s", c15ReaderTask(f, "genericread", 0, 0))
	case "rowbuffer":
		b := parquet.NewRowBuffer[c15KeyRow](parquet.SortingRowGroupConfig(parquet.SortingColumns(parquet.Ascending("k"), parquet.Descending("s"))))
		b.Write(c15KeyRows(50+r.intn(30), r.next()))
		sort.Stable(b)
		rows := b.Rows()
		if err := c15ReadAllRows(h, rows, 9); err != nil {
			h.err(err)
		}
		rows.Close()
	case "buffer-sort", "merge":
		mk := func(s uint64) *parquet.GenericBuffer[c15KeyRow] {
			b := parquet.NewGenericBuffer[c15KeyRow](parquet.SortingRowGroupConfig(parquet.SortingColumns(parquet.Ascending("k"), parquet.Descending("s"))))
			b.Write(c15KeyRows(50+int(s%30), s))
			sort.Stable(b)
			return b
		}
		var rows parquet.Rows
		if task == "buffer-sort" {
			rows = mk(r.next()).Rows()
		} else {
			m, err := parquet.MergeRowGroups([]parquet.RowGroup{mk(r.next()), mk(r.next()), mk(r.next())},
				parquet.SortingRowGroupConfig(parquet.SortingColumns(parquet.Ascending("k"), parquet.Descending("s"))))
			if err != nil {
				return h.err(err).sum()
			}
			rows = m.Rows()
		}
		if err := c15ReadAllRows(h, rows, 11); err != nil {
			h.err(err)
		}
		rows.Close()
	case "sorting-writer":
		buf := new(bytes.Buffer)
		sw := parquet.NewSortingWriter[c15KeyRow](buf, 25, parquet.SortingWriterConfig(parquet.SortingColumns(parquet.Ascending("k"))),
			parquet.Compression(wCodec(codecs[idx%len(codecs)])))
		if _, err := sw.Write(c15KeyRows(120, r.next())); err != nil {
			return h.err(err).sum()
		}
		if err := sw.Close(); err != nil {
			return h.err(err).sum()
		}
		h.add("%s", c15Digest(buf.Bytes()))
	case "codecs":
		for round := 0; round < 6; round++ {
			c := wCodec(codecs[(idx+round)%len(codecs)])
			payload := bytes.Repeat([]byte(strconv.Itoa(int(r.next()%1000))), 50+r.intn(400))
			enc, err := c.Encode(nil, payload)
			if err != nil {
				h.err(err)
				continue
			}
			dec, err := c.Decode(nil, enc)
			h.add("%d %v %v;", len(enc), err, bytes.Equal(dec, payload))
		}
	}
	return h.sum()
}

func c15Independent(cx *c15Ctx) {
	sc := cx.sc
	for i, task := range sc.Tasks {
		cx.lg.emit("Serial", ev{"task": i, "digest": c15IndependentTask(task, i, cx.seed), "name": task})
	}
	for round := 0; round < 2; round++ {
		out := make([]string, len(sc.Tasks))
		cx.parallel(len(sc.Tasks), func(i int) { out[i] = c15IndependentTask(sc.Tasks[i], i, cx.seed) })
		for i, d := range out {
			cx.lg.emit("Conc", ev{"task": i, "digest": d, "name": sc.Tasks[i], "round": round})
		}
	}
}

// ------------------------------------------------------------ colwriters

// c15ColWriters: one goroutine per ColumnWriter, row group after row group.
func c15ColWriters(cx *c15Ctx) {
	r := cx.r
	cfg := c15RandomCfg(r)
	cfg.MaxRows = 0
	optSeed := r.next()
	groups := 1 + r.intn(3)
	per := 20 + r.intn(50)
	pieces := 1 + r.intn(3)
	run := func(concurrent bool) string {
		out := new(bytes.Buffer)
		w := parquet.NewWriter(out, append([]parquet.WriterOption{wSchema}, wOptions(cfg, &rng{s: optSeed})...)...)
		for g := 0; g < groups; g++ {
			rows := c15RawRows(c15Rows(g*1000, per, cx.seed))
			cols := w.ColumnWriters()
			// values of each column, row by row
			write := func(ci int) error {
				cw := cols[ci]
				step := (len(rows) + pieces - 1) / pieces
				for lo := 0; lo < len(rows); lo += step {
					hi := min(lo+step, len(rows))
					var vals []parquet.Value
					for _, row := range rows[lo:hi] {
						row.Range(func(c int, vs []parquet.Value) bool {
							if c == ci {
								vals = append(vals, vs...)
							}
							return true
						})
					}
					if _, err := cw.WriteRowValues(vals); err != nil {
						return err
					}
				}
				return nil
			}
			errs := make([]error, len(cols))
			if concurrent {
				cx.parallel(len(cols), func(ci int) { errs[ci] = write(ci) })
			} else {
				for ci := range cols {
					errs[ci] = write(ci)
				}
			}
			for _, err := range errs {
				if err != nil {
					return "error:" + err.Error()
				}
			}
			if err := w.Flush(); err != nil {
				return "error:" + err.Error()
			}
		}
		if err := w.Close(); err != nil {
			return "error:" + err.Error()
		}
		return c15Digest(out.Bytes())
	}
	cx.lg.emit("Serial", ev{"task": 0, "digest": run(false), "mode": "sequential"})
	cx.lg.emit("Conc", ev{"task": 0, "digest": run(true), "mode": "free", "groups": groups, "rows": per})
	cx.lg.emit("Conc", ev{"task": 0, "digest": run(true), "mode": "free", "groups": groups, "rows": per})
}
