package main

import (
	"bytes"
	"errors"
	"fmt"
	"io"
	"os"
	"runtime"
	"strconv"
	"sync"
	"sync/atomic"
	"time"

	"github.com/parquet-go/parquet-go"
	"github.com/parquet-go/parquet-go/encoding"
)

// C15, asynchronous read mode: the caller API and the reader goroutine of
// parquet.AsyncPages, observed from outside the library.
//
// A scenario is one behaviour of AsyncPages.tla projected on its visible
// events (MC_AsyncPages.tla): API calls and returns of the caller, and the
// reader goroutine's calls into the underlying Pages. The harness performs the
// API calls on the real asyncPages and serves the underlying Pages itself, so
// it can (a) log every visible event under one mutex, in real-time order, and
// (b) hold each visible event back until it is its turn in the scenario
// ("steered" mode) - as far as Go's select lets the run follow the behaviour.
// When the run leaves the behaviour the steering is switched off and the run
// continues freely; either way the recorded trace is judged by AsyncTrace.tla.

func init() { commands["c15async"] = c15AsyncMain }

type c15Ev struct {
	E  string `json:"e"`
	Op string `json:"op"`
	K  int    `json:"k"`
	O  string `json:"o"`
}

type c15AsyncScenario struct {
	ID    int     `json:"id"`
	Orig  int     `json:"orig,omitempty"`
	NP    int     `json:"np"`
	Order []c15Ev `json:"order"`
	Mode  string  `json:"mode,omitempty"` // steered | free
	Src   string  `json:"usrc,omitempty"` // fake | file
	Procs int     `json:"procs,omitempty"`
}

// c15Log serialises events of both goroutines: file order = real-time order.
type c15Log struct {
	mu sync.Mutex
	tr *tracer
}

func (l *c15Log) emit(name string, f ev) {
	l.mu.Lock()
	l.tr.emit(name, f)
	l.mu.Unlock()
}

// c15Sched holds visible events back until it is their turn in the scenario.
type c15Sched struct {
	mu       sync.Mutex
	cond     *sync.Cond
	order    []string
	idx      int
	on       bool
	diverged int // position at which the run left the behaviour, -1 if it never did
	patience time.Duration
}

func newC15Sched(order []string, on bool) *c15Sched {
	s := &c15Sched{order: order, on: on, diverged: -1, patience: 30 * time.Millisecond}
	s.cond = sync.NewCond(&s.mu)
	return s
}

// turn blocks until label is the next visible event of the scenario (or steering is off).
func (s *c15Sched) turn(label string) {
	s.mu.Lock()
	defer s.mu.Unlock()
	if !s.on {
		return
	}
	deadline := time.Now().Add(s.patience)
	for s.on && !(s.idx < len(s.order) && s.order[s.idx] == label) {
		if s.idx >= len(s.order) || time.Now().After(deadline) {
			s.on = false
			s.diverged = s.idx
			s.cond.Broadcast()
			return
		}
		// wake up regularly: sync.Cond has no timed wait
		go func() { time.Sleep(2 * time.Millisecond); s.cond.Broadcast() }()
		s.cond.Wait()
	}
	if s.on {
		s.idx++
		s.cond.Broadcast()
	}
}

var errC15Injected = errors.New("injected fatal read error")

// c15Under is the synchronous Pages under the asyncPages: NP pages of one row, row i holds the value i.
type c15Under struct {
	log    *c15Log
	sched  *c15Sched
	np     int
	pos    int
	calls  int
	faults map[int]bool // underlying call numbers that fail fatally
	file   parquet.Pages
	yield  *rng
	made   []*c15Page // fake pages produced, in order
}

// c15Page counts the releases of a page produced by the fake source.
type c15Page struct {
	parquet.Page
	rel atomic.Int32
}

func (p *c15Page) Release() { p.rel.Add(1) }

func (u *c15Under) jitter() {
	if u.yield != nil {
		switch u.yield.intn(4) {
		case 0:
			runtime.Gosched()
		case 1:
			time.Sleep(time.Duration(u.yield.intn(50)) * time.Microsecond)
		}
	}
}

func (u *c15Under) ReadPage() (parquet.Page, error) {
	u.sched.turn("uread")
	u.jitter()
	u.calls++
	if u.faults[u.calls] {
		u.log.emit("U", ev{"op": "read", "k": u.pos, "o": "fatal"})
		return nil, errC15Injected
	}
	if u.file != nil {
		p, err := u.file.ReadPage()
		if err != nil {
			u.log.emit("U", ev{"op": "read", "k": u.pos, "o": c15Err(err)})
			return nil, err
		}
		u.log.emit("U", ev{"op": "read", "k": c15PageID(p), "o": "none"})
		u.pos++
		return p, nil
	}
	if u.pos >= u.np {
		u.log.emit("U", ev{"op": "read", "k": u.pos, "o": "eof"})
		return nil, io.EOF
	}
	p := &c15Page{Page: parquet.Int64Type.NewPage(0, 1, encoding.Int64Values([]int64{int64(u.pos)}))}
	u.made = append(u.made, p)
	u.log.emit("U", ev{"op": "read", "k": u.pos, "o": "none"})
	u.pos++
	return p, nil
}

func (u *c15Under) SeekToRow(k int64) error {
	u.sched.turn("useek")
	u.jitter()
	u.calls++
	if u.faults[u.calls] {
		u.log.emit("U", ev{"op": "seek", "k": int(k), "o": "fatal"})
		return errC15Injected
	}
	if int(k) > u.np {
		u.log.emit("U", ev{"op": "seek", "k": int(k), "o": "range"})
		return fmt.Errorf("row %d: %w", k, parquet.ErrSeekOutOfRange)
	}
	if u.file != nil {
		if err := u.file.SeekToRow(k); err != nil {
			u.log.emit("U", ev{"op": "seek", "k": int(k), "o": c15Err(err)})
			return err
		}
	}
	u.pos = int(k)
	u.log.emit("U", ev{"op": "seek", "k": int(k), "o": "none"})
	return nil
}

func (u *c15Under) Close() error {
	u.sched.turn("uclose")
	u.log.emit("U", ev{"op": "close", "k": -1, "o": "none"})
	if u.file != nil {
		return u.file.Close()
	}
	return nil
}

func c15Err(err error) string {
	switch {
	case err == nil:
		return "none"
	case err == io.EOF:
		return "eof"
	case errors.Is(err, parquet.ErrSeekOutOfRange):
		return "range"
	case errors.Is(err, errC15Injected):
		return "fatal"
	case errors.Is(err, io.ErrClosedPipe):
		return "closedpipe"
	}
	return "other:" + err.Error()
}

// c15PageID: the row index held by a one-row page (-1: no page, -2: unreadable, -3: not one value).
func c15PageID(p parquet.Page) int {
	if p == nil {
		return -1
	}
	vs := make([]parquet.Value, 4)
	n, err := p.Values().ReadValues(vs)
	if err != nil && err != io.EOF {
		return -2
	}
	if n != 1 || p.NumValues() != 1 {
		return -3
	}
	return int(vs[0].Int64())
}

// c15File: a file of np rows, one row per page (the "file" underlying source: real pooled page buffers).
func c15File(np int) (*parquet.File, error) {
	buf := new(bytes.Buffer)
	schema := parquet.NewSchema("c15", parquet.Group{"v": parquet.Leaf(parquet.Int64Type)})
	w := parquet.NewWriter(buf, schema, parquet.PageBufferSize(1))
	for i := 0; i < np; i++ {
		if _, err := w.WriteRows([]parquet.Row{{parquet.Int64Value(int64(i)).Level(0, 0, 0)}}); err != nil {
			return nil, err
		}
		if err := w.ColumnWriters()[0].Flush(); err != nil {
			return nil, err
		}
	}
	if err := w.Close(); err != nil {
		return nil, err
	}
	return parquet.OpenFile(bytes.NewReader(buf.Bytes()), int64(buf.Len()))
}

func c15AsyncMain(args []string) error {
	seed, _ := strconv.ParseUint(argValue(args, "--seed", "1"), 10, 64)
	reps, _ := strconv.Atoi(argValue(args, "--reps", "1"))
	burst, _ := strconv.Atoi(argValue(args, "--burst", "1")) // multiplier for behaviours with back-to-back seeks
	hangMs, _ := strconv.Atoi(argValue(args, "--hang-ms", "5000"))
	first, _ := strconv.Atoi(argValue(args, "--first-trace", "1"))
	scs, err := readScenarios[c15AsyncScenario](argValue(args, "--scenarios", "-"))
	if err != nil {
		return err
	}
	lg := &c15Log{tr: newTracer(os.Stdout)}
	lg.tr.t = first - 1
	defer lg.tr.flush()
	parquet.VerifSetPoison(true)
	for si := range scs {
		sc := &scs[si]
		rid := sc.ID
		if sc.Orig != 0 {
			rid = sc.Orig
		}
		n := reps
		prevSeek := false
		for _, e := range sc.Order {
			if e.E == "call" {
				if e.Op == "seek" && prevSeek {
					n = reps * burst // a second SeekToRow while the first may still be pending: the narrow windows are here
					break
				}
				prevSeek = e.Op == "seek"
			}
		}
		for rep := 0; rep < n; rep++ {
			r := newRng(seed ^ uint64(rid)*0x9E3779B1 ^ uint64(rep)<<40)
			mode, src, procs := sc.Mode, sc.Src, sc.Procs
			if mode == "" {
				mode = []string{"steered", "steered", "free"}[r.intn(3)]
			}
			if src == "" {
				src = []string{"fake", "file"}[r.intn(2)]
			}
			if procs == 0 {
				procs = []int{1, 2, 4, 16}[r.intn(4)]
			}
			done := make(chan struct{})
			go func() {
				defer close(done)
				c15AsyncRun(lg, sc, mode, src, procs, r)
			}()
			select {
			case <-done:
			case <-time.After(time.Duration(hangMs) * time.Millisecond):
				// neither goroutine made progress: a deadlock of the protocol (the trace ends with an unanswered Call)
				lg.emit("Hang", ev{})
				lg.mu.Lock()
				lg.tr.flush()
				buf := make([]byte, 1<<16)
				os.Stderr.Write(buf[:runtime.Stack(buf, true)])
				os.Exit(3)
			}
		}
	}
	return nil
}

func c15AsyncRun(lg *c15Log, sc *c15AsyncScenario, mode, src string, procs int, r *rng) {
	old := runtime.GOMAXPROCS(procs)
	defer runtime.GOMAXPROCS(old)
	order := []string{}
	faults := map[int]bool{}
	ucalls := 0
	for _, e := range sc.Order {
		switch e.E {
		case "call", "ret", "uclose":
			order = append(order, e.E)
		case "uread", "useek":
			order = append(order, e.E)
			ucalls++
			if e.O == "fatal" {
				faults[ucalls] = true
			}
		}
	}
	sched := newC15Sched(order, mode == "steered")
	u := &c15Under{log: lg, sched: sched, np: sc.NP, faults: faults}
	var cyield *rng // the caller's own source of jitter (the reader goroutine has u.yield)
	if mode == "free" {
		u.yield = newRng(r.next())
		cyield = newRng(r.next())
	}
	if src == "file" {
		f, err := c15File(sc.NP)
		if err != nil {
			panic(err)
		}
		u.file = f.RowGroups()[0].ColumnChunks()[0].Pages()
	}
	lg.mu.Lock()
	lg.tr.begin(ev{"sc": sc.ID, "np": sc.NP, "mode": mode, "usrc": src, "procs": procs})
	lg.mu.Unlock()

	ap := parquet.AsyncPages(u)
	type held struct {
		p  parquet.Page
		id int
	}
	var holding []held
	for _, e := range sc.Order {
		if e.E != "call" {
			continue
		}
		sched.turn("call")
		lg.emit("Call", ev{"op": e.Op, "k": e.K})
		var page parquet.Page
		var err error
		pan, msg := guard(func() {
			switch e.Op {
			case "read":
				page, err = ap.ReadPage()
			case "seek":
				err = ap.SeekToRow(int64(e.K))
			case "close":
				err = ap.Close()
			}
		})
		id := c15PageID(page)
		es := c15Err(err)
		if pan {
			es = "panic:" + msg
		}
		sched.turn("ret")
		lg.emit("Ret", ev{"op": e.Op, "page": id, "err": es})
		if page != nil {
			holding = append(holding, held{page, id})
		}
		if cyield != nil && cyield.intn(3) == 0 {
			runtime.Gosched()
		}
	}
	// every page the reader produced was either handed to the caller (and not released behind its back)
	// or released exactly once; u.made is only written by the reader goroutine, which has exited (Close returned)
	leaked, doubles, early := 0, 0, 0
	heldSet := map[parquet.Page]bool{}
	for _, h := range holding {
		heldSet[h.p] = true
	}
	if closedLast := len(sc.Order) > 0; closedLast {
		for _, p := range u.made {
			n := int(p.rel.Load())
			switch {
			case heldSet[p] && n > 0:
				early++
			case !heldSet[p] && n == 0:
				leaked++
			case !heldSet[p] && n > 1:
				doubles++
			}
		}
	}
	// pages handed to the caller stay valid until the caller releases them
	for _, h := range holding {
		if now := c15PageID(h.p); now != h.id {
			lg.emit("Ret", ev{"op": "held", "page": now, "err": "changed-after-delivery"})
		}
		parquet.Release(h.p)
	}
	lg.emit("End", ev{"diverged": sched.diverged, "steps": len(order), "leaked": leaked, "doubles": doubles, "early": early})
}
