package main

import (
	"bytes"
	"fmt"
	"io"
	"os"
	"strconv"

	"github.com/parquet-go/parquet-go"
	"github.com/parquet-go/parquet-go/encoding/thrift"
	"github.com/parquet-go/parquet-go/format"
)

// C11: WriteRowGroup fast paths are indistinguishable from the row path.
// Scenario: a source vector and a destination vector (Cascade.tla). The source
// row group is realised, written through WriteRowGroup with the fast paths on,
// and again with them off (the row path is the reference); both outputs are
// summarised setting by setting.

func init() { commands["c11"] = c11Main }

type c11Src struct {
	Kind   string `json:"kind"`
	Codec  string `json:"codec"`
	Ver    int    `json:"ver"`
	Enc    string `json:"enc"`
	Index  bool   `json:"index"`
	PStats bool   `json:"pstats"`
	Bloom  int    `json:"bloom"`
	Big    bool   `json:"big"`
	Flat   bool   `json:"flat"` // every column required and not repeated
}
type c11Dst struct {
	Codec  string `json:"codec"`
	Ver    int    `json:"ver"`
	Enc    string `json:"enc"`
	PStats bool   `json:"pstats"`
	Bloom  int    `json:"bloom"`
}
type c11Scenario struct {
	ID   int    `json:"id"`
	Orig int    `json:"orig,omitempty"`
	S    c11Src `json:"s"`
	D    c11Dst `json:"d"`
}

type c11Row struct {
	ID int64    `parquet:"id"`
	K  int64    `parquet:"k"`
	S  string   `parquet:"s"`
	F  *float64 `parquet:"f"`
	L  []int64  `parquet:"l"`
}

func c11RowOf(id int) c11Row {
	r := c11Row{ID: int64(id), K: int64(id / 2), S: "str-" + strconv.Itoa(id%7)}
	if id%3 != 0 {
		x := float64(id) / 4
		r.F = &x
	}
	for j := 0; j < 1+id%4; j++ {
		r.L = append(r.L, int64(id*10+j))
	}
	return r
}

// c11Flat: the same rows without the optional and the repeated column.
type c11Flat struct {
	ID int64  `parquet:"id"`
	K  int64  `parquet:"k"`
	S  string `parquet:"s"`
}

type c11WideRow struct {
	c11Row
	Extra int64 `parquet:"zextra"`
}

type c11WideFlat struct {
	c11Flat
	Extra int64 `parquet:"zextra"`
}

// c11Shape: the row type a scenario uses.
type c11Shape struct {
	schema, wide *parquet.Schema
	row          func(id int) any
	wideRow      func(id int) any
	verify       func(row parquet.Row) int // the id when the row is what the id stands for
}

func c11ShapeOf(flat bool) c11Shape {
	if flat {
		schema := parquet.SchemaOf(c11Flat{})
		mk := func(id int) c11Flat { r := c11RowOf(id); return c11Flat{r.ID, r.K, r.S} }
		return c11Shape{schema: schema, wide: parquet.SchemaOf(c11WideFlat{}),
			row:     func(id int) any { return mk(id) },
			wideRow: func(id int) any { return c11WideFlat{mk(id), int64(id)} },
			verify: func(row parquet.Row) int {
				var x c11Flat
				if e := schema.Reconstruct(&x, row); e != nil {
					return alien
				}
				if x == mk(int(x.ID)) {
					return int(x.ID)
				}
				return -100 - int(x.ID)
			}}
	}
	schema := parquet.SchemaOf(c11Row{})
	return c11Shape{schema: schema, wide: parquet.SchemaOf(c11WideRow{}),
		row:     func(id int) any { return c11RowOf(id) },
		wideRow: func(id int) any { return c11WideRow{c11RowOf(id), int64(id)} },
		verify: func(row parquet.Row) int {
			var x c11Row
			if e := schema.Reconstruct(&x, row); e != nil {
				return alien
			}
			want := c11RowOf(int(x.ID))
			ok := x.K == want.K && x.S == want.S && (x.F == nil) == (want.F == nil) && (x.F == nil || *x.F == *want.F) && len(x.L) == len(want.L)
			for i := range x.L {
				ok = ok && i < len(want.L) && x.L[i] == want.L[i]
			}
			if ok {
				return int(x.ID)
			}
			return -100 - int(x.ID)
		}}
}

func c11Options(codec string, ver int, enc string, pstats bool, bloom int, maxRows int64) []parquet.WriterOption {
	opts := []parquet.WriterOption{parquet.DataPageVersion(ver), parquet.DataPageStatistics(pstats),
		parquet.SortingWriterConfig(parquet.SortingColumns(parquet.Ascending("k")))}
	if codec != "none" {
		opts = append(opts, parquet.Compression(wCodec(codec)))
	}
	if enc == "dict" {
		opts = append(opts, parquet.DefaultEncoding(&parquet.RLEDictionary))
	} else {
		opts = append(opts, parquet.DefaultEncoding(&parquet.Plain))
	}
	if bloom > 0 {
		opts = append(opts, parquet.BloomFilters(parquet.SplitBlockFilter(uint(bloom), "s"), parquet.SplitBlockFilter(uint(bloom), "id")))
	}
	if maxRows > 0 {
		opts = append(opts, parquet.MaxRowsPerRowGroup(maxRows))
	}
	return opts
}

// foreignRowGroup: an application-defined RowGroup whose Rows() differs from its chunks (keeps even ids only).
type c11Foreign struct{ parquet.RowGroup }

func (f c11Foreign) Rows() parquet.Rows { return &c11EvenRows{Rows: f.RowGroup.Rows()} }

type c11EvenRows struct{ parquet.Rows }

func (r *c11EvenRows) ReadRows(rows []parquet.Row) (int, error) {
	tmp := make([]parquet.Row, len(rows))
	n, err := r.Rows.ReadRows(tmp)
	k := 0
	for _, row := range tmp[:n] {
		if row[0].Int64()%2 == 0 {
			rows[k] = row.Clone()
			k++
		}
	}
	if k == 0 && err == nil && n > 0 {
		return r.ReadRows(rows)
	}
	return k, err
}

func c11Source(s c11Src, nrows int, sh c11Shape) (parquet.RowGroup, error) {
	ids := make([]int, nrows)
	for i := range ids {
		ids[i] = i
	}
	writeFile := func(schema *parquet.Schema, mk func(int) any, ids []int, bloom int) (*parquet.File, error) {
		buf := new(bytes.Buffer)
		opts := append([]parquet.WriterOption{schema}, c11Options(s.Codec, s.Ver, s.Enc, s.PStats, bloom, 0)...)
		w := parquet.NewWriter(buf, opts...)
		for _, id := range ids {
			if err := w.Write(mk(id)); err != nil {
				return nil, err
			}
		}
		if err := w.Close(); err != nil {
			return nil, err
		}
		fopts := []parquet.FileOption{}
		if !s.Index {
			fopts = append(fopts, parquet.SkipPageIndex(true))
		}
		return parquet.OpenFile(bytes.NewReader(buf.Bytes()), int64(buf.Len()), fopts...)
	}
	sorting := parquet.SortingRowGroupConfig(parquet.SortingColumns(parquet.Ascending("k")))
	// uneven segments, each below the destination's row-group limit in the "big" configuration (256)
	segments := func() [][]int {
		sizes := []int{150, 150, 100, 200, 130}
		out := [][]int{}
		at := 0
		for i := 0; at < nrows; i++ {
			n := min(sizes[i%len(sizes)], nrows-at)
			out = append(out, ids[at:at+n])
			at += n
		}
		return out
	}
	switch s.Kind {
	case "file":
		f, err := writeFile(sh.schema, sh.row, ids, s.Bloom)
		if err != nil {
			return nil, err
		}
		return f.RowGroups()[0], nil
	case "buffer":
		b := parquet.NewBuffer(sh.schema, sorting)
		for _, id := range ids {
			if err := b.Write(sh.row(id)); err != nil {
				return nil, err
			}
		}
		return b, nil
	case "multi", "disjoint", "dedupdisjoint":
		rgs := []parquet.RowGroup{}
		for _, seg := range segments() {
			f, err := writeFile(sh.schema, sh.row, seg, s.Bloom)
			if err != nil {
				return nil, err
			}
			rgs = append(rgs, f.RowGroups()[0])
		}
		if s.Kind == "multi" {
			return parquet.MultiRowGroup(rgs...), nil
		}
		if s.Kind == "dedupdisjoint" {
			// as below, dropping duplicates: every key occurs twice inside its segment
			return parquet.MergeRowGroups(rgs, sh.schema,
				parquet.SortingRowGroupConfig(parquet.SortingColumns(parquet.Ascending("k")), parquet.DropDuplicatedRows(true)))
		}
		// sorted on k and not overlapping (k = id / 2 and segments start at even ids): the merge keeps them as segments
		return parquet.MergeRowGroups(rgs, sh.schema, sorting)
	case "merged": // two overlapping files: a heap merge
		var a, b []int
		for i := range ids {
			if i%2 == 0 {
				a = append(a, i)
			} else {
				b = append(b, i)
			}
		}
		fa, err := writeFile(sh.schema, sh.row, a, s.Bloom)
		if err != nil {
			return nil, err
		}
		fb, err := writeFile(sh.schema, sh.row, b, s.Bloom)
		if err != nil {
			return nil, err
		}
		return parquet.MergeRowGroups([]parquet.RowGroup{fa.RowGroups()[0], fb.RowGroups()[0]}, sh.schema, sorting)
	case "dedup":
		f, err := writeFile(sh.schema, sh.row, ids, s.Bloom)
		if err != nil {
			return nil, err
		}
		return parquet.MergeRowGroups([]parquet.RowGroup{f.RowGroups()[0]}, sh.schema,
			parquet.SortingRowGroupConfig(parquet.SortingColumns(parquet.Ascending("k")), parquet.DropDuplicatedRows(true)))
	case "converted":
		// the source file has an extra column that the conversion drops
		f, err := writeFile(sh.wide, sh.wideRow, ids, 0)
		if err != nil {
			return nil, err
		}
		conv, err := parquet.Convert(sh.schema, f.Schema())
		if err != nil {
			return nil, err
		}
		return parquet.ConvertRowGroup(f.RowGroups()[0], conv), nil
	case "foreign":
		f, err := writeFile(sh.schema, sh.row, ids, s.Bloom)
		if err != nil {
			return nil, err
		}
		return c11Foreign{f.RowGroups()[0]}, nil
	}
	return nil, fmt.Errorf("unknown source kind %q", s.Kind)
}

type c11Summary struct {
	Err     int     `json:"err"`
	Msg     string  `json:"msg"`
	Rows    []int   `json:"rows"`    // ids in order (negative: row content differs from what the id stands for)
	RGSizes []int   `json:"rgSizes"` // rows per row group
	Cols    [][]int `json:"cols"`    // per column: codec, pageVersion, dictEncoded, plainPages, hdrStats, indexPresent, bloomPresent, bloomBytes
	Copied  int     `json:"copied"`
	Reenc   int     `json:"reenc"`
}

func c11Summarise(data []byte, sh c11Shape) c11Summary {
	sum := c11Summary{Rows: []int{}, RGSizes: []int{}, Cols: [][]int{}}
	f, err := parquet.OpenFile(bytes.NewReader(data), int64(len(data)))
	if err != nil {
		sum.Err, sum.Msg = 1, "open: "+err.Error()
		return sum
	}
	for g, rg := range f.RowGroups() {
		sum.RGSizes = append(sum.RGSizes, int(rg.NumRows()))
		rr := rg.Rows()
		buf := make([]parquet.Row, 16)
		for {
			n, err := rr.ReadRows(buf)
			for _, row := range buf[:n] {
				sum.Rows = append(sum.Rows, sh.verify(row))
			}
			if err != nil {
				if err != io.EOF {
					sum.Err, sum.Msg = 1, "read: "+err.Error()
				}
				break
			}
			if n == 0 {
				break
			}
		}
		rr.Close()
		if g > 0 {
			continue // settings are summarised from the first row group
		}
		md := f.Metadata().RowGroups[g]
		for c, cc := range rg.ColumnChunks() {
			m := md.Columns[c].MetaData
			col := []int{int(m.Codec), 0, 0, 0, 0, 0, 0, 0}
			for _, es := range m.EncodingStats {
				switch es.PageType {
				case format.DataPage:
					col[1] |= 1
				case format.DataPageV2:
					col[1] |= 2
				}
				if es.PageType == format.DataPage || es.PageType == format.DataPageV2 {
					if es.Encoding == format.RLEDictionary || es.Encoding == format.PlainDictionary {
						col[2] = 1
					} else {
						col[3] = 1
					}
				}
			}
			if oi, err := cc.OffsetIndex(); err == nil && oi != nil && oi.NumPages() > 0 {
				var hdr format.PageHeader
				proto := thrift.CompactProtocol{}
				if err := thrift.NewDecoder(proto.NewReaderFromBytes(data[oi.Offset(0):])).Decode(&hdr); err == nil {
					st := hdr.DataPageHeader.V.Statistics
					if hdr.DataPageHeaderV2.Valid {
						st = hdr.DataPageHeaderV2.V.Statistics
					}
					col[4] = b2i(st.MinValue != nil || st.MaxValue != nil)
				}
			}
			if ci, err := cc.ColumnIndex(); err == nil && ci != nil && ci.NumPages() > 0 {
				col[5] = 1
			}
			if m.BloomFilterOffset != 0 {
				col[6] = 1
				if bf := cc.BloomFilter(); bf != nil {
					col[7] = int(bf.Size())
				}
			}
			sum.Cols = append(sum.Cols, col)
		}
	}
	return sum
}

func c11Main(args []string) error {
	scs, err := readScenarios[c11Scenario](argValue(args, "--scenarios", "-"))
	if err != nil {
		return err
	}
	tr := newTracer(os.Stdout)
	defer tr.flush()
	for si := range scs {
		sc := &scs[si]
		nrows, maxRows := 500, int64(1000) // > 1024 values in the repeated column
		if sc.S.Big {
			nrows, maxRows = 700, 256 // more rows than the destination allows per row group; lists give > 1024 values
		}
		rid := sc.ID
		if sc.Orig != 0 {
			rid = sc.Orig
		}
		smallPages := rid%2 == 0 // destination cuts many pages per row group
		sh := c11ShapeOf(sc.S.Flat)
		tr.begin(ev{"sc": sc.ID, "s": sc.S, "d": sc.D, "maxRows": int(maxRows), "nrows": nrows, "smallPages": smallPages})
		for _, fast := range []bool{true, false} {
			var sum c11Summary
			pan, msg := guard(func() {
				parquet.VerifSetFastPaths(fast, fast, true)
				defer parquet.VerifSetFastPaths(true, true, true)
				src, err := c11Source(sc.S, nrows, sh)
				if err != nil {
					sum = c11Summary{Err: 1, Msg: "source: " + err.Error(), Rows: []int{}, RGSizes: []int{}, Cols: [][]int{}}
					return
				}
				c0, r0 := parquet.VerifPathCounters()
				out := new(bytes.Buffer)
				dopts := c11Options(sc.D.Codec, sc.D.Ver, sc.D.Enc, sc.D.PStats, sc.D.Bloom, maxRows)
				if smallPages {
					dopts = append(dopts, parquet.PageBufferSize(2048))
				}
				w := parquet.NewWriter(out, append([]parquet.WriterOption{sh.schema}, dopts...)...)
				if _, err := w.WriteRowGroup(src); err != nil {
					sum = c11Summary{Err: 1, Msg: "WriteRowGroup: " + err.Error(), Rows: []int{}, RGSizes: []int{}, Cols: [][]int{}}
					return
				}
				if err := w.Close(); err != nil {
					sum = c11Summary{Err: 1, Msg: "Close: " + err.Error(), Rows: []int{}, RGSizes: []int{}, Cols: [][]int{}}
					return
				}
				c1, r1 := parquet.VerifPathCounters()
				sum = c11Summarise(out.Bytes(), sh)
				sum.Copied, sum.Reenc = int(c1-c0), int(r1-r0)
			})
			if pan {
				sum = c11Summary{Err: 1, Msg: "panic: " + msg, Rows: []int{}, RGSizes: []int{}, Cols: [][]int{}}
			}
			name := "Fast"
			if !fast {
				name = "Ref"
			}
			tr.emit(name, ev{"err": sum.Err, "msg": sum.Msg, "rows": ints(sum.Rows), "rgSizes": ints(sum.RGSizes), "cols": sum.Cols,
				"copied": sum.Copied, "reenc": sum.Reenc})
		}
	}
	return nil
}
