package main

import (
	"fmt"
	"os"
)

type command func(args []string) error

var commands = map[string]command{}

// scratchDir: one temporary directory per run (file-backed page buffers), removed when the command returns.
var scratch string

func scratchDir() string {
	if scratch == "" {
		d, err := os.MkdirTemp("", "vh-scratch-")
		if err != nil {
			panic(err)
		}
		scratch = d
	}
	return scratch
}

func main() {
	if len(os.Args) < 2 {
		fmt.Fprintln(os.Stderr, "usage: vh <command> [args]")
		os.Exit(2)
	}
	cmd, ok := commands[os.Args[1]]
	if !ok {
		fmt.Fprintf(os.Stderr, "vh: unknown command %q\n", os.Args[1])
		os.Exit(2)
	}
	err := cmd(os.Args[2:])
	if scratch != "" {
		os.RemoveAll(scratch)
	}
	if err != nil {
		fmt.Fprintf(os.Stderr, "vh %s: %v\n", os.Args[1], err)
		os.Exit(2)
	}
}
