package main

import (
	"fmt"
	"os"
)

type command func(args []string) error

var commands = map[string]command{}

func main() {
	if len(os.Args) < 2 {
		fmt.Fprintln(os.Stderr, "usage: vh <command> [args]")
		os.Exit(2)
	}
	cmd, ok := commands[os.Args[1]]
	if !ok {
		fmt.Fprintf(os.Stderr, "vh: unknown command %q\n", os.Args[1])
		os.Exit(2)
	}
	if err := cmd(os.Args[2:]); err != nil {
		fmt.Fprintf(os.Stderr, "vh %s: %v\n", os.Args[1], err)
		os.Exit(2)
	}
}
