package main

import (
	"bytes"
	"crypto/sha256"
	"encoding/binary"
	"encoding/hex"
	"errors"
	"fmt"
	"math"
	"os"
	"strconv"

	"github.com/parquet-go/parquet-go/deprecated"
	"github.com/parquet-go/parquet-go/encoding"
	"github.com/parquet-go/parquet-go/encoding/bitpacked"
	"github.com/parquet-go/parquet-go/encoding/bytestreamsplit"
	"github.com/parquet-go/parquet-go/encoding/delta"
	"github.com/parquet-go/parquet-go/encoding/plain"
	"github.com/parquet-go/parquet-go/encoding/rle"
)

// C04: page encodings. A scenario is a pattern descriptor (EncSpace.tla); the
// harness expands it into values, calls the library's encoder and decoder with
// several destination-buffer histories and logs input, encoded bytes and plain
// equality flags. The independent decoder is Encodings.tla, run by EncMon.tla.

func init() { commands["c04"] = c04Main }

type c04Scenario struct {
	ID    int    `json:"id"`
	Orig  int    `json:"orig,omitempty"`
	Enc   string `json:"enc"`
	Kind  string `json:"kind"`
	Len   int    `json:"len"`
	Shape string `json:"shape"`
	W     *int   `json:"w,omitempty"`
}

func c04Encoding(name string, w int) encoding.Encoding {
	switch name {
	case "plain":
		return &plain.Encoding{}
	case "rle":
		return &rle.Encoding{BitWidth: w}
	case "bitpacked":
		return &bitpacked.Encoding{BitWidth: w}
	case "dict":
		return &rle.DictionaryEncoding{}
	case "delta":
		return &delta.BinaryPackedEncoding{}
	case "deltalength":
		return &delta.LengthByteArrayEncoding{}
	case "deltabytearray":
		return &delta.ByteArrayEncoding{}
	case "split":
		return &bytestreamsplit.Encoding{}
	}
	panic("unknown encoding " + name)
}

// c04Ints: the shape as a sequence of 64-bit patterns, reduced to the kind's width by the caller.
func c04Ints(shape string, n int, r *rng, lo, hi uint64) []uint64 {
	out := make([]uint64, n)
	span := hi - lo
	pickv := func() uint64 {
		if span == math.MaxUint64 {
			return r.next()
		}
		return lo + r.next()%(span+1)
	}
	a, b := pickv(), pickv()
	wrap := func(x uint64) uint64 { // into [lo, hi]
		if span == math.MaxUint64 {
			return x
		}
		return lo + x%(span+1)
	}
	for i := range out {
		switch shape {
		case "constant":
			out[i] = a
		case "alternating":
			if i%2 == 0 {
				out[i] = a
			} else {
				out[i] = b
			}
		case "ascending":
			out[i] = wrap(a - lo + uint64(i)*(1+b%1000))
		case "descending":
			out[i] = wrap(a - lo + uint64(n-i)*(1+b%1000))
		case "extremes":
			switch (i + int(a%3)) % 4 {
			case 0:
				out[i] = lo
			case 1:
				out[i] = hi
			case 2:
				out[i] = lo + span/2
			default:
				out[i] = lo + span/2 + 1
			}
		case "runs":
			if i == 0 || r.intn(9) == 0 {
				out[i] = pickv()
			} else {
				out[i] = out[i-1]
			}
		case "smallrange":
			out[i] = wrap(a - lo + uint64(r.intn(4)))
		default: // random, prefixes
			out[i] = pickv()
		}
	}
	return out
}

func c04ByteArrays(shape string, n int, r *rng, fixed int) [][]byte {
	out := make([][]byte, n)
	base := []byte("prefix-shared-by-many-values-0123456789")
	for i := range out {
		ln := fixed
		if fixed == 0 {
			switch shape {
			case "constant":
				ln = 5
			case "extremes":
				ln = []int{0, 0, 1, 300, 40}[r.intn(5)]
			default:
				ln = r.intn(24)
			}
		}
		v := make([]byte, ln)
		switch shape {
		case "constant":
			for j := range v {
				v[j] = byte('a' + j%3)
			}
		case "prefixes", "ascending", "runs":
			k := r.intn(len(base))
			for j := range v {
				if j < k {
					v[j] = base[j%len(base)]
				} else {
					v[j] = byte(r.next())
				}
			}
			if shape == "runs" && i > 0 && r.intn(3) > 0 && len(out[i-1]) == ln {
				copy(v, out[i-1])
			}
		case "alternating":
			for j := range v {
				v[j] = byte(0xFF * (i % 2))
			}
		default:
			for j := range v {
				v[j] = byte(r.next())
			}
		}
		out[i] = v
	}
	return out
}

func c04Main(args []string) error {
	seed, _ := strconv.ParseUint(argValue(args, "--seed", "1"), 10, 64)
	build := argValue(args, "--build", "asm")
	scs, err := readScenarios[c04Scenario](argValue(args, "--scenarios", "-"))
	if err != nil {
		return err
	}
	tr := newTracer(os.Stdout)
	defer tr.flush()
	tr.begin(ev{"sc": 0, "build": build})
	for si := range scs {
		sc := &scs[si]
		rid := sc.ID
		if sc.Orig != 0 {
			rid = sc.Orig
		}
		r := newRng(seed ^ uint64(rid)*0x9E3779B1)
		c04Run(tr, sc, rid, build, r)
	}
	return nil
}

func le(x uint64, n int) []int {
	out := make([]int, n)
	for i := range out {
		out[i] = int(byte(x >> (8 * i)))
	}
	return out
}

func c04Run(tr *tracer, sc *c04Scenario, rid int, build string, r *rng) {
	n := sc.Len
	w := 0
	var vals [][]int // the input, one byte sequence per value
	var encode func(dst []byte) ([]byte, error)
	var decodeSame func(variant int, src []byte) bool // library decode == input, with destination variant
	dirty := func(n int) []byte {
		b := make([]byte, n)
		for i := range b {
			b[i] = 0xA5
		}
		return b
	}
	pickW := func(max int) int {
		if sc.W != nil {
			return *sc.W
		}
		return 1 + r.intn(max)
	}
	switch sc.Kind {
	case "levels":
		w = pickW(8)
		if sc.Enc == "rle" && r.intn(6) == 0 {
			w = 8
		}
		xs := c04Ints(sc.Shape, n, r, 0, 1<<uint(w)-1)
		src := make([]uint8, n)
		for i, x := range xs {
			src[i] = uint8(x)
			vals = append(vals, []int{int(uint8(x))})
		}
		e := c04Encoding(sc.Enc, w)
		encode = func(dst []byte) ([]byte, error) { return e.EncodeLevels(dst, src) }
		decodeSame = func(variant int, enc []byte) bool {
			var dst []uint8
			if variant > 0 {
				dst = dirty(variant * 7)[:variant]
			}
			got, err := e.DecodeLevels(dst, enc)
			return err == nil && len(got) >= n && bytes.Equal(got[:n], src)
		}
	case "boolean":
		xs := c04Ints(sc.Shape, n, r, 0, 1)
		src := make([]byte, (n+7)/8)
		for i, x := range xs {
			src[i/8] |= byte(x&1) << (i % 8)
		}
		n = 8 * len(src)
		for i := 0; i < n; i++ {
			vals = append(vals, []int{int(src[i/8]>>(i%8)) & 1})
		}
		w = 1
		e := c04Encoding(sc.Enc, 1)
		encode = func(dst []byte) ([]byte, error) { return e.EncodeBoolean(dst, src) }
		decodeSame = func(variant int, enc []byte) bool {
			var dst []byte
			if variant > 0 {
				dst = dirty(variant * 7)[:variant]
			}
			got, err := e.DecodeBoolean(dst, enc)
			return err == nil && len(got) >= len(src) && bytes.Equal(got[:len(src)], src)
		}
	case "int32":
		w = 4
		lo, hi := uint64(0), uint64(math.MaxUint32)
		bw := 32
		switch sc.Enc {
		case "rle":
			bw = pickW(32)
			hi = 1<<uint(bw) - 1
		case "dict":
			bw = pickW(20)
			hi = 1<<uint(bw) - 1
		}
		xs := c04Ints(sc.Shape, n, r, lo, hi)
		src := make([]int32, n)
		for i, x := range xs {
			src[i] = int32(uint32(x))
			vals = append(vals, le(uint64(uint32(x)), 4))
		}
		e := c04Encoding(sc.Enc, bw)
		if sc.Enc == "rle" {
			w = bw // EncMon reads w as the bit width for RLE of int32
		}
		encode = func(dst []byte) ([]byte, error) { return e.EncodeInt32(dst, src) }
		decodeSame = func(variant int, enc []byte) bool {
			var dst []int32
			if variant > 0 {
				dst = make([]int32, variant, variant*3)
				for i := range dst {
					dst[i] = -0x5A5A5A5B
				}
			}
			got, err := e.DecodeInt32(dst, enc)
			if err != nil || len(got) < n {
				return false
			}
			for i := range src {
				if got[i] != src[i] {
					return false
				}
			}
			return true
		}
	case "int64":
		w = 8
		xs := c04Ints(sc.Shape, n, r, 0, math.MaxUint64)
		if sc.Shape == "extremes" {
			for i := range xs {
				xs[i] = []uint64{1 << 63, 1<<63 - 1, 0, math.MaxUint64, 1}[(i+int(xs[0]%5))%5]
			}
		}
		src := make([]int64, n)
		for i, x := range xs {
			src[i] = int64(x)
			vals = append(vals, le(x, 8))
		}
		e := c04Encoding(sc.Enc, 0)
		encode = func(dst []byte) ([]byte, error) { return e.EncodeInt64(dst, src) }
		decodeSame = func(variant int, enc []byte) bool {
			var dst []int64
			if variant > 0 {
				dst = make([]int64, variant, variant*3)
			}
			got, err := e.DecodeInt64(dst, enc)
			if err != nil || len(got) != n {
				return false
			}
			for i := range src {
				if got[i] != src[i] {
					return false
				}
			}
			return true
		}
	case "int96":
		w = 12
		src := make([]deprecated.Int96, n)
		a, b, c := c04Ints(sc.Shape, n, r, 0, math.MaxUint32), c04Ints(sc.Shape, n, r, 0, math.MaxUint32), c04Ints(sc.Shape, n, r, 0, math.MaxUint32)
		for i := range src {
			src[i] = deprecated.Int96{uint32(a[i]), uint32(b[i]), uint32(c[i])}
			vals = append(vals, append(append(le(a[i], 4), le(b[i], 4)...), le(c[i], 4)...))
		}
		e := c04Encoding(sc.Enc, 0)
		encode = func(dst []byte) ([]byte, error) { return e.EncodeInt96(dst, src) }
		decodeSame = func(variant int, enc []byte) bool {
			var dst []deprecated.Int96
			if variant > 0 {
				dst = make([]deprecated.Int96, variant, variant*3)
			}
			got, err := e.DecodeInt96(dst, enc)
			if err != nil || len(got) != n {
				return false
			}
			for i := range src {
				if got[i] != src[i] {
					return false
				}
			}
			return true
		}
	case "float":
		w = 4
		xs := c04Ints(sc.Shape, n, r, 0, math.MaxUint32)
		src := make([]float32, n)
		for i, x := range xs {
			src[i] = math.Float32frombits(uint32(x))
			vals = append(vals, le(uint64(uint32(x)), 4))
		}
		e := c04Encoding(sc.Enc, 0)
		encode = func(dst []byte) ([]byte, error) { return e.EncodeFloat(dst, src) }
		decodeSame = func(variant int, enc []byte) bool {
			var dst []float32
			if variant > 0 {
				dst = make([]float32, variant, variant*3)
			}
			got, err := e.DecodeFloat(dst, enc)
			if err != nil || len(got) != n {
				return false
			}
			for i := range src {
				if math.Float32bits(got[i]) != math.Float32bits(src[i]) {
					return false
				}
			}
			return true
		}
	case "double":
		w = 8
		xs := c04Ints(sc.Shape, n, r, 0, math.MaxUint64)
		src := make([]float64, n)
		for i, x := range xs {
			src[i] = math.Float64frombits(x)
			vals = append(vals, le(x, 8))
		}
		e := c04Encoding(sc.Enc, 0)
		encode = func(dst []byte) ([]byte, error) { return e.EncodeDouble(dst, src) }
		decodeSame = func(variant int, enc []byte) bool {
			var dst []float64
			if variant > 0 {
				dst = make([]float64, variant, variant*3)
			}
			got, err := e.DecodeDouble(dst, enc)
			if err != nil || len(got) != n {
				return false
			}
			for i := range src {
				if math.Float64bits(got[i]) != math.Float64bits(src[i]) {
					return false
				}
			}
			return true
		}
	case "bytearray":
		bs := c04ByteArrays(sc.Shape, n, r, 0)
		data, offsets := []byte{}, []uint32{0}
		for _, v := range bs {
			data = append(data, v...)
			offsets = append(offsets, uint32(len(data)))
			vals = append(vals, bytesToInts(v))
		}
		e := c04Encoding(sc.Enc, 0)
		encode = func(dst []byte) ([]byte, error) { return e.EncodeByteArray(dst, data, offsets) }
		decodeSame = func(variant int, enc []byte) bool {
			var dst []byte
			var doff []uint32
			if variant > 0 {
				dst = dirty(variant * 5)[:variant]
				doff = make([]uint32, variant, variant*2)
				for i := range doff {
					doff[i] = 0xDEAD
				}
			}
			got, goff, err := e.DecodeByteArray(dst, enc, doff)
			if err != nil {
				return false
			}
			if n == 0 {
				return len(goff) <= 1
			}
			if len(goff) != n+1 {
				return false
			}
			for i := range bs {
				if int(goff[i+1]) > len(got) || goff[i] > goff[i+1] || !bytes.Equal(got[goff[i]:goff[i+1]], bs[i]) {
					return false
				}
			}
			return true
		}
	case "fixed":
		w = []int{1, 2, 3, 5, 16, 8, 4}[r.intn(7)]
		if sc.W != nil {
			w = *sc.W
		}
		bs := c04ByteArrays(sc.Shape, n, r, w)
		data := []byte{}
		for _, v := range bs {
			data = append(data, v...)
			vals = append(vals, bytesToInts(v))
		}
		e := c04Encoding(sc.Enc, 0)
		encode = func(dst []byte) ([]byte, error) { return e.EncodeFixedLenByteArray(dst, data, w) }
		decodeSame = func(variant int, enc []byte) bool {
			var dst []byte
			if variant > 0 {
				dst = dirty(variant * 5)[:variant]
			}
			got, err := e.DecodeFixedLenByteArray(dst, enc, w)
			return err == nil && bytes.Equal(got, data)
		}
	default:
		panic("unknown kind " + sc.Kind)
	}

	e := ev{"id": rid, "build": build, "enc": sc.Enc, "kind": sc.Kind, "w": w, "n": n, "shape": sc.Shape, "len": sc.Len}
	var first []byte
	var ferr error
	pan, msg := guard(func() { first, ferr = encode(nil) })
	switch {
	case pan:
		e["err"] = "panic: " + msg
	case errors.Is(ferr, encoding.ErrNotSupported):
		e["err"] = "unsupported"
	case ferr != nil:
		e["err"] = ferr.Error()
	default:
		e["err"] = ""
	}
	if e["err"] != "" {
		e["vals"], e["encoded"], e["rt"], e["hist"], e["digest"] = [][]int{}, []int{}, []int{}, []int{}, ""
		tr.emit("Case", e)
		return
	}
	first = append([]byte{}, first...)
	sum := sha256.Sum256(first)
	// destination-buffer histories of the encoder: dirty with room, dirty and short, non-empty, previous output of another input
	hist := []int{}
	dsts := [][]byte{dirty(len(first) + 64)[:0], dirty(3)[:0], dirty(len(first) + 9), dirty(len(first)/2 + 1)[:1]}
	var reuse []byte
	for i, dst := range dsts {
		var out []byte
		var err error
		pan, _ := guard(func() { out, err = encode(dst) })
		hist = append(hist, b2i(!pan && err == nil && bytes.Equal(out, first)))
		if i == 0 {
			reuse = out
		}
	}
	// encode again into the buffer that holds the previous output (same input: the result must not depend on it)
	{
		var out []byte
		var err error
		pan, _ := guard(func() { out, err = encode(reuse) })
		hist = append(hist, b2i(!pan && err == nil && bytes.Equal(out, first)))
	}
	rt := []int{}
	for _, variant := range []int{0, 1, 5, 3 * (n + 1)} {
		okv := false
		pan, _ := guard(func() { okv = decodeSame(variant, first) })
		rt = append(rt, b2i(okv && !pan))
	}
	if vals == nil {
		vals = [][]int{}
	}
	e["vals"], e["encoded"], e["rt"], e["hist"], e["digest"] = vals, bytesToInts(first), rt, hist, hex.EncodeToString(sum[:8])
	tr.emit("Case", e)
}

var _ = binary.LittleEndian
var _ = fmt.Sprint
