package main

import (
	"bytes"
	"errors"
	"fmt"
	"io"
	"os"
	"strconv"

	"github.com/parquet-go/parquet-go"
)

// C14: I/O failures and truncated files are always reported.
// For every writer scenario (history x options, as in C01) the harness first
// produces the file without faults, then replays the history against a sink
// that fails at chosen write calls / byte offsets, opens every chosen strict
// prefix of the good file, and reads the good file through a ReaderAt that
// fails or short-reads at chosen call indexes.

func init() { commands["c14"] = c14Main }

type c14Scenario struct {
	c01Scenario
	// replay pinning
	Kind  string `json:"kind,omitempty"`  // sink | trunc | readat
	At    *int   `json:"at,omitempty"`    // call index / byte offset / prefix length
	Mode  string `json:"mode,omitempty"`  // sink: call | offset ; readat: error | short
	Bloom bool   `json:"bloom,omitempty"` // deferred bloom filters + file buffer pool variant
}

type faultySink struct {
	buf      bytes.Buffer
	calls    int
	failCall int // fail on this call index (1-based), 0 = never
	failOff  int // fail when the write would cross this byte offset, -1 = never
	fired    bool
	offsets  []int // start offset of every call (fault-free run)
	closeAt  int   // number of sink calls made before Close started
}

func (s *faultySink) Write(b []byte) (int, error) {
	s.calls++
	s.offsets = append(s.offsets, s.buf.Len())
	if s.failCall > 0 && s.calls == s.failCall {
		s.fired = true
		return 0, errors.New("injected sink failure")
	}
	if s.failOff >= 0 && s.buf.Len()+len(b) > s.failOff {
		k := s.failOff - s.buf.Len()
		if k < 0 {
			k = 0
		}
		s.buf.Write(b[:k])
		s.fired = true
		return k, errors.New("injected short write")
	}
	return s.buf.Write(b)
}

type faultyReaderAt struct {
	data     []byte
	calls    int
	failCall int
	short    bool
	eof      bool
	fired    bool
}

func (r *faultyReaderAt) ReadAt(p []byte, off int64) (int, error) {
	r.calls++
	if r.calls == r.failCall {
		r.fired = true
		if r.eof {
			return 0, io.EOF // the source ends early (e.g. the file was truncated after it was opened)
		}
		if r.short && len(p) > 1 {
			n, _ := bytes.NewReader(r.data).ReadAt(p[:len(p)/2], off)
			return n, io.ErrUnexpectedEOF
		}
		return 0, errors.New("injected read failure")
	}
	return bytes.NewReader(r.data).ReadAt(p, off)
}

// c14Tmp: scratch directory of the file-backed page buffers (removed when the run ends).
var c14Tmp string

func c14Options(sc *c14Scenario, r *rng) []parquet.WriterOption {
	opts := wOptions(sc.Cfg, r)
	if sc.Bloom {
		opts = append(opts, parquet.BloomFilters(parquet.SplitBlockFilter(10, "id"), parquet.SplitBlockFilter(10, "s")),
			parquet.DeferBloomFiltersWithBuffers(parquet.NewBufferPool()),
			parquet.ColumnPageBuffers(parquet.NewFileBufferPool(c14Tmp, "vh-c14-*")))
	}
	return opts
}

// c14Write runs the history on a sink and reports whether any call returned an error.
func c14Write(sc *c14Scenario, api string, encPick uint64, sink io.Writer, seed uint64) (anyErr bool, panicked bool, msg string) {
	pan, pmsg := guard(func() {
		w := wNew(api, sink, c14Options(sc, &rng{s: encPick}))
		next := 0
		ops := sc.Ops
		if len(ops) == 0 || ops[len(ops)-1].Op != "close" {
			ops = append(append([]wOp{}, ops...), wOp{Op: "close"})
		}
		for _, op := range ops {
			var err error
			switch op.Op {
			case "write":
				rows := make([]wRow, op.N)
				for i := range rows {
					rows[i] = wRowOf(next+i, seed)
				}
				next += op.N
				_, err = w.write(rows)
			case "colflush":
				for i, cw := range w.columnWriters() {
					if (op.C == 1 && i == 0) || (op.C != 1 && i%2 == 1) {
						if e := cw.Flush(); e != nil {
							err = e
						}
					}
				}
			case "flush":
				err = w.flush()
			case "close":
				if fs, ok := sink.(*faultySink); ok {
					fs.closeAt = fs.calls
				}
				err = w.close()
			}
			if err != nil {
				anyErr = true
				msg = op.Op + ": " + err.Error()
			}
		}
	})
	if pan {
		return anyErr, true, pmsg
	}
	return anyErr, false, msg
}

// c14ReadAll opens data through r and reads every row; returns tokens and whether an error was reported.
func c14ReadAll(r io.ReaderAt, size int64, seed uint64) (rows []int, anyErr bool, panicked bool, msg string) {
	rows = []int{}
	pan, pmsg := guard(func() {
		f, err := parquet.OpenFile(r, size)
		if err != nil {
			anyErr, msg = true, "open: "+err.Error()
			return
		}
		gr := parquet.NewGenericReader[wRow](f)
		defer gr.Close()
		buf := make([]wRow, 5)
		for {
			n, err := gr.Read(buf)
			for _, row := range buf[:n] {
				rows = append(rows, wToken(row, seed))
			}
			if err != nil {
				if err != io.EOF {
					anyErr, msg = true, "read: "+err.Error()
				}
				return
			}
			if n == 0 {
				return
			}
			buf = make([]wRow, 5)
		}
	})
	if pan {
		return rows, anyErr, true, pmsg
	}
	return rows, anyErr, false, msg
}

func c14Main(args []string) error {
	seed, _ := strconv.ParseUint(argValue(args, "--seed", "1"), 10, 64)
	density := argValue(args, "--density", "quick")
	scs, err := readScenarios[c14Scenario](argValue(args, "--scenarios", "-"))
	if err != nil {
		return err
	}
	tr := newTracer(os.Stdout)
	defer tr.flush()
	if c14Tmp, err = os.MkdirTemp("", "vh-c14-"); err != nil {
		return err
	}
	defer os.RemoveAll(c14Tmp)
	for si := range scs {
		sc := &scs[si]
		rid := sc.ID
		if sc.Orig != 0 {
			rid = sc.Orig
		}
		r := newRng(seed ^ uint64(rid)*0x9E3779B1)
		api := sc.API
		if api == "" {
			api = wAPIs[r.intn(len(wAPIs))]
		}
		encPick := r.next()
		if sc.Kind == "" {
			sc.Bloom = r.intn(3) == 0
		}
		// fault-free run
		good := &faultySink{failOff: -1}
		if anyErr, pan, msg := c14Write(sc, api, encPick, good, seed); anyErr || pan {
			return fmt.Errorf("scenario %d: fault-free run failed: %s", sc.ID, msg)
		}
		data := append([]byte{}, good.buf.Bytes()...)
		expect, anyErr, pan, msg := c14ReadAll(bytes.NewReader(data), int64(len(data)), seed)
		if anyErr || pan {
			return fmt.Errorf("scenario %d: fault-free file unreadable: %s", sc.ID, msg)
		}
		tr.begin(ev{"sc": sc.ID, "api": api, "bloom": sc.Bloom, "expect": ints(expect), "bytes": len(data), "sinkCalls": good.calls})
		probe := func(kind string, at int, mode string, faulted, anyErr, pan bool, rows []int, msg string) {
			tr.emit("Probe", ev{"kind": kind, "at": at, "mode": mode, "faulted": b2i(faulted), "anyErr": b2i(anyErr),
				"panic": b2i(pan), "rows": ints(rows), "msg": msg})
		}
		// ---- sink faults
		sinkProbe := func(at int, mode string) {
			fs := &faultySink{failOff: -1}
			if mode == "call" {
				fs.failCall = at
			} else {
				fs.failOff = at
			}
			anyErr, pan, msg := c14Write(sc, api, encPick, fs, seed)
			rows := expect
			if !anyErr && !pan {
				// nil from every call: the accepted bytes must be a complete file
				var rerr, rpan bool
				rows, rerr, rpan, msg = c14ReadAll(bytes.NewReader(fs.buf.Bytes()), int64(fs.buf.Len()), seed)
				if rerr || rpan {
					rows = []int{-8}
				}
			}
			probe("sink", at, mode, fs.fired, anyErr, pan, rows, msg)
		}
		truncProbe := func(n int) {
			rows, anyErr, pan, msg := c14ReadAll(bytes.NewReader(data[:n]), int64(n), seed)
			probe("trunc", n, "", true, anyErr, pan, rows, msg)
		}
		readatProbe := func(call int, mode string) {
			fr := &faultyReaderAt{data: data, failCall: call, short: mode == "short", eof: mode == "eof"}
			rows, anyErr, pan, msg := c14ReadAll(fr, int64(len(data)), seed)
			probe("readat", call, mode, fr.fired, anyErr, pan, rows, msg)
		}
		if sc.Kind != "" {
			switch sc.Kind {
			case "sink":
				sinkProbe(*sc.At, sc.Mode)
			case "trunc":
				truncProbe(*sc.At)
			case "readat":
				readatProbe(*sc.At, sc.Mode)
			}
			continue
		}
		limit := 40
		if density == "all" {
			limit = 1500
			if len(data) > 6000 { // every probe repeats the whole history: larger files get a sample again
				limit = 200
			}
		}
		// sample keeps the first and last few candidates and a seeded sample of the rest
		sample := func(cands []int) []int {
			if len(cands) <= limit {
				return cands
			}
			keep := map[int]bool{}
			for i := 0; i < 10 && i < len(cands); i++ {
				keep[cands[i]] = true
				keep[cands[len(cands)-1-i]] = true
			}
			for len(keep) < limit {
				keep[cands[r.intn(len(cands))]] = true
			}
			out := []int{}
			for _, c := range cands {
				if keep[c] {
					out = append(out, c)
				}
			}
			return out
		}
		calls := []int{}
		for c := 1; c <= good.calls; c++ {
			calls = append(calls, c)
		}
		probed := map[int]bool{}
		for _, c := range sample(calls) {
			probed[c] = true
			sinkProbe(c, "call")
		}
		// the writes made by Close (deferred bloom filters, page index, footer, trailer) each have their own
		// error plumbing: probe every one of them (up to a cap)
		closeCalls := []int{}
		for c := good.closeAt + 1; c <= good.calls; c++ {
			if !probed[c] {
				closeCalls = append(closeCalls, c)
			}
		}
		if len(closeCalls) > 2*limit {
			closeCalls = closeCalls[:2*limit]
		}
		for _, c := range closeCalls {
			sinkProbe(c, "call")
		}
		// byte offsets: structure boundaries (start of every sink write) +-1, plus every offset of small files
		offs := map[int]bool{0: true, 3: true, 4: true, len(data) - 1: true, len(data) - 8: true}
		for _, o := range good.offsets {
			offs[o] = true
			offs[o+1] = true
			offs[o-1] = true
		}
		if density == "all" && len(data) <= 6000 {
			for o := 0; o < len(data); o++ {
				offs[o] = true
			}
		}
		offsets := []int{}
		for o := 0; o < len(data); o++ {
			if offs[o] {
				offsets = append(offsets, o)
			}
		}
		for _, o := range sample(offsets) {
			sinkProbe(o, "offset")
		}
		// ---- truncated files: the same boundaries, the first and last 12 bytes, a stride
		for n := 0; n < len(data); n++ {
			if n < 12 || n > len(data)-12 || n%97 == int(seed)%97 {
				offs[n] = true
			}
		}
		prefixes := []int{}
		for n := 0; n < len(data); n++ {
			if offs[n] {
				prefixes = append(prefixes, n)
			}
		}
		for _, n := range sample(prefixes) {
			truncProbe(n)
		}
		// ---- ReaderAt failures
		probeReader := &faultyReaderAt{data: data}
		c14ReadAll(probeReader, int64(len(data)), seed)
		rcalls := []int{}
		for c := 1; c <= probeReader.calls; c++ {
			rcalls = append(rcalls, c)
		}
		for _, c := range sample(rcalls) {
			readatProbe(c, "error")
			readatProbe(c, "short")
			readatProbe(c, "eof")
		}
	}
	return nil
}
