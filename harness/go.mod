module verifharness

go 1.24.9

require (
	github.com/andybalholm/brotli v1.1.1
	github.com/google/uuid v1.6.0
	github.com/klauspost/compress v1.17.9
	github.com/parquet-go/parquet-go v0.0.0
	github.com/pierrec/lz4/v4 v4.1.21
	pgregory.net/rapid v1.3.0
)

require (
	github.com/parquet-go/bitpack v1.0.3 // indirect
	github.com/parquet-go/jsonlite v1.5.5 // indirect
	github.com/twpayne/go-geom v1.6.1 // indirect
	golang.org/x/sys v0.38.0 // indirect
	google.golang.org/protobuf v1.34.2 // indirect
)

replace github.com/parquet-go/parquet-go => /repo
