--------------------------- MODULE MC_PageReader ---------------------------
EXTENDS PageReader, Json

Both == {TRUE, FALSE}
LayoutsQuick == {<<2, 1, 3>>, <<1, 1>>, <<3>>, <<1, 2, 1, 2>>}
\* every layout of 1..4 pages with 1..3 rows per page
LayoutsThorough == UNION {[1..n -> 1..3] : n \in 1..4}

\* -simulate: print the history of every behaviour that reaches MaxOps operations
Emit == IF Len(hist) = MaxOps
        THEN PrintT(<<"SCENARIO", ToJson([cfg |-> cfg, ops |-> hist])>>) /\ FALSE
        ELSE TRUE
=============================================================================
