CONSTANTS
  Layouts <- LayoutsQuick
  IndexModes <- Both
  MaxRow = 6
  MaxOps = 100000
  Fix = TRUE
SPECIFICATION Spec
INVARIANTS Conforms StreamAgrees CacheAgrees
VIEW view
CHECK_DEADLOCK FALSE
