CONSTANTS W = 4  MaxN = 13  Fix = TRUE
INIT Init
NEXT Next
INVARIANTS Homogeneous Tiles
CHECK_DEADLOCK FALSE
