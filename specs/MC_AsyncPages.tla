--------------------------- MODULE MC_AsyncPages ---------------------------
(* Scenario generation for AsyncPages: each behaviour carries the history of   *)
(* its VISIBLE events - caller API calls and returns, and the reader's calls   *)
(* into the underlying Pages - which is what the harness can order from        *)
(* outside the library.  -simulate prints one scenario per behaviour.          *)
EXTENDS AsyncPages, Json
CONSTANT CloseAfter          \* Close is only called once this many operations were made (steers -simulate away from early Close)
VARIABLE hist
mvars == <<vars, hist>>

OpOf(c) == CASE c = "recv" -> "read" [] c = "seekSend" -> "seek" [] c = "close2" -> "close" [] OTHER -> "seek"
CallLbl == IF cpc = "idle" /\ (nops' # nops \/ cpc' = "close2")
           THEN <<[e |-> "call", op |-> OpOf(cpc'), k |-> (IF OpOf(cpc') = "seek" THEN carg' ELSE -1), o |-> "-"]>> ELSE <<>>
RetLbl == IF cpc' = "idle" /\ ret' # NoRet /\ (cpc # "idle" \/ (nops' # nops /\ ret'.err = "closedpipe"))
          THEN <<[e |-> "ret", op |-> "-", k |-> ret'.page, o |-> ret'.err]>> ELSE <<>>
ULbl == IF rpc = "loop" /\ err # "fatal" /\ (rdr' # rdr \/ offer' # offer)
        THEN <<[e |-> (IF seekTo.row >= 0 THEN "useek" ELSE "uread"), op |-> "-", k |-> (IF seekTo.row >= 0 THEN seekTo.row ELSE upos), o |-> err']>>
        ELSE IF rpc' = "exitSend" /\ rpc # "exitSend" THEN <<[e |-> "uclose", op |-> "-", k |-> -1, o |-> "none"]>> ELSE <<>>

Ended == Len(hist) > 0 /\ hist[Len(hist)].e = "end"
Step == Next /\ ~Ended /\ (cpc' = "close2" => nops >= CloseAfter) /\ hist' = hist \o CallLbl \o ULbl \o RetLbl
Finish == /\ cpc = "idle" /\ seekNil /\ rpc = "dead" /\ nops = MaxOps /\ ~Ended
          /\ PrintT(<<"SCENARIO", ToJson([np |-> NP, order |-> hist])>>)
          /\ hist' = Append(hist, [e |-> "end", op |-> "-", k |-> -1, o |-> "-"])
          /\ UNCHANGED vars
SimNext == Step \/ Finish \/ (Ended /\ UNCHANGED mvars)
SimSpec == Init /\ hist = <<>> /\ [][SimNext]_mvars
=============================================================================
