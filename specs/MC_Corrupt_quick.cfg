CONSTANTS NP = 3  MaxOps = 5  Fix = TRUE
SPECIFICATION Spec
INVARIANT NeverReturned
CHECK_DEADLOCK FALSE
