----------------------------- MODULE MC_Writer -----------------------------
EXTENDS Writer, Json
\* option vector: maxRows decides row groups; the others are concretised by the harness
CfgsQuick == [maxRows : {0, 1, 2, 3}, ver : {1, 2}, codec : {"none", "snappy"},
              enc : {"default"}, dict : {"inf"}, pagebuf : {"default"}, wbuf : {"default"}, stats : {"default"},
              bloom : {""}, sort : {""}, pool : {""}]
CfgsFull  == [maxRows : {0, 1, 2, 3, 70}, ver : {1, 2}, codec : {"none", "snappy", "gzip", "zstd", "lz4", "brotli"},
              enc : {"default", "plain", "delta", "split", "dict"}, dict : {"inf", "tiny", "off"},
              pagebuf : {"default", "tiny"}, wbuf : {"default", "zero", "small"}, stats : {"default", "off", "nobounds"},
              bloom : {"", "on", "deferred"}, sort : {"", "declared"},
              \* page buffers: the default pool, an in-memory pool with 64-byte chunks, temporary files (PageBuffer.tla)
              pool : {"", "chunk64", "file"}]
\* -simulate: exactly one scenario per behaviour, printed by a final action
Ended == Len(hist) > 0 /\ hist[Len(hist)].op = "end"
Finish == /\ (Len(hist) = MaxOps \/ closed) /\ ~Ended
          /\ PrintT(<<"SCENARIO", ToJson([cfg |-> cfg, ops |-> hist])>>)
          /\ hist' = Append(hist, [op |-> "end"])
          /\ UNCHANGED <<cfg, cur, pend, pages, rgs, accepted, closed>>
SimNext == Next \/ Finish \/ (Ended /\ UNCHANGED vars)
SimSpec == Init /\ [][SimNext]_vars
=============================================================================
