CONSTANTS N = 4  Bug = "none"
SPECIFICATION SimSpec
CHECK_DEADLOCK FALSE
