CONSTANTS Payloads = {1, 2, 3, 4, 5}  MaxCalls = 6  Fix = TRUE  Kind = "pooled"
SPECIFICATION SimSpec
CHECK_DEADLOCK FALSE
