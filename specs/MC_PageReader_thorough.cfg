CONSTANTS
  Layouts <- LayoutsThorough
  IndexModes <- Both
  MaxRow = 12
  MaxOps = 100000
  Fix = TRUE
SPECIFICATION Spec
INVARIANTS Conforms StreamAgrees CacheAgrees
VIEW view
CHECK_DEADLOCK FALSE
