CONSTANTS MaxG = 6
SPECIFICATION Spec
CHECK_DEADLOCK FALSE
