CONSTANTS V = 3  NPmax = 4  Fix = TRUE
INIT Init
NEXT Next
INVARIANT NeverMisses
CHECK_DEADLOCK FALSE
