----------------------------- MODULE WriterMon -----------------------------
(* VERDICT monitor for C01: the logged Write/Flush/Close calls are replayed   *)
(* through the content layer of Writer.tla (the same WriteN / FlushRG         *)
(* operators the model checker explores); what the file really contains must  *)
(* be exactly that.                                                           *)
(*   Init   cfg (maxRows, ...)                                                *)
(*   Write  n requested, w written, err, first (id of the first row offered)  *)
(*   ColFlush / Flush / Close  err                                            *)
(*   Final  open, rgs (row tokens per row group), pages (rows per page, per   *)
(*          column, per row group), typed / batched (tokens via Read[T] and   *)
(*          GenericReader.Read)                                               *)
(* A row token is the row's id when every leaf value read back is bit-equal   *)
(* to what was written for that id (harness projection), else negative.       *)
EXTENDS WriterOps, TLC, Json

CONSTANT TraceFile
Trace == ndJsonDeserialize(TraceFile)

VARIABLES l, st, ids, limit, failed, bad, cnt
mvars == <<l, st, ids, limit, failed, bad, cnt>>
E == Trace[l]
MaxBad == 300
OneCol == {1}
Empty0 == [cur |-> 0, pend |-> [c \in OneCol |-> 0], pages |-> [c \in OneCol |-> <<>>], rgs |-> <<>>]

Flag(c) ==
  /\ bad' = (IF Len(bad) < MaxBad THEN Append(bad, <<E.t, E.i, c>>) ELSE bad)
  /\ cnt' = [cnt EXCEPT !.flagged = @ + 1]

\* expected row groups: the accepted ids cut by the model's row-group sizes
RECURSIVE Cut(_, _, _)
Cut(s, sizes, i) == IF i > Len(sizes) THEN <<>>
                    ELSE <<SubSeq(s, 1, sizes[i])>> \o Cut(SubSeq(s, sizes[i] + 1, Len(s)), sizes, i + 1)
Flat(ss) == FoldLeft(LAMBDA a, b : a \o b, <<>>, ss)

FinalClass(e) ==
  LET sizes == [i \in 1..Len(st.rgs) |-> st.rgs[i].rows] IN
  IF e.open = 0 THEN "unreadable"
  ELSE IF Flat(e.rgs) # ids THEN "rows"
  ELSE IF [i \in 1..Len(e.rgs) |-> Len(e.rgs[i])] # sizes THEN "rowgroups"
  ELSE IF e.typed # ids THEN "read-typed"
  ELSE IF e.batched # ids THEN "read-batched"
  ELSE IF \E g \in 1..Len(e.pages) : \E c \in 1..Len(e.pages[g]) :
            Len(e.pages[g][c]) > 0 /\ (Sum(e.pages[g][c]) # Len(e.rgs[g]) \/ \E p \in 1..Len(e.pages[g][c]) : e.pages[g][c][p] <= 0)
       THEN "pages"
  ELSE "ok"

MInit == /\ l = 1 /\ st = Empty0 /\ ids = <<>> /\ limit = 1000000 /\ failed = FALSE /\ bad = <<>>
         /\ cnt = [traces |-> 0, writes |-> 0, finals |-> 0, rows |-> 0, vacuous |-> 0, flagged |-> 0]

Step ==
  /\ l <= Len(Trace) /\ l' = l + 1
  /\ CASE E.ev = "Init" ->
            /\ st' = Empty0 /\ ids' = <<>> /\ failed' = FALSE /\ bad' = bad
            /\ limit' = (IF E.cfg.maxRows = 0 THEN 1000000 ELSE E.cfg.maxRows)
            /\ cnt' = [cnt EXCEPT !.traces = @ + 1]
       [] E.ev = "Write" ->
            /\ UNCHANGED limit
            /\ IF E.err = 1
               THEN \* a valid row was refused: nothing is claimed about the rest of this file
                    /\ failed' = TRUE /\ UNCHANGED <<st, ids>> /\ Flag("write-error")
               ELSE /\ st' = WriteN(st, E.w, limit)
                    /\ ids' = ids \o [k \in 1..E.w |-> E.first + k - 1]
                    /\ failed' = failed
                    /\ IF E.w # E.n THEN Flag("short-write")
                       ELSE bad' = bad /\ cnt' = [cnt EXCEPT !.writes = @ + 1, !.rows = @ + E.w]
       [] E.ev = "ColFlush" ->
            /\ UNCHANGED <<st, ids, limit>>
            /\ IF E.err = 1 THEN failed' = TRUE /\ Flag("flush-error") ELSE failed' = failed /\ UNCHANGED <<bad, cnt>>
       [] E.ev \in {"Flush", "Close"} ->
            /\ UNCHANGED <<ids, limit>>
            /\ st' = FlushRG(st)
            /\ IF E.err = 1 THEN failed' = TRUE /\ Flag("flush-error") ELSE failed' = failed /\ UNCHANGED <<bad, cnt>>
       [] E.ev = "Final" ->
            /\ UNCHANGED <<st, ids, limit, failed>>
            /\ IF failed THEN bad' = bad /\ cnt' = [cnt EXCEPT !.vacuous = @ + 1]
               ELSE LET c == FinalClass(E) IN
                    IF c = "ok" THEN bad' = bad /\ cnt' = [cnt EXCEPT !.finals = @ + 1] ELSE Flag(c)

MSpec == MInit /\ [][Step]_mvars
Done == l = Len(Trace) + 1 =>
          PrintT(<<"VERDICT", ToJson([consumed |-> l - 1, bad |-> bad, cnt |-> cnt])>>)
=============================================================================
