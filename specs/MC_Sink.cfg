CONSTANTS BufSizes = {0, 4, 100}  FailAts = {1, 2, 3, 4, 5, 99}  MaxOps = 6
SPECIFICATION Spec
INVARIANTS Reported NothingLost
CHECK_DEADLOCK FALSE
