CONSTANTS NP = 2  MaxOps = 8  Faults = 1  Bug = "none"  CloseAfter = 3
SPECIFICATION SimSpec
CHECK_DEADLOCK FALSE
