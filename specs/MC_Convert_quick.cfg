CONSTANTS MaxList = 1
INIT Init
NEXT Next
INVARIANTS IdentityIsNoop ShapeOK StreamsOK StripOfProject
CHECK_DEADLOCK FALSE
