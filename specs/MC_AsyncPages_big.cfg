CONSTANTS NP = 3  MaxOps = 6  Faults = 1  Bug = "none"
SPECIFICATION Spec
INVARIANTS Conforms NoLeak AllReleasedAtEnd SendNeverBlocks
CHECK_DEADLOCK TRUE
