CONSTANTS NP = 2  MaxOps = 3  Faults = 0  Bug = "none"
SPECIFICATION WeakSpec
PROPERTIES CloseReturns
CHECK_DEADLOCK TRUE
