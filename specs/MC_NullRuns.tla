---------------------------- MODULE MC_NullRuns ----------------------------
EXTENDS NullRuns, Json
\* emission: the bitmap of every initial state as a 0/1 pattern
Pattern == [k \in 1..n |-> Bit(k - 1)]
EmitInit == pc = "top" /\ i = 0 /\ runs = <<>> => PrintT(<<"SCENARIO", ToJson([pattern |-> Pattern])>>)
NoNext == FALSE /\ UNCHANGED vars
=============================================================================
