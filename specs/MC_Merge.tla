------------------------------ MODULE MC_Merge ------------------------------
EXTENDS Merge, Json
\* the model's plan is emitted with every scenario so that the driver can stratify its sample
NSeg == Len(Plan(cfg, inputs))
Partial == \E i \in 1..Len(inputs) : \E j \in 1..Len(inputs) :
             i # j /\ Len(inputs[i]) > 0 /\ Len(inputs[j]) > 0 /\ HasBounds(inputs[i]) /\ HasBounds(inputs[j])
             /\ Cmp(cfg, Lo(inputs[i]), Lo(inputs[j])) < 0 /\ LE(cfg, Lo(inputs[j]), Hi(inputs[i]))
Emit == PrintT(<<"SCENARIO", ToJson([cfg |-> cfg, inputs |-> inputs, nseg |-> NSeg, partial |-> Partial])>>)
=============================================================================
