------------------------------ MODULE MC_Merge ------------------------------
EXTENDS Merge, Json
Emit == PrintT(<<"SCENARIO", ToJson([cfg |-> cfg, inputs |-> inputs])>>)
=============================================================================
