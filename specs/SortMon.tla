------------------------------- MODULE SortMon -------------------------------
(* VERDICT monitor for C10.                                                  *)
(*   Init  cs   : <<[desc, nullsFirst], [desc, nullsFirst]>> for k1, k2      *)
(*         rows : <<k1, k2>> key tokens of the rows written, by id (0 = null)*)
(*   Out   path, by ("keys" | "rk" | "z": which sorting columns were declared), z, ids, keys (read back), cmp (Schema.Comparator on adjacent   *)
(*         output rows), dedupe, meta (sorting columns recorded in the file, *)
(*         <<col, desc, nullsFirst>>; <<<<-1>>>> when not a file), err       *)
(* Requirement: output is a permutation of the written rows (each row intact)*)
(* ordered by the declared sorting columns; the comparator agrees; recorded  *)
(* sorting metadata is exactly what was declared; with duplicate dropping    *)
(* one row per distinct key remains.                                         *)
EXTENDS Integers, Sequences, FiniteSets, TLC, Json
CONSTANT TraceFile
Trace == ndJsonDeserialize(TraceFile)
VARIABLES l, cur, bad, cnt
vars == <<l, cur, bad, cnt>>
E == Trace[l]
MaxBad == 300
Flag(c) ==
  /\ bad' = (IF Len(bad) < MaxBad THEN Append(bad, <<E.t, E.i, c>>) ELSE bad)
  /\ cnt' = [cnt EXCEPT !.flagged = @ + 1]
Cmp(c, a, b) ==
  IF a = 0 /\ b = 0 THEN 0
  ELSE IF a = 0 THEN (IF c.nullsFirst THEN -1 ELSE 1)
  ELSE IF b = 0 THEN (IF c.nullsFirst THEN 1 ELSE -1)
  ELSE IF a = b THEN 0
  ELSE IF (a < b) # c.desc THEN -1 ELSE 1
RowCmp(r1, r2) == LET c1 == Cmp(cur.cs[1], r1[1], r2[1]) IN IF c1 # 0 THEN c1 ELSE Cmp(cur.cs[2], r1[2], r2[2])
Declared == [i \in 1..2 |-> <<i, IF cur.cs[i].desc THEN 1 ELSE 0, IF cur.cs[i].nullsFirst THEN 1 ELSE 0>>]
OutClass(e) ==
  LET n == Len(e.ids)  N == Len(cur.rows) IN
  IF e.err = 1 THEN "error"
  ELSE IF Len(e.keys) # n THEN "malformed"
  ELSE IF \E i \in 1..n : e.ids[i] < 0 \/ e.ids[i] >= N THEN "foreign-row"
  ELSE IF \E i \in 1..n : e.keys[i] # cur.rows[e.ids[i] + 1] THEN "row-not-intact"
  ELSE IF Cardinality({e.ids[i] : i \in 1..n}) # n THEN "duplicated-row"
  ELSE IF e.dedupe = 0 /\ n # N THEN "lost-rows"
  \* sorted by the repeated column: what the order of two lists is, is not in the statement; the buffers and the
  \* sorting writer must at least produce the order that the library's comparator (used by merges) defines
  ELSE IF e.by = "rk" THEN (IF \E i \in 1..Len(e.cmp) : e.cmp[i] > 0 THEN "comparator-disagrees@repeated" ELSE "ok")
  \* sorted (ascending) by the required column z, which lies behind repeated columns in the row
  ELSE IF e.by = "z" THEN (IF \E i \in 1..(n - 1) : e.z[i] > e.z[i + 1] THEN "not-sorted@required"
                           ELSE IF \E i \in 1..Len(e.cmp) : e.cmp[i] > 0 THEN "comparator-disagrees@required" ELSE "ok")
  ELSE IF \E i \in 1..(n - 1) : RowCmp(e.keys[i], e.keys[i + 1]) > 0 THEN "not-sorted"
  ELSE IF \E i \in 1..Len(e.cmp) : e.cmp[i] > 0 THEN "comparator-disagrees"
  ELSE IF e.dedupe = 1 /\ (\E i \in 1..(n - 1) : RowCmp(e.keys[i], e.keys[i + 1]) = 0) THEN "duplicate-key"
  ELSE IF e.dedupe = 1 /\ {e.keys[i] : i \in 1..n} # {cur.rows[i] : i \in 1..N} THEN "lost-keys"
  ELSE IF e.meta # << <<-1>> >> /\ n > 0 /\ e.meta # Declared THEN "sorting-metadata"
  ELSE "ok"
Init == l = 1 /\ cur = [rows |-> <<>>] /\ bad = <<>> /\ cnt = [traces |-> 0, outs |-> 0, rows |-> 0, flagged |-> 0]
Step ==
  /\ l <= Len(Trace) /\ l' = l + 1
  /\ CASE E.ev = "Init" -> cur' = E /\ bad' = bad /\ cnt' = [cnt EXCEPT !.traces = @ + 1]
       [] E.ev = "Out" ->
            /\ cur' = cur
            /\ LET c == OutClass(E) IN
               IF c = "ok" THEN bad' = bad /\ cnt' = [cnt EXCEPT !.outs = @ + 1, !.rows = @ + Len(E.ids)] ELSE Flag(c)
Spec == Init /\ [][Step]_vars
Done == l = Len(Trace) + 1 =>
          PrintT(<<"VERDICT", ToJson([consumed |-> l - 1, bad |-> bad, cnt |-> cnt])>>)
=============================================================================
