--------------------------- MODULE MC_PageBuffer ---------------------------
(* Bounded machine over PageBuffer's operations, with a second, independent   *)
(* description of the contents (a map from offsets to the byte last stored    *)
(* there) and the writer's usage protocol.                                    *)
EXTENDS PageBuffer, FiniteSets, TLC, Json

CONSTANTS MaxLen, MaxOps, Clamp, Bug     \* Bug \in {"none", "append", "noclear", "shortdrain"}
Chunks == {<<>>, <<1>>, <<2, 1>>, <<1, 2, 2>>}
Offsets == {-1, 0, 1, 2, MaxLen + 1}

VARIABLES st,        \* the buffer
          map,       \* offset -> byte last written there (ghost)
          phase,     \* "append": only Write since GetBuffer; "drain": then Seek(0, start), then only Read / WriteTo; "free": anything else
          appended,  \* concatenation of the writes of the append phase
          out,       \* what the drain phase delivered so far
          last,      \* name of the last operation
          ops        \* history of operations (scenario emission only; not part of the VIEW)
vars == <<st, map, phase, appended, out, last, ops>>
View == <<st, map, phase, appended, out, last, Len(ops)>>

Init == st = Fresh /\ map = [o \in {} |-> 0] /\ phase = "append" /\ appended = <<>> /\ out = <<>> /\ last = "get" /\ ops = <<>>

Extend(m, pos, p) == [o \in DOMAIN m \cup {pos + i - 1 : i \in 1..Len(p)} |->
                        IF o >= pos /\ o < pos + Len(p) THEN p[o - pos + 1] ELSE m[o]]

DoWrite(p) ==
  /\ st.pos + Len(p) <= MaxLen
  /\ st' = (IF Bug = "append" /\ Len(p) > 0 THEN [data |-> st.data \o p, pos |-> Len(st.data) + Len(p)] ELSE Write(st, p))
  /\ map' = Extend(map, st.pos, p)
  /\ phase' = (IF phase = "append" THEN "append" ELSE "free")
  /\ appended' = appended \o p
  /\ UNCHANGED out
  /\ last' = "write" /\ ops' = Append(ops, [op |-> "write", n |-> Len(p)])

DoSeek(off, wh) ==
  /\ st' = Seek(st, off, wh, Clamp)
  /\ phase' = (IF phase = "append" /\ off = 0 /\ wh = 0 THEN "drain" ELSE "free")
  /\ UNCHANGED <<map, appended, out>>
  /\ last' = "seek" /\ ops' = Append(ops, [op |-> "seek", off |-> off, wh |-> wh])

DoRead(k, n) ==   \* the buffer delivers n of the k bytes asked for
  /\ n <= k /\ n <= Avail(st)
  /\ ReadOk(st, k, SubSeq(st.data, st.pos + 1, st.pos + n), Avail(st) = 0)
  /\ st' = AfterRead(st, n)
  /\ out' = out \o SubSeq(st.data, st.pos + 1, st.pos + n)
  /\ phase' = (IF phase = "drain" THEN "drain" ELSE "free")
  /\ UNCHANGED <<map, appended>>
  /\ last' = "read" /\ ops' = Append(ops, [op |-> "read", k |-> k])

DoWriteTo ==
  /\ st' = AfterWriteTo(st)
  /\ out' = out \o (IF Bug = "shortdrain" /\ Len(Rest(st)) > 2 THEN SubSeq(Rest(st), 1, 2) ELSE Rest(st))
  /\ phase' = (IF phase = "drain" THEN "drain" ELSE "free")
  /\ UNCHANGED <<map, appended>>
  /\ last' = "writeto" /\ ops' = Append(ops, [op |-> "writeto"])

DoRecycle ==      \* PutBuffer, then GetBuffer hands out a buffer (possibly the same one)
  /\ st' = (IF Bug = "noclear" THEN [st EXCEPT !.pos = 0] ELSE Fresh)
  /\ map' = [o \in {} |-> 0] /\ phase' = "append" /\ appended' = <<>> /\ out' = <<>>
  /\ last' = "get" /\ ops' = Append(ops, [op |-> "recycle"])

Next ==
  /\ Len(ops) < MaxOps
  /\ \/ \E p \in Chunks : DoWrite(p)
     \/ \E off \in Offsets, wh \in 0..2 : DoSeek(off, wh)
     \/ \E k \in 0..3, n \in 0..3 : DoRead(k, n)
     \/ DoWriteTo
     \/ DoRecycle
Spec == Init /\ [][Next]_vars

\* the sequence and the map describe the same contents; what was never written inside the extent is zero
Agree == /\ \A o \in DOMAIN map : o < Len(st.data) /\ st.data[o + 1] = map[o]
         /\ \A i \in 1..Len(st.data) : (i - 1) \notin DOMAIN map => st.data[i] = 0
         /\ (Clamp => st.pos <= Len(st.data))
\* the writer's protocol: Write* ; Seek(0, start) ; WriteTo | Read*  hands back exactly what was written, in order
Protocol == (phase = "drain" /\ Avail(st) = 0) => out = appended
\* a buffer handed out by the pool is empty
FreshFromPool == last = "get" => st = Fresh
Inv == Agree /\ Protocol /\ FreshFromPool

\* -simulate: print the history of each behaviour once
Finish == /\ Len(ops) = MaxOps /\ ops' = Append(ops, [op |-> "end"])
          /\ PrintT(<<"SCENARIO", ToJson([ops |-> ops])>>)
          /\ UNCHANGED <<st, map, phase, appended, out, last>>
SimNext == Next \/ Finish \/ (Len(ops) > MaxOps /\ UNCHANGED vars)
SimSpec == Init /\ [][SimNext]_vars
=============================================================================
