CONSTANTS Tok = {1, 2, 3}  MaxOps = 6  Fix = TRUE
SPECIFICATION Spec
INVARIANT NeverAbsent
VIEW view
CHECK_DEADLOCK FALSE
