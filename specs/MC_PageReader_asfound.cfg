CONSTANTS
  Layouts <- LayoutsQuick
  IndexModes <- Both
  MaxRow = 6
  MaxOps = 100000
  Fix = FALSE
SPECIFICATION Spec
INVARIANTS Conforms StreamAgrees CacheAgrees
VIEW view
CHECK_DEADLOCK FALSE
