CONSTANTS V = 3  MaxPages = 2  MaxVals = 2  Fix = FALSE
INIT Init
NEXT Next
INVARIANTS ChunkBounds PageBoundsOK
CHECK_DEADLOCK FALSE
