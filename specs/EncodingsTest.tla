--------------------------- MODULE EncodingsTest ---------------------------
(* Self-checks of Encodings.tla against examples worked out by hand from the  *)
(* format document (Encodings.md), so that the decoders are anchored in the    *)
(* specification and not in the library's output.                              *)
EXTENDS Encodings
I4(x) == IntLE(x, 4)
\* DELTA_BINARY_PACKED, example 1 of the format document: 1, 2, 3, 4, 5
\*   header: block size 128, 4 miniblocks, 5 values, first value 1 (zigzag 2); block: min delta 1 (zigzag 2), widths 0,0,0,0
ASSUME DeltaBinaryPacked(<<128, 1, 4, 5, 2, 2, 0, 0, 0, 0>>, 4) = <<I4(1), I4(2), I4(3), I4(4), I4(5)>>
\* example 2: 7, 5, 3, 1, 2, 3, 4, 5 : deltas -2 -2 -2 1 1 1 1, min delta -2 (zigzag 3), relative deltas 0 0 0 3 3 3 3, width 2
\*   packed LSB first: 00 00 00 11 | 11 11 11 00 ... = bytes 0xC0, 0x3F then zero padding to 32 values * 2 bits = 8 bytes
ASSUME DeltaBinaryPacked(<<128, 1, 4, 8, 14, 3, 2, 0, 0, 0, 192, 63, 0, 0, 0, 0, 0, 0>>, 4)
         = <<I4(7), I4(5), I4(3), I4(1), I4(2), I4(3), I4(4), I4(5)>>
\* wrap-around: first value MaxInt32 (zigzag 2^32 - 2 = FE FF FF FF 0F), one delta of +1 -> MinInt32
ASSUME DeltaBinaryPacked(<<128, 1, 4, 2, 254, 255, 255, 255, 15, 2, 0, 0, 0, 0>>, 4) = <<<<255, 255, 255, 127>>, <<0, 0, 0, 128>>>>
\* RLE / bit-packed hybrid, bit width 3, from the format document: values 0..7 bit-packed = header 0x03, bytes 0x88 0xC6 0xFA
ASSUME HybridInts(<<3, 136, 198, 250>>, 3, 100) = <<0, 1, 2, 3, 4, 5, 6, 7>>
\* RLE run: 10 copies of 5 at width 3: header 10 << 1 = 20, value byte 5
ASSUME HybridInts(<<20, 5>>, 3, 100) = [k \in 1..10 |-> 5]
\* run longer than 63 needs a two-byte varint header: 100 copies of 1 -> header 200 = C8 01
ASSUME HybridInts(<<200, 1, 1>>, 1, 1000) = [k \in 1..100 |-> 1]
\* deprecated BIT_PACKED, width 3, values 0..7 = bytes 0x05 0x39 0x77 (MSB first)
ASSUME BitPackedMSB(<<5, 57, 119>>, 3, 8) = <<0, 1, 2, 3, 4, 5, 6, 7>>
\* PLAIN byte arrays: "ab", "", "c"
ASSUME PlainByteArrays(<<2, 0, 0, 0, 97, 98, 0, 0, 0, 0, 1, 0, 0, 0, 99>>, 1, <<>>) = <<<<97, 98>>, <<>>, <<99>>>>
\* BYTE_STREAM_SPLIT of three 4-byte values AA BB CC DD / 00 11 22 33 / A3 B4 C5 D6
ASSUME ByteStreamSplit(<<170, 0, 163, 187, 17, 180, 204, 34, 197, 221, 51, 214>>, 4) = <<<<170, 187, 204, 221>>, <<0, 17, 34, 51>>, <<163, 180, 197, 214>>>>
\* DELTA_LENGTH_BYTE_ARRAY: "Hello", "World", "Foobar", "ABCDEF": lengths 5 5 6 6 (first 5, deltas 0 1 0, min 0, width 1: bits 0,1,0 -> 0x02)
ASSUME DeltaLengthByteArray(<<128, 1, 4, 4, 10, 0, 1, 0, 0, 0, 2, 0, 0, 0>> \o <<72, 101, 108, 108, 111, 87, 111, 114, 108, 100, 70, 111, 111, 98, 97, 114, 65, 66, 67, 68, 69, 70>>)
         = <<<<72, 101, 108, 108, 111>>, <<87, 111, 114, 108, 100>>, <<70, 111, 111, 98, 97, 114>>, <<65, 66, 67, 68, 69, 70>>>>
\* DELTA_BYTE_ARRAY: "axis", "axle", "babble", "babyhood": prefixes 0 2 0 3, suffixes "axis" "le" "babble" "yhood"
\*   prefix lengths: first 0, deltas 2 -2 3, min -2 (zigzag 3), relative 4 0 5, width 3, LSB first: 001 000 10|1 = 0x44 0x01, 12 bytes per miniblock
ASSUME LET pre == <<128, 1, 4, 4, 0, 3, 3, 0, 0, 0, 68, 1, 0, 0, 0, 0, 0, 0, 0, 0, 0, 0>>
           \* suffix lengths 4 2 6 5: first 4, deltas -2 4 -1, min -2 (zigzag 3), relative 0 6 1, width 3, LSB first: 000 011 10|0 = 0x70 0x00
           suf == <<128, 1, 4, 4, 8, 3, 3, 0, 0, 0, 112, 0, 0, 0, 0, 0, 0, 0, 0, 0, 0, 0>>
           txt == <<97, 120, 105, 115, 108, 101, 98, 97, 98, 98, 108, 101, 121, 104, 111, 111, 100>>
       IN DeltaByteArray(pre \o suf \o txt) = << <<97, 120, 105, 115>>, <<97, 120, 108, 101>>, <<98, 97, 98, 98, 108, 101>>, <<98, 97, 98, 121, 104, 111, 111, 100>> >>
VARIABLE x
Init == x = 0
Next == UNCHANGED x
=============================================================================
