CONSTANTS Tok = {1, 2}  MaxList = 2  Fam = {"single"}
INIT Init
NEXT Next
INVARIANTS RoundTrip LevelsBounded FirstRepZero OneStreamPerLeaf
CHECK_DEADLOCK FALSE
