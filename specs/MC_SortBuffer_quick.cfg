CONSTANTS K = 2  Fix = TRUE
INIT Init
NEXT Next
INVARIANT AgreesWithDeclaredOrder
CHECK_DEADLOCK FALSE
