CONSTANTS NP = 2  MaxOps = 3  Faults = 0  Bug = "sendfirst"
SPECIFICATION FairSpec
PROPERTIES SeekReturns
CHECK_DEADLOCK TRUE
