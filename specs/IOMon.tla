------------------------------- MODULE IOMon -------------------------------
(* VERDICT monitor for C14.                                                  *)
(*   Init    expect : the row tokens a complete file holds                   *)
(*   Probe   kind ("sink" | "trunc" | "readat"), faulted (the injected fault  *)
(*           really fired), anyErr (some API call / OpenFile / read returned  *)
(*           an error), panic, complete (a file was produced or opened and    *)
(*           fully read), rows (tokens read back from it)                     *)
(* Requirement: no panic; a sink fault or truncation that fired is reported   *)
(* by an error; when no error was reported the rows obtained are exactly the  *)
(* expected ones (this is the whole obligation for ReadAt faults, which a     *)
(* reader may legitimately retry).                                            *)
EXTENDS Integers, Sequences, TLC, Json
CONSTANT TraceFile
Trace == ndJsonDeserialize(TraceFile)
VARIABLES l, expect, bad, cnt
vars == <<l, expect, bad, cnt>>
E == Trace[l]
MaxBad == 300
Flag(c) ==
  /\ bad' = (IF Len(bad) < MaxBad THEN Append(bad, <<E.t, E.i, c>>) ELSE bad)
  /\ cnt' = [cnt EXCEPT !.flagged = @ + 1]
ProbeClass(e) ==
  IF e.panic = 1 THEN "panic"
  \* a failing sink or a truncated file must be reported; a failing / short ReadAt may be retried by the
  \* reader (the bytes still exist), so for it only the outcome counts: no missing or altered rows
  ELSE IF e.kind # "readat" /\ e.faulted = 1 /\ e.anyErr = 0 THEN "silent-" \o e.kind
  ELSE IF e.anyErr = 0 /\ e.rows # expect THEN "wrong-rows-" \o e.kind
  ELSE "ok"
Init == l = 1 /\ expect = <<>> /\ bad = <<>> /\ cnt = [traces |-> 0, probes |-> 0, faulted |-> 0, flagged |-> 0]
Step ==
  /\ l <= Len(Trace) /\ l' = l + 1
  /\ CASE E.ev = "Init" -> expect' = E.expect /\ bad' = bad /\ cnt' = [cnt EXCEPT !.traces = @ + 1]
       [] E.ev = "Probe" ->
            /\ expect' = expect
            /\ LET c == ProbeClass(E) IN
               IF c = "ok" THEN bad' = bad /\ cnt' = [cnt EXCEPT !.probes = @ + 1, !.faulted = @ + E.faulted]
               ELSE Flag(c)
Spec == Init /\ [][Step]_vars
Done == l = Len(Trace) + 1 =>
          PrintT(<<"VERDICT", ToJson([consumed |-> l - 1, bad |-> bad, cnt |-> cnt])>>)
=============================================================================
