------------------------------ MODULE MergeMon ------------------------------
(* VERDICT monitor for C09.                                                  *)
(*   Init  cfg [desc, nullsFirst, dedupe], inputs (key tokens of every input *)
(*         in the order they were fed; 0 = null)                             *)
(*   Out   path, rows (<<src, idx, key>> of every emitted row), err          *)
(* Requirement: emitted rows are sorted under cfg; every row is a real row   *)
(* of its input with the right key; each input's rows appear in increasing   *)
(* index order; without dedupe every input row appears exactly once; with    *)
(* dedupe exactly one row per distinct key remains.  Inputs that are not     *)
(* sorted make the trace vacuous.                                            *)
EXTENDS Integers, Sequences, FiniteSets, TLC, Json
CONSTANT TraceFile
Trace == ndJsonDeserialize(TraceFile)
VARIABLES l, cur, bad, cnt
vars == <<l, cur, bad, cnt>>
E == Trace[l]
MaxBad == 300
Flag(c) ==
  /\ bad' = (IF Len(bad) < MaxBad THEN Append(bad, <<E.t, E.i, c>>) ELSE bad)
  /\ cnt' = [cnt EXCEPT !.flagged = @ + 1]

Cmp(c, a, b) ==
  IF a = 0 /\ b = 0 THEN 0
  ELSE IF a = 0 THEN (IF c.nullsFirst THEN -1 ELSE 1)
  ELSE IF b = 0 THEN (IF c.nullsFirst THEN 1 ELSE -1)
  ELSE IF a = b THEN 0
  ELSE IF (a < b) # c.desc THEN -1 ELSE 1
SortedKeys(c, s) == \A i \in 1..(Len(s) - 1) : Cmp(c, s[i], s[i + 1]) <= 0
InputsSorted == \A i \in 1..Len(cur.inputs) : SortedKeys(cur.cfg, cur.inputs[i])
Total == LET RECURSIVE S(_) S(i) == IF i = 0 THEN 0 ELSE S(i - 1) + Len(cur.inputs[i]) IN S(Len(cur.inputs))
AllKeys == UNION {{cur.inputs[i][j] : j \in 1..Len(cur.inputs[i])} : i \in 1..Len(cur.inputs)}

Valid(r) == /\ r[1] + 1 \in 1..Len(cur.inputs)
            /\ r[2] + 1 \in 1..Len(cur.inputs[r[1] + 1])
            /\ cur.inputs[r[1] + 1][r[2] + 1] = r[3]
OutClass(e) ==
  LET rows == e.rows  n == Len(rows) IN
  IF e.err = 1 THEN "error"
  ELSE IF \E i \in 1..n : ~Valid(rows[i]) THEN "foreign-row"
  ELSE IF \E i \in 1..(n - 1) : Cmp(cur.cfg, rows[i][3], rows[i + 1][3]) > 0 THEN "not-sorted"
  ELSE IF \E s \in 0..(Len(cur.inputs) - 1) :
            LET p == SelectSeq(rows, LAMBDA r : r[1] = s) IN \E i \in 1..(Len(p) - 1) : p[i][2] >= p[i + 1][2]
       THEN "input-order"
  ELSE IF ~cur.cfg.dedupe /\ n # Total THEN "incomplete"
  ELSE IF cur.cfg.dedupe /\ (\E i \in 1..(n - 1) : rows[i][3] = rows[i + 1][3]) THEN "duplicate-key"
  ELSE IF cur.cfg.dedupe /\ {rows[i][3] : i \in 1..n} # AllKeys THEN "incomplete"
  ELSE "ok"

Init == l = 1 /\ cur = [inputs |-> <<>>] /\ bad = <<>> /\ cnt = [traces |-> 0, outs |-> 0, vacuous |-> 0, rows |-> 0, flagged |-> 0]
Step ==
  /\ l <= Len(Trace) /\ l' = l + 1
  /\ CASE E.ev = "Init" -> cur' = E /\ bad' = bad /\ cnt' = [cnt EXCEPT !.traces = @ + 1]
       [] E.ev = "Out" ->
            /\ cur' = cur
            /\ IF ~InputsSorted THEN bad' = bad /\ cnt' = [cnt EXCEPT !.vacuous = @ + 1]
               ELSE LET c == OutClass(E) IN
                    IF c = "ok" THEN bad' = bad /\ cnt' = [cnt EXCEPT !.outs = @ + 1, !.rows = @ + Len(E.rows)]
                    ELSE Flag(c)
Spec == Init /\ [][Step]_vars
Done == l = Len(Trace) + 1 =>
          PrintT(<<"VERDICT", ToJson([consumed |-> l - 1, bad |-> bad, cnt |-> cnt])>>)
=============================================================================
