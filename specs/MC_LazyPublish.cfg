CONSTANTS N = 4  Bug = "none"
SPECIFICATION Spec
INVARIANTS SinglePointer Published
PROPERTIES AllReturn
CHECK_DEADLOCK TRUE
