CONSTANTS NP = 3  MaxOps = 100000  Faults = 100000  Bug = "none"
SPECIFICATION TSpec
CONSTRAINT Track
INVARIANTS Conforms NoLeak SendNeverBlocks
POSTCONDITION Report
CHECK_DEADLOCK FALSE
