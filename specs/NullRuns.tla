------------------------------ MODULE NullRuns ------------------------------
(* Implementation-shaped model of the null / non-null run scanner of the      *)
(* typed write path (column_buffer_write.go: writeRowsFuncOfOptional,         *)
(* lines 334-392).  A batch of rows with an optional, non-pointer field is    *)
(* summarised by a bitmap (bit = 1: value present); the scanner emits         *)
(* alternating "null" and "val" runs [i, j) that are written with definition  *)
(* level d and d+1.  The machine word is 64 bits in the code; the model takes *)
(* the word size W as a constant (W = 4) so that word boundaries are crossed  *)
(* with small batches.  One action per labelled section of the Go loop.       *)
(*                                                                            *)
(* Fix = FALSE: as found, `b == (1<<y)-1`      (line 368)                     *)
(* Fix = TRUE : after the fix, `b == (1<<(64-y))-1`                           *)
EXTENDS Integers, Sequences, FiniteSets, TLC

CONSTANTS W, MaxN, Fix

Pow2(k) == 2^k
AllOnes == Pow2(W) - 1
RECURSIVE TZ(_)
TZ(b) == IF b = 0 THEN W ELSE IF b % 2 = 1 THEN 0 ELSE 1 + TZ(b \div 2)   \* bits.TrailingZeros
Not(b) == AllOnes - b
Shr(b, k) == b \div Pow2(k)

VARIABLES n, bits, i, x, y, pc, runs
vars == <<n, bits, i, x, y, pc, runs>>
NW(len) == (len + W - 1) \div W
Bit(k) == (bits[(k \div W) + 1] \div Pow2(k % W)) % 2

Init == /\ n \in 1..MaxN
        /\ bits \in [1..NW(n) -> 0..AllOnes]
        /\ \A k \in n..(NW(n) * W - 1) : (bits[(k \div W) + 1] \div Pow2(k % W)) % 2 = 0   \* padding bits are zero
        /\ i = 0 /\ x = 0 /\ y = 0 /\ pc = "top" /\ runs = <<>>

Word(k) == bits[k + 1]
Clamp(j) == IF j > n THEN n ELSE j

Top == /\ pc = "top"
       /\ IF i >= n THEN pc' = "done" /\ UNCHANGED <<x, y>>
          ELSE LET x0 == i \div W
                   y0 == i % W
               IN IF y0 # 0
                  THEN LET b == Shr(Word(x0), y0) IN
                       IF b = 0 THEN x' = x0 + 1 /\ y' = 0 /\ pc' = "scanZero"
                       ELSE x' = x0 /\ y' = y0 + TZ(b) /\ pc' = "writeNulls"
                  ELSE x' = x0 /\ y' = 0 /\ pc' = "scanZero"
       /\ UNCHANGED <<n, bits, i, runs>>

RECURSIVE SkipWhile(_, _)
SkipWhile(k, val) == IF k < NW(n) /\ Word(k) = val THEN SkipWhile(k + 1, val) ELSE k

ScanZero == /\ pc = "scanZero"
            /\ LET x1 == SkipWhile(x, 0) IN
               /\ x' = x1
               /\ y' = IF x1 < NW(n) THEN TZ(Word(x1)) % W ELSE y
            /\ pc' = "writeNulls"
            /\ UNCHANGED <<n, bits, i, runs>>

WriteNulls == /\ pc = "writeNulls"
              /\ LET j == Clamp(x * W + y) IN
                 IF i < j THEN runs' = Append(runs, <<"null", i, j>>) /\ i' = j
                 ELSE UNCHANGED <<runs, i>>
              /\ pc' = "afterNulls"
              /\ UNCHANGED <<n, bits, x, y>>

AfterNulls == /\ pc = "afterNulls"
              /\ IF y # 0
                 THEN LET b == Shr(Word(x), y) IN
                      IF b = (IF Fix THEN Pow2(W - y) - 1 ELSE (Pow2(y) - 1) % Pow2(W))
                      THEN x' = x + 1 /\ y' = 0 /\ pc' = "scanOnes"
                      ELSE x' = x /\ y' = y + TZ(Not(b) % Pow2(W)) /\ pc' = "writeNonNulls"
                 ELSE UNCHANGED <<x, y>> /\ pc' = "scanOnes"
              /\ UNCHANGED <<n, bits, i, runs>>

ScanOnes == /\ pc = "scanOnes"
            /\ LET x1 == SkipWhile(x, AllOnes) IN
               /\ x' = x1
               /\ y' = IF x1 < NW(n) THEN TZ(Not(Word(x1))) % W ELSE y
            /\ pc' = "writeNonNulls"
            /\ UNCHANGED <<n, bits, i, runs>>

WriteNonNulls == /\ pc = "writeNonNulls"
                 /\ LET j == Clamp(x * W + y) IN
                    IF i < j THEN runs' = Append(runs, <<"val", i, j>>) /\ i' = j
                    ELSE UNCHANGED <<runs, i>>
                 /\ pc' = "top"
                 /\ UNCHANGED <<n, bits, x, y>>

Next == Top \/ ScanZero \/ WriteNulls \/ AfterNulls \/ ScanOnes \/ WriteNonNulls
Spec == Init /\ [][Next]_vars

\* requirement: every emitted run is homogeneous and correctly labelled; runs tile [0, n)
RunOK(r) == \A k \in r[2]..(r[3] - 1) : Bit(k) = (IF r[1] = "val" THEN 1 ELSE 0)
Homogeneous == \A q \in 1..Len(runs) : RunOK(runs[q])
Tiles == pc = "done" => /\ Len(runs) > 0 /\ runs[1][2] = 0 /\ runs[Len(runs)][3] = n
                        /\ \A q \in 1..(Len(runs) - 1) : runs[q][3] = runs[q + 1][2]
Progress == pc = "top" /\ i < n => TRUE
=============================================================================
