CONSTANTS N = 2  MaxBatches = 4  MaxCommits = 3  Bug = "shared"
SPECIFICATION Spec
INVARIANTS SerialEquivalent NothingLost
VIEW NoHist
CHECK_DEADLOCK FALSE
