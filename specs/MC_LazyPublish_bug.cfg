CONSTANTS N = 3  Bug = "store"
SPECIFICATION Spec
INVARIANTS SinglePointer
CHECK_DEADLOCK TRUE
