---------------------------- MODULE MC_CodecPool ----------------------------
EXTENDS CodecPool, Json
\* -simulate: print the input history of each behaviour once
Done == calls = MaxCalls
Finish == /\ Done /\ calls' = calls + 1
          /\ PrintT(<<"SCENARIO", ToJson([ops |-> [i \in 1..Len(results) |-> [kind |-> results[i][1][1], k |-> results[i][1][2]]]])>>)
          /\ UNCHANGED <<pool, results>>
SimNext == Next \/ Finish \/ (calls > MaxCalls /\ UNCHANGED vars)
SimSpec == Init /\ [][SimNext]_vars
=============================================================================
