------------------------------- MODULE VarMon -------------------------------
(* VERDICT monitor for C19.                                                    *)
(*   Init  sc, part                                                            *)
(*   Enc   how (encode | marshal | builder), meta, val: what the library        *)
(*         produced for a tree; want: the harness's own description of the      *)
(*         tree; rt: 1 iff the library decoded its bytes back to an Equal value *)
(*   Read  mode (raw | typed | reshred), row, meta, val: the value read back    *)
(*         from a file with a variant column (re-encoded), want; lossy = 1 when *)
(*         the Go mapping of the read mode cannot express the kind              *)
(*   Phys  row, meta, hasValue, value, hasTyped, typed [kind, b], want: the     *)
(*         physical leaves of a primitive shredding                             *)
(*   Err   what, msg: the library refused a valid value                         *)
(* Requirement: the bytes are a valid variant (Variant.tla) that decodes to     *)
(* the tree written; the physical leaves reconstruct to it.                     *)
EXTENDS Variant, Json
CONSTANT TraceFile
Trace == ndJsonDeserialize(TraceFile)
VARIABLES l, ctx, bad, cnt
vars == <<l, ctx, bad, cnt>>
E == Trace[l]
MaxBad == 300
Flag(c) ==
  /\ bad' = (IF Len(bad) < MaxBad THEN Append(bad, <<E.t, E.i, c>>) ELSE bad)
  /\ cnt' = [cnt EXCEPT !.flagged = @ + 1]
Init == l = 1 /\ ctx = "-" /\ bad = <<>> /\ cnt = [traces |-> 0, encoded |-> 0, reads |-> 0, lossy |-> 0, physical |-> 0, flagged |-> 0]
OK(field) == bad' = bad /\ cnt' = [cnt EXCEPT ![field] = @ + 1]
Step ==
  /\ l <= Len(Trace) /\ l' = l + 1
  /\ CASE E.ev = "Init" -> ctx' = (IF E.part = "enc" THEN E.val ELSE E.schema \o "/" \o E.wmode) /\ bad' = bad /\ cnt' = [cnt EXCEPT !.traces = @ + 1]
       [] E.ev = "Enc" ->
            /\ ctx' = ctx
            /\ LET d == TLCEval(VDecode(E.meta, E.val)) IN
               IF d.k = "bad" THEN Flag("invalid-encoding:" \o d.why \o "@" \o E.how)
               ELSE IF ~SameValue(d, E.want) THEN Flag("encoding-differs@" \o E.how)
               ELSE IF E.rt = 0 THEN Flag("decode-roundtrip@" \o E.how)
               ELSE OK("encoded")
       [] E.ev = "Read" ->
            /\ ctx' = ctx
            /\ IF E.lossy = 1 THEN OK("lossy")
               ELSE LET d == TLCEval(VDecode(E.meta, E.val)) IN
                    IF d.k = "bad" THEN Flag("read-invalid:" \o d.why \o "@" \o E.mode)
                    ELSE IF ~SameValue(d, E.want) THEN Flag("read-differs@" \o E.mode)
                    ELSE OK("reads")
       [] E.ev = "Phys" ->
            /\ ctx' = ctx
            /\ LET d == TLCEval(Rebuild(E.meta, E.hasValue = 1, E.value, E.hasTyped = 1, E.typed)) IN
               IF d.k = "bad" THEN Flag("shredded-invalid:" \o d.why)
               ELSE IF ~SameValue(d, E.want) THEN Flag("shredded-differs")
               ELSE OK("physical")
       [] E.ev = "Err" -> ctx' = ctx /\ Flag("error@" \o E.what)
       [] OTHER -> UNCHANGED <<ctx, bad, cnt>>
Spec == Init /\ [][Step]_vars
Done == l = Len(Trace) + 1 =>
          PrintT(<<"VERDICT", ToJson([consumed |-> l - 1, bad |-> bad, cnt |-> cnt])>>)
=============================================================================
