-------------------------------- MODULE Sbbf --------------------------------
(* Split block bloom filter of the Parquet format (BloomFilter.md): what a    *)
(* reader written from the format document computes when it probes a filter.  *)
(* bits: the filter's bitset as bytes (a multiple of 32); h: XXH64 of the     *)
(* value's PLAIN bytes as 8 little-endian bytes.                              *)
EXTENDS XXHash

Salt == << <<123, 19, 182, 71>>,     \* 0x47b6137b
           <<145, 77, 151, 68>>,     \* 0x44974d91
           <<91, 173, 36, 136>>,     \* 0x8824ad5b
           <<157, 40, 183, 162>>,    \* 0xa2b7289d
           <<199, 149, 84, 112>>,    \* 0x705495c7
           <<75, 66, 241, 45>>,      \* 0x2df1424b
           <<71, 73, 252, 158>>,     \* 0x9efc4947
           <<49, 251, 107, 92>> >>   \* 0x5c6bfb31

Pad8(w4) == [i \in 1..8 |-> IF i <= 4 THEN w4[i] ELSE 0]
\* block index = ((h >> 32) * numBlocks) >> 32
BlockIndex(h, nblocks) ==
  LET p == Mul64(Shr64(h, 32), OfInt(nblocks))
      q == Shr64(p, 32)
  IN q[1] + 256 * q[2] + 65536 * q[3]          \* nblocks < 2^24
\* bit set in word i (1..8) of the block: (x * salt[i] mod 2^32) >> 27, x = low 32 bits of h
MaskBit(h, i) ==
  LET x == [k \in 1..8 |-> IF k <= 4 THEN h[k] ELSE 0]
      y == Mul64(x, Pad8(Salt[i]))
  IN y[4] \div 8                               \* top 5 bits of the low 32 bits
WordHasBit(bits, block, i, b) ==
  LET byte == bits[32 * block + 4 * (i - 1) + (b \div 8) + 1] IN (byte \div (2 ^ (b % 8))) % 2 = 1
Probe(bits, h) ==
  LET nblocks == Len(bits) \div 32
      blk == BlockIndex(h, nblocks)
  IN nblocks > 0 /\ \A i \in 1..8 : WordHasBit(bits, blk, i, MaskBit(h, i))
=============================================================================
