---------------------------- MODULE MC_RowGroups ----------------------------
EXTENDS RowGroups, Json
Ended == Len(hist) > 0 /\ hist[Len(hist)].op = "end"
Quiet == \A i \in RGs : ~staged[i]
Finish == /\ Quiet /\ ~Ended /\ (nb = MaxBatches \/ ncommit = MaxCommits)
          /\ PrintT(<<"SCENARIO", ToJson([n |-> N, steps |-> hist])>>)
          /\ hist' = Append(hist, [who |-> 0, op |-> "end", b |-> 0])
          /\ UNCHANGED <<buf, scratch, staged, nb, mainbuf, file, expect, ebuf, ncommit>>
SimNext == (Next /\ ~Ended) \/ Finish \/ (Ended /\ UNCHANGED vars)
SimSpec == Init /\ [][SimNext]_vars
NoHist == <<buf, scratch, staged, nb, mainbuf, file, expect, ebuf, ncommit>>
=============================================================================
