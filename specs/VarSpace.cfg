INIT Init
NEXT Next
INVARIANT Emit
CHECK_DEADLOCK FALSE
