------------------------------ MODULE SortBuffer ------------------------------
(* Implementation-shaped model of how a sorting buffer orders rows             *)
(* (buffer.go Buffer.configure :240-285 and Buffer.Less :344, column_buffer.go *)
(* nullsGoFirst / nullsGoLast :115-125, reversedColumnBuffer :132).            *)
(* For every sorting column the buffer keeps a column buffer whose Less(i, j)  *)
(* is: the optional wrapper (nulls first or last, then the value order),       *)
(* wrapped in reversedColumnBuffer (Less(j, i)) when the column is descending. *)
(* Buffer.Less compares column by column.                                      *)
(* Requirement: the resulting order is the declared one - ascending or         *)
(* descending VALUES with nulls first or last as declared (Schema.Comparator   *)
(* semantics, Merge!Cmp).                                                      *)
(* Fix = FALSE (as found): the null placement handed to the optional wrapper   *)
(* is the declared one even when the column is then reversed, so a descending  *)
(* column gets its nulls on the opposite side.                                 *)
EXTENDS Integers, Sequences, FiniteSets, TLC

CONSTANTS K, Fix
Keys == 0..K                         \* 0 = NULL
ColCfgs == [desc : BOOLEAN, nullsFirst : BOOLEAN]

\* declared order (Schema.Comparator)
Cmp(c, a, b) ==
  IF a = 0 /\ b = 0 THEN 0
  ELSE IF a = 0 THEN (IF c.nullsFirst THEN -1 ELSE 1)
  ELSE IF b = 0 THEN (IF c.nullsFirst THEN 1 ELSE -1)
  ELSE IF a = b THEN 0
  ELSE IF (a < b) # c.desc THEN -1 ELSE 1

\* code: optional wrapper
NullsGoFirst(a, b) == IF a = 0 THEN b # 0 ELSE b # 0 /\ a < b
NullsGoLast(a, b)  == a # 0 /\ (b = 0 \/ a < b)
\* which placement configure() hands to the wrapper
WrapperNullsFirst(c) == IF Fix /\ c.desc THEN ~c.nullsFirst ELSE c.nullsFirst
OptLess(c, a, b) == IF WrapperNullsFirst(c) THEN NullsGoFirst(a, b) ELSE NullsGoLast(a, b)
ColLess(c, a, b) == IF c.desc THEN OptLess(c, b, a) ELSE OptLess(c, a, b)      \* reversedColumnBuffer

\* Buffer.Less over two sorting columns: first column decides unless equal
BufLess(cs, r1, r2) ==
  IF ColLess(cs[1], r1[1], r2[1]) THEN TRUE
  ELSE IF ColLess(cs[1], r2[1], r1[1]) THEN FALSE
  ELSE ColLess(cs[2], r1[2], r2[2])
DeclLess(cs, r1, r2) ==
  LET c1 == Cmp(cs[1], r1[1], r2[1]) IN
  IF c1 # 0 THEN c1 < 0 ELSE Cmp(cs[2], r1[2], r2[2]) < 0

VARIABLES cs, r1, r2
Init == cs \in [1..2 -> ColCfgs] /\ r1 \in [1..2 -> Keys] /\ r2 \in [1..2 -> Keys]
Next == UNCHANGED <<cs, r1, r2>>
AgreesWithDeclaredOrder == BufLess(cs, r1, r2) = DeclLess(cs, r1, r2)
=============================================================================
