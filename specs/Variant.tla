------------------------------- MODULE Variant -------------------------------
(* The Variant binary encoding (VariantEncoding.md) as a DECODER over bytes,    *)
(* and the reconstruction rule of shredded variants (VariantShredding.md) for   *)
(* primitive typed_value columns.  Independent of the Go code.                  *)
(*                                                                              *)
(* A decoded value is a tree:                                                   *)
(*   [k |-> "prim", id, b]   primitive type id and its payload bytes            *)
(*   [k |-> "str", b]        string (short string or primitive 16), the bytes   *)
(*   [k |-> "obj", f]        sequence of <<key bytes, value>>, sorted by key    *)
(*   [k |-> "arr", e]        sequence of values                                 *)
(*   [k |-> "bad", why]      the bytes are not a valid variant                  *)
EXTENDS Integers, Sequences, FiniteSets, TLC, SequencesExt

LEn(bs, i, n) ==          \* unsigned little-endian integer of n <= 4 bytes at index i (must be < 2^31)
  IF n = 0 THEN 0 ELSE bs[i] + (IF n > 1 THEN 256 * bs[i + 1] ELSE 0) + (IF n > 2 THEN 65536 * bs[i + 2] ELSE 0)
                       + (IF n > 3 THEN 16777216 * bs[i + 3] ELSE 0)
Fits(bs, i, n) == i >= 1 /\ i + n - 1 <= Len(bs) /\ (n < 4 \/ bs[i + 3] < 64)
BadV(why) == [k |-> "bad", why |-> why]

------------------------------------------------------------------------------
(* metadata:  header | dictionary_size | offsets[dictionary_size + 1] | bytes   *)
(*   header = version (bits 0-3, must be 1) | sorted_strings (bit 4) | offset_size - 1 (bits 6-7) *)
MetaStrings(m) ==
  IF Len(m) < 1 \/ m[1] % 16 # 1 THEN <<<<-1>>>>
  ELSE LET osz == (m[1] \div 64) + 1 IN
       IF ~Fits(m, 2, osz) THEN <<<<-1>>>>
       ELSE LET n == LEn(m, 2, osz)
                offAt(j) == LEn(m, 2 + osz + j * osz, osz)          \* j in 0..n
                base == 2 + osz + (n + 1) * osz                      \* index of the first string byte
            IN IF base - 1 > Len(m) \/ ~(\A j \in 0..n : Fits(m, 2 + osz + j * osz, osz)) THEN <<<<-1>>>>
               ELSE IF \E j \in 0..(n - 1) : offAt(j) > offAt(j + 1) \/ base + offAt(j + 1) - 1 > Len(m) THEN <<<<-1>>>>
               ELSE [j \in 1..n |-> SubSeq(m, base + offAt(j - 1), base + offAt(j) - 1)]
MetaSortedFlag(m) == (m[1] \div 16) % 2 = 1
\* byte-wise lexicographic order
RECURSIVE LexLess(_, _, _)
LexLess(a, b, i) == IF i > Len(a) THEN i <= Len(b) ELSE IF i > Len(b) THEN FALSE
                    ELSE IF a[i] < b[i] THEN TRUE ELSE IF a[i] > b[i] THEN FALSE ELSE LexLess(a, b, i + 1)
MetaOK(m) == LET s == MetaStrings(m) IN
             /\ ~(Len(s) = 1 /\ s[1] = <<-1>>)
             /\ (MetaSortedFlag(m) => \A j \in 1..(Len(s) - 1) : LexLess(s[j], s[j + 1], 1))     \* sorted implies unique

------------------------------------------------------------------------------
(* values *)
PrimSize(id) == CASE id \in {0, 1, 2} -> 0 [] id = 3 -> 1 [] id = 4 -> 2 [] id \in {5, 11, 14} -> 4
                  [] id \in {6, 7, 12, 13, 17, 18, 19} -> 8 [] id = 8 -> 5 [] id = 9 -> 9 [] id = 10 -> 17 [] id = 20 -> 16
                  [] OTHER -> -1

RECURSIVE VDec(_, _, _), VObjFields(_, _, _, _, _, _, _, _), VArrElems(_, _, _, _, _, _, _)
\* VDec: value starting at index i; returns <<tree, index after the value>>
VDec(dict, bs, i) ==
  IF i > Len(bs) THEN <<BadV("truncated"), Len(bs) + 2>> ELSE
  LET h == bs[i]  basic == h % 4  vh == h \div 4 IN
  CASE basic = 1 ->                                   \* short string, length in the header
         IF i + vh > Len(bs) THEN <<BadV("short-string"), Len(bs) + 2>>
         ELSE <<[k |-> "str", b |-> SubSeq(bs, i + 1, i + vh)], i + 1 + vh>>
    [] basic = 0 ->
         IF vh \in {15, 16} THEN                        \* binary / string: 4-byte length
            IF ~Fits(bs, i + 1, 4) \/ i + 4 + LEn(bs, i + 1, 4) > Len(bs) THEN <<BadV("long-length"), Len(bs) + 2>>
            ELSE LET n == LEn(bs, i + 1, 4) IN
                 <<(IF vh = 16 THEN [k |-> "str", b |-> SubSeq(bs, i + 5, i + 4 + n)]
                              ELSE [k |-> "prim", id |-> 15, b |-> SubSeq(bs, i + 5, i + 4 + n)]), i + 5 + n>>
         ELSE IF PrimSize(vh) < 0 THEN <<BadV("primitive-id"), Len(bs) + 2>>
         ELSE IF i + PrimSize(vh) > Len(bs) THEN <<BadV("primitive-truncated"), Len(bs) + 2>>
         ELSE <<[k |-> "prim", id |-> vh, b |-> SubSeq(bs, i + 1, i + PrimSize(vh))], i + 1 + PrimSize(vh)>>
    [] basic = 2 ->                                   \* object
         LET osz == (vh % 4) + 1  isz == ((vh \div 4) % 4) + 1  large == (vh \div 16) % 2 = 1
             nsz == IF large THEN 4 ELSE 1 IN
         IF ~Fits(bs, i + 1, nsz) THEN <<BadV("object-count"), Len(bs) + 2>>
         ELSE LET n == LEn(bs, i + 1, nsz)
                  ids == i + 1 + nsz
                  offs == ids + n * isz
                  data == offs + (n + 1) * osz
              IN IF data - 1 > Len(bs) \/ ~(\A j \in 0..n : Fits(bs, offs + j * osz, osz)) \/ ~(\A j \in 0..(n - 1) : Fits(bs, ids + j * isz, isz))
                 THEN <<BadV("object-header"), Len(bs) + 2>>
                 ELSE LET total == LEn(bs, offs + n * osz, osz) IN
                      IF data + total - 1 > Len(bs) THEN <<BadV("object-size"), Len(bs) + 2>>
                      ELSE VObjFields(dict, bs, 0, n, [ids |-> ids, isz |-> isz, offs |-> offs, osz |-> osz, data |-> data], <<>>, total, i)
    [] OTHER ->                                       \* array
         LET osz == (vh % 4) + 1  large == (vh \div 4) % 2 = 1  nsz == IF large THEN 4 ELSE 1 IN
         IF ~Fits(bs, i + 1, nsz) THEN <<BadV("array-count"), Len(bs) + 2>>
         ELSE LET n == LEn(bs, i + 1, nsz)
                  offs == i + 1 + nsz
                  data == offs + (n + 1) * osz
              IN IF data - 1 > Len(bs) \/ ~(\A j \in 0..n : Fits(bs, offs + j * osz, osz)) THEN <<BadV("array-header"), Len(bs) + 2>>
                 ELSE LET total == LEn(bs, offs + n * osz, osz) IN
                      IF data + total - 1 > Len(bs) THEN <<BadV("array-size"), Len(bs) + 2>>
                      ELSE VArrElems(dict, bs, 0, n, [offs |-> offs, osz |-> osz, data |-> data], <<>>, total)
\* field j of n: id from the id table, value at its offset
VObjFields(dict, bs, j, n, lay, acc, total, start) ==
  IF j = n THEN
     \* fields come out in the order of the id table, which must be sorted by key (and keys unique)
     IF \E a \in 1..(Len(acc) - 1) : ~LexLess(acc[a][1], acc[a + 1][1], 1) THEN <<BadV("object-keys-not-sorted-unique"), Len(bs) + 2>>
     ELSE <<[k |-> "obj", f |-> acc], lay.data + total>>
  ELSE LET id == LEn(bs, lay.ids + j * lay.isz, lay.isz)
           off == LEn(bs, lay.offs + j * lay.osz, lay.osz)
       IN IF id + 1 > Len(dict) THEN <<BadV("field-id"), Len(bs) + 2>>
          ELSE IF off >= total THEN <<BadV("field-offset"), Len(bs) + 2>>
          ELSE LET r == TLCEval(VDec(dict, bs, lay.data + off)) IN
               IF r[1].k = "bad" THEN r
               ELSE IF r[2] > lay.data + total THEN <<BadV("field-overruns-object"), Len(bs) + 2>>
               ELSE VObjFields(dict, bs, j + 1, n, lay, Append(acc, <<dict[id + 1], r[1]>>), total, start)
VArrElems(dict, bs, j, n, lay, acc, total) ==
  IF j = n THEN <<[k |-> "arr", e |-> acc], lay.data + total>>
  ELSE LET off == LEn(bs, lay.offs + j * lay.osz, lay.osz)
           nxt == LEn(bs, lay.offs + (j + 1) * lay.osz, lay.osz)
       IN IF off > nxt \/ nxt > total THEN <<BadV("array-offsets"), Len(bs) + 2>>
          ELSE LET r == TLCEval(VDec(dict, bs, lay.data + off)) IN
               IF r[1].k = "bad" THEN r
               ELSE IF r[2] # lay.data + nxt THEN <<BadV("array-element-size"), Len(bs) + 2>>
               ELSE VArrElems(dict, bs, j + 1, n, lay, Append(acc, r[1]), total)

\* the whole value: metadata and value bytes -> tree (the value must use all its bytes)
VDecode(meta, val) ==
  IF ~MetaOK(meta) THEN BadV("metadata")
  ELSE LET r == VDec(MetaStrings(meta), val, 1) IN
       IF r[1].k = "bad" THEN r[1] ELSE IF r[2] # Len(val) + 1 THEN BadV("trailing-bytes") ELSE r[1]

------------------------------------------------------------------------------
(* comparison: integers of any width are the same value when their sign        *)
(* extensions agree (a shredded int8 read back from an int32 column is int32)  *)
SignExt(b, n) == [i \in 1..n |-> IF i <= Len(b) THEN b[i] ELSE IF b[Len(b)] >= 128 THEN 255 ELSE 0]
RECURSIVE Norm(_)
Norm(v) ==
  CASE v.k = "prim" /\ v.id \in {3, 4, 5, 6} -> [k |-> "int", b |-> SignExt(v.b, 8)]
    [] v.k = "prim" -> v
    [] v.k = "str" -> v
    [] v.k = "arr" -> [k |-> "arr", e |-> [i \in 1..Len(v.e) |-> Norm(v.e[i])]]
    [] v.k = "obj" -> [k |-> "obj", f |-> [i \in 1..Len(v.f) |-> <<v.f[i][1], Norm(v.f[i][2])>>]]
    [] OTHER -> v
SameValue(a, b) == a.k # "bad" /\ b.k # "bad" /\ Norm(a) = Norm(b)

------------------------------------------------------------------------------
(* shredding, primitive typed_value (VariantShredding.md, table "value / typed_value"):  *)
(*   value null,  typed null   -> missing (invalid at top level; readers may return variant null) *)
(*   value set,   typed null   -> the variant in value                                            *)
(*   value null,  typed set    -> the typed value                                                 *)
(*   both set                  -> invalid for a primitive typed_value                             *)
\* the typed leaf as a variant: tv = [kind, b] with kind one of the shredded primitive types
Typed(tv) ==
  CASE tv.kind = "string"  -> [k |-> "str", b |-> tv.b]
    [] tv.kind = "binary"  -> [k |-> "prim", id |-> 15, b |-> tv.b]
    [] tv.kind = "boolean" -> [k |-> "prim", id |-> (IF tv.b = <<1>> THEN 1 ELSE 2), b |-> <<>>]
    [] tv.kind = "int32"   -> [k |-> "prim", id |-> 5, b |-> tv.b]
    [] tv.kind = "int64"   -> [k |-> "prim", id |-> 6, b |-> tv.b]
    [] tv.kind = "float"   -> [k |-> "prim", id |-> 14, b |-> tv.b]
    [] tv.kind = "double"  -> [k |-> "prim", id |-> 7, b |-> tv.b]
    [] tv.kind = "date"    -> [k |-> "prim", id |-> 11, b |-> tv.b]
    [] OTHER -> BadV("typed-kind")
Rebuild(meta, hasValue, value, hasTyped, tv) ==
  IF hasValue /\ hasTyped THEN BadV("value-and-typed_value-both-set")
  ELSE IF hasTyped THEN Typed(tv)
  ELSE IF hasValue THEN VDecode(meta, value)
  ELSE BadV("missing")
\* a value may only sit in typed_value if it has exactly the shredded type (integers: if it fits)
=============================================================================
