------------------------------ MODULE CodecPool ------------------------------
(* Implementation-shaped model of the pooled codecs (compress/compress.go      *)
(* Compressor / Decompressor, used by gzip, brotli and zstd; compress/lz4      *)
(* Decode loop).  A codec value owns a pool of reader instances; Decode takes  *)
(* one (or creates one), binds it to the input, reads, and returns it to the   *)
(* pool when Reset(nil) succeeds.                                              *)
(*                                                                             *)
(* Inputs are abstract: "valid(k)" decodes to payload k, "badhdr" is rejected  *)
(* when the reader is created / reset (gzip: invalid header), "badbody" fails  *)
(* while reading.  An instance may carry residue of the input it processed     *)
(* last; a successful Reset clears it.                                         *)
(*                                                                             *)
(* Fix = FALSE: as found - a reader initialisation error is panic()ed with no  *)
(*   recover anywhere; the lz4 Decode loop doubles its buffer on EVERY error.  *)
(* Fix = TRUE : initialisation errors are returned (instance dropped); the lz4 *)
(*   loop stops once the buffer exceeds the maximal expansion.                 *)
EXTENDS Integers, Sequences, FiniteSets, TLC

CONSTANTS Payloads, MaxCalls, Fix, Kind   \* Kind \in {"pooled", "lz4"}

Inputs == {<<"valid", k>> : k \in Payloads} \cup {<<"badhdr", 0>>, <<"badbody", 0>>}

VARIABLES pool,     \* sequence of instance residues ("none" or an input) - the instances at rest
          results,  \* history of <<input, outcome>>
          calls
vars == <<pool, results, calls>>

Init == pool = <<>> /\ results = <<>> /\ calls = 0

Outcome(in, residue) ==
  \* what the caller observes when decoding `in` on an instance carrying `residue`
  IF Kind = "lz4"
  THEN IF in[1] = "valid" THEN <<"ok", in[2]>> ELSE IF Fix THEN <<"error", 0>> ELSE <<"oom", 0>>
  ELSE IF in[1] = "badhdr" THEN (IF Fix THEN <<"error", 0>> ELSE <<"panic", 0>>)
  ELSE IF in[1] = "badbody" THEN <<"error", 0>>
  ELSE <<"ok", in[2]>>        \* Reset(input) rebinds the instance: residue cannot leak

\* the instance goes back to the pool iff it was successfully initialised and Reset(nil) succeeds
Returned(in) == Kind = "pooled" /\ in[1] # "badhdr"

DecodeNew(in) ==
  /\ calls < MaxCalls
  /\ results' = Append(results, <<in, Outcome(in, "none")>>)
  /\ pool' = (IF Returned(in) THEN Append(pool, "none") ELSE pool)
  /\ calls' = calls + 1

DecodeReuse(in, i) ==
  /\ calls < MaxCalls /\ i \in 1..Len(pool)
  /\ results' = Append(results, <<in, Outcome(in, pool[i])>>)
  /\ LET rest == [j \in 1..(Len(pool) - 1) |-> IF j < i THEN pool[j] ELSE pool[j + 1]] IN
     pool' = (IF Returned(in) THEN Append(rest, "none") ELSE rest)
  /\ calls' = calls + 1

Next == \E in \in Inputs : DecodeNew(in) \/ \E i \in 1..3 : DecodeReuse(in, i)
Spec == Init /\ [][Next]_vars

\* requirement (C20): the result of every call is a function of its input only -
\* valid input decodes to its payload whatever happened before; nothing panics or kills the process
Lossless == \A r \in 1..Len(results) : results[r][1][1] = "valid" => results[r][2] = <<"ok", results[r][1][2]>>
NoCrash  == \A r \in 1..Len(results) : results[r][2][1] \notin {"panic", "oom"}
=============================================================================
