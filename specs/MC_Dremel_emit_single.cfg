CONSTANTS Tok = {1}  MaxList = 2  Fam = {"single"}
INIT Init
NEXT Next
INVARIANTS Emit
CHECK_DEADLOCK FALSE
