CONSTANTS Tok = {1}  MaxList = 2  Fam = {"single", "fork1", "fork2"}
INIT Init
NEXT Next
INVARIANTS Emit
CHECK_DEADLOCK FALSE
