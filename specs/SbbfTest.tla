------------------------------ MODULE SbbfTest ------------------------------
EXTENDS Sbbf
Hex(h) == [i \in 1..8 |-> h[9 - i]]     \* big-endian for comparison with published digests
ASSUME XXH64(<<>>) = <<153, 233, 216, 81, 55, 219, 70, 239>>                  \* EF46DB3751D8E999
ASSUME XXH64(<<97>>) = <<91, 110, 140, 169, 241, 196, 78, 210>>               \* D24EC4F1A98C6E5B
ASSUME XXH64(<<97, 98, 99>>) = <<153, 9, 119, 173, 245, 44, 188, 68>>         \* 44BC2CF5AD770999
\* longer inputs (stripes of 32 bytes, 8-, 4- and 1-byte tails): bytes 1..n, digests cross-checked with an independent implementation
B(n) == [i \in 1..n |-> i]
ASSUME XXH64(B(4)) = <<209, 46, 169, 162, 227, 32, 38, 84>>
ASSUME XXH64(B(7)) = <<201, 92, 169, 60, 71, 119, 174, 168>>
ASSUME XXH64(B(8)) = <<20, 110, 100, 41, 235, 67, 76, 129>>
ASSUME XXH64(B(12)) = <<165, 233, 130, 165, 20, 175, 61, 194>>
ASSUME XXH64(B(31)) = <<85, 47, 117, 248, 144, 164, 191, 104>>
ASSUME XXH64(B(32)) = <<127, 189, 192, 19, 120, 75, 97, 137>>
ASSUME XXH64(B(40)) = <<163, 128, 151, 214, 133, 1, 215, 186>>
ASSUME XXH64(B(64)) = <<134, 47, 238, 78, 251, 111, 176, 154>>
ASSUME XXH64(B(77)) = <<93, 180, 190, 147, 206, 229, 239, 35>>
ASSUME XXH64(B(100)) = <<167, 79, 72, 216, 65, 56, 4, 26>>
\* a one-block filter holding exactly the bits of one value contains it; an empty filter does not
H1 == XXH64(<<1, 2, 3, 4>>)
OneBlock == [k \in 1..32 |-> LET i == (k - 1) \div 4 + 1  b == MaskBit(H1, i) IN
                               IF (k - 1) % 4 = b \div 8 THEN 2 ^ (b % 8) ELSE 0]
ASSUME Probe(OneBlock, H1)
ASSUME ~Probe([k \in 1..32 |-> 0], H1)
ASSUME BlockIndex(<<0, 0, 0, 0, 255, 255, 255, 255>>, 7) = 6 /\ BlockIndex(<<255, 255, 255, 255, 0, 0, 0, 0>>, 7) = 0
VARIABLE x
Init == x = 0
Next == UNCHANGED x
=============================================================================
