------------------------------ MODULE AsyncPages ------------------------------
(* Implementation-shaped model of the asynchronous page reader (page.go          *)
(* :121-293): the caller's asyncPages methods and the readPages goroutine,       *)
(* communicating through                                                         *)
(*   read  unbuffered channel of asyncPage{page, err, version}                   *)
(*   seek  channel of capacity 1 of asyncSeek{rowIndex, version}                 *)
(*   init, done   channels that are only ever closed                             *)
(* An unbuffered send is modelled as an OFFER that stays pending while the       *)
(* sender sits in its select; a receiver takes it (rendezvous) or the sender     *)
(* withdraws it by taking another select branch.  Every channel operation of     *)
(* the code is one action; nothing else is shared between the two goroutines.    *)
(*                                                                               *)
(* The underlying synchronous Pages has NP pages of one row each: ReadPage       *)
(* returns page upos and advances, or EOF; SeekToRow(k) sets upos = k, or fails  *)
(* with the recoverable out-of-range error when k > NP; any underlying call may  *)
(* fail fatally while the fault budget lasts.                                    *)
(*                                                                               *)
(* Design mutants (constant Bug) are used by the sharpness self-test:            *)
(*   "nofilter"  ReadPage does not compare versions                              *)
(*   "nobump"    SeekToRow never increments the version                          *)
(*   "alwaysbump" SeekToRow increments even when it flushed a pending seek       *)
(*   "norelease" the reader's seek branch forgets Release(page)                  *)
(*   "nodrain"   Close does not drain the read channel                           *)
(*   "sendfirst" SeekToRow first tries a non-blocking send and only when the     *)
(*               channel is full drains it (blocking receive) and sends again:   *)
(*               the reader can take the pending seek in between, and the drain  *)
(*               then waits forever (the seeded change C15-a)                    *)
EXTENDS Integers, Sequences, FiniteSets, TLC

CONSTANTS NP, MaxOps, Faults, Bug

VARIABLES
  \* channels
  offer,      \* <<>> or <<[page, err, version]>> : pending send on `read`
  readClosed, seekCh, initOpen, doneOpen,
  \* caller
  cpc,        \* "idle" | "recv" | "seekSend" | "seekStart" | "close2" | "drain" | "seekDrain" (mutant sendfirst only)
  version, seekNil, carg, ret, nops,
  \* requirement bookkeeping (what the synchronous reader would return next)
  want, dead, ok,
  \* readPages goroutine
  rpc,        \* "waitInit" | "checkSeek" | "loop" | "select" | "exitSend" | "closing" | "dead"
  seekTo, upos, err, faults,
  \* page accounting
  produced, delivered, released
vars == <<offer, readClosed, seekCh, initOpen, doneOpen, cpc, version, seekNil, carg, ret, nops, want, dead, ok,
          rpc, seekTo, upos, err, faults, produced, delivered, released>>
chans == <<offer, readClosed, seekCh, initOpen, doneOpen>>
reqv == <<want, dead, ok>>
acct == <<produced, delivered, released>>
rdr == <<rpc, seekTo, upos, err, faults>>

NoRet == [page |-> -1, err |-> "-"]
Init ==
  /\ offer = <<>> /\ readClosed = FALSE /\ seekCh = <<>> /\ initOpen = TRUE /\ doneOpen = TRUE
  /\ cpc = "idle" /\ version = 0 /\ seekNil = FALSE /\ carg = -1 /\ ret = NoRet /\ nops = 0
  /\ want = 0 /\ dead = FALSE /\ ok = TRUE
  /\ rpc = "waitInit" /\ seekTo = [row |-> -1, version |-> 0] /\ upos = 0 /\ err = "none" /\ faults = 0
  /\ produced = 0 /\ delivered = 0 /\ released = 0

HasPage(m) == m.page >= 0
Pg(m) == IF HasPage(m) THEN 1 ELSE 0
ExitMsg == [page |-> -1, err |-> "closed", version |-> -1]
ReaderAfterSend == IF rpc = "select" THEN "loop" ELSE "closing"

\* the synchronous reader's answer, against which a delivered result is judged
Judge(m) ==
  IF dead THEN m.err = "fatal"
  ELSE CASE m.err = "none"  -> m.page = want /\ want < NP
         [] m.err = "eof"   -> want = NP
         [] m.err = "range" -> want > NP
         [] m.err = "fatal" -> faults > 0
         [] OTHER -> FALSE

------------------------------------------------------------------------------
(* caller: ReadPage *)
CReadStart ==                                   \* pages.start()
  /\ cpc = "idle" /\ nops < MaxOps /\ nops' = nops + 1
  /\ initOpen' = FALSE /\ cpc' = "recv" /\ ret' = NoRet
  /\ UNCHANGED <<offer, readClosed, seekCh, doneOpen, version, seekNil, carg, reqv, rdr, acct>>

CRecv ==                                        \* p, ok := <-pages.read
  /\ cpc = "recv" /\ offer # <<>>
  /\ LET m == offer[1] IN
     /\ offer' = <<>> /\ rpc' = ReaderAfterSend
     /\ IF m.version = version \/ Bug = "nofilter"
        THEN /\ cpc' = "idle" /\ ret' = [page |-> m.page, err |-> m.err]      \* return p.page, p.err
             /\ delivered' = delivered + Pg(m) /\ released' = released
             /\ ok' = (ok /\ Judge(m))
             /\ want' = (IF m.err = "none" THEN want + 1 ELSE want)
             /\ dead' = (dead \/ m.err = "fatal")
        ELSE /\ cpc' = "recv" /\ ret' = ret                                   \* outdated: Release, keep waiting
             /\ released' = released + Pg(m)
             /\ UNCHANGED <<delivered, reqv>>
  /\ UNCHANGED <<readClosed, seekCh, initOpen, doneOpen, version, seekNil, carg, nops, seekTo, upos, err, faults, produced>>

CRecvClosed ==                                  \* read channel closed: io.EOF
  /\ cpc = "recv" /\ readClosed /\ offer = <<>>
  /\ cpc' = "idle" /\ ret' = [page |-> -1, err |-> "eof"]
  /\ UNCHANGED <<chans, version, seekNil, carg, nops, reqv, rdr, acct>>

(* caller: SeekToRow = flush-or-bump ; send ; start *)
CSeekFlush(k) ==
  /\ cpc = "idle" /\ nops < MaxOps /\ nops' = nops + 1
  /\ carg' = k
  /\ IF seekNil THEN /\ ret' = [page |-> -1, err |-> "closedpipe"]
                     /\ UNCHANGED <<seekCh, version, cpc>>
     ELSE IF Bug = "sendfirst"
     THEN /\ ret' = NoRet /\ seekCh' = seekCh
          /\ IF Len(seekCh) = 0 THEN version' = version + 1 /\ cpc' = "seekSend"      \* the send will succeed
                                ELSE version' = version /\ cpc' = "seekDrain"          \* full: drain first
     ELSE /\ ret' = NoRet /\ cpc' = "seekSend"
          /\ IF Len(seekCh) > 0
             THEN seekCh' = <<>> /\ version' = (IF Bug = "alwaysbump" THEN version + 1 ELSE version)
             ELSE seekCh' = seekCh /\ version' = (IF Bug = "nobump" THEN version ELSE version + 1)
  /\ UNCHANGED <<offer, readClosed, initOpen, doneOpen, seekNil, reqv, rdr, acct>>

CSeekDrain ==                                   \* mutant sendfirst: <-pages.seek, a blocking receive
  /\ cpc = "seekDrain" /\ Len(seekCh) > 0
  /\ seekCh' = <<>> /\ cpc' = "seekSend"
  /\ UNCHANGED <<offer, readClosed, initOpen, doneOpen, version, seekNil, carg, ret, nops, reqv, rdr, acct>>

CSeekSend ==                                    \* pages.seek <- asyncSeek{rowIndex, version}; never blocks: sole sender, just flushed
  /\ cpc = "seekSend" /\ Len(seekCh) = 0
  /\ seekCh' = <<[row |-> carg, version |-> version]>>
  /\ cpc' = "seekStart"
  /\ want' = carg /\ UNCHANGED <<dead, ok>>
  /\ UNCHANGED <<offer, readClosed, initOpen, doneOpen, version, seekNil, carg, ret, nops, rdr, acct>>

CSeekStart ==
  /\ cpc = "seekStart" /\ initOpen' = FALSE /\ cpc' = "idle" /\ ret' = [page |-> -1, err |-> "none"]
  /\ UNCHANGED <<offer, readClosed, seekCh, doneOpen, version, seekNil, carg, nops, reqv, rdr, acct>>

(* caller: Close = close(init) ; close(done) ; drain *)
CClose1 ==                                      \* not counted: the bounded caller always ends with Close
  /\ cpc = "idle" /\ (nops < MaxOps \/ ~seekNil)
  /\ initOpen' = FALSE /\ cpc' = "close2" /\ ret' = NoRet
  /\ UNCHANGED <<offer, readClosed, seekCh, doneOpen, version, seekNil, carg, nops, reqv, rdr, acct>>

CClose2 ==
  /\ cpc = "close2" /\ doneOpen' = FALSE
  /\ cpc' = (IF Bug = "nodrain" THEN "idle" ELSE "drain")
  /\ seekNil' = (IF Bug = "nodrain" THEN TRUE ELSE seekNil)
  /\ UNCHANGED <<offer, readClosed, seekCh, initOpen, version, carg, ret, nops, reqv, rdr, acct>>

CDrain ==                                       \* for p := range pages.read { Release(p.page) }
  /\ cpc = "drain" /\ offer # <<>>
  /\ offer' = <<>> /\ rpc' = ReaderAfterSend
  /\ released' = released + Pg(offer[1])
  /\ UNCHANGED <<readClosed, seekCh, initOpen, doneOpen, cpc, version, seekNil, carg, ret, nops, reqv, seekTo, upos, err, faults, produced, delivered>>

CDrainEnd ==
  /\ cpc = "drain" /\ readClosed /\ offer = <<>>
  /\ cpc' = "idle" /\ seekNil' = TRUE /\ ret' = [page |-> -1, err |-> "none"]
  /\ UNCHANGED <<chans, version, carg, nops, reqv, rdr, acct>>

------------------------------------------------------------------------------
(* readPages goroutine *)
RWaitInit ==
  /\ rpc = "waitInit"
  /\ \/ ~initOpen /\ rpc' = "checkSeek" /\ UNCHANGED offer
     \/ ~doneOpen /\ rpc' = "exitSend" /\ offer' = <<ExitMsg>>            \* deferred: read <- {err: Close(), version: -1}
  /\ UNCHANGED <<readClosed, seekCh, initOpen, doneOpen, cpc, version, seekNil, carg, ret, nops, reqv, seekTo, upos, err, faults, acct>>

RCheckSeek ==
  /\ rpc = "checkSeek" /\ rpc' = "loop"
  /\ IF Len(seekCh) > 0 THEN seekTo' = seekCh[1] /\ seekCh' = <<>>
     ELSE seekTo' = [seekTo EXCEPT !.row = -1] /\ seekCh' = seekCh
  /\ UNCHANGED <<offer, readClosed, initOpen, doneOpen, cpc, version, seekNil, carg, ret, nops, reqv, upos, err, faults, acct>>

\* outcomes of the underlying calls
SeekOutcome(k) == {IF k > NP THEN "range" ELSE "none"} \cup (IF faults < Faults THEN {"fatal"} ELSE {})
ReadOutcome == {IF upos < NP THEN "none" ELSE "eof"} \cup (IF faults < Faults THEN {"fatal"} ELSE {})

Offer(p, e) == offer' = <<[page |-> p, err |-> e, version |-> seekTo.version]>>

RLoopSeek(o) ==                                 \* err = pages.SeekToRow(seekTo.rowIndex)
  /\ rpc = "loop" /\ err # "fatal" /\ seekTo.row >= 0 /\ o \in SeekOutcome(seekTo.row)
  /\ err' = o /\ faults' = (IF o = "fatal" THEN faults + 1 ELSE faults)
  /\ IF o = "none"
     THEN upos' = seekTo.row /\ seekTo' = [seekTo EXCEPT !.row = -1] /\ UNCHANGED <<rpc, offer>>      \* continue
     ELSE Offer(-1, o) /\ rpc' = "select" /\ UNCHANGED <<upos, seekTo>>
  /\ UNCHANGED <<readClosed, seekCh, initOpen, doneOpen, cpc, version, seekNil, carg, ret, nops, reqv, acct>>

RLoopRead(o) ==                                 \* page, err = pages.ReadPage()
  /\ rpc = "loop" /\ err # "fatal" /\ seekTo.row < 0 /\ o \in ReadOutcome
  /\ err' = o /\ faults' = (IF o = "fatal" THEN faults + 1 ELSE faults)
  /\ IF o = "none" THEN Offer(upos, o) /\ upos' = upos + 1 /\ produced' = produced + 1
                   ELSE Offer(-1, o) /\ UNCHANGED <<upos, produced>>
  /\ rpc' = "select"
  /\ UNCHANGED <<readClosed, seekCh, initOpen, doneOpen, cpc, version, seekNil, carg, ret, nops, reqv, seekTo, delivered, released>>

RLoopFatal ==                                   \* isFatalError(err): only repeat that error
  /\ rpc = "loop" /\ err = "fatal"
  /\ Offer(-1, "fatal") /\ rpc' = "select"
  /\ UNCHANGED <<readClosed, seekCh, initOpen, doneOpen, cpc, version, seekNil, carg, ret, nops, reqv, seekTo, upos, err, faults, acct>>

RTakeSeek ==                                    \* case seekTo = <-seek: Release(page)
  /\ rpc = "select" /\ Len(seekCh) > 0
  /\ seekTo' = seekCh[1] /\ seekCh' = <<>>
  /\ released' = (IF Bug = "norelease" THEN released ELSE released + Pg(offer[1]))
  /\ offer' = <<>> /\ rpc' = "loop"
  /\ UNCHANGED <<readClosed, initOpen, doneOpen, cpc, version, seekNil, carg, ret, nops, reqv, upos, err, faults, produced, delivered>>

RDone ==                                        \* case <-done: Release(page); return
  /\ rpc = "select" /\ ~doneOpen
  /\ released' = released + Pg(offer[1])
  /\ offer' = <<ExitMsg>> /\ rpc' = "exitSend"
  /\ UNCHANGED <<readClosed, seekCh, initOpen, doneOpen, cpc, version, seekNil, carg, ret, nops, reqv, seekTo, upos, err, faults, produced, delivered>>

RClosing ==                                     \* close(read)
  /\ rpc = "closing" /\ readClosed' = TRUE /\ rpc' = "dead"
  /\ UNCHANGED <<offer, seekCh, initOpen, doneOpen, cpc, version, seekNil, carg, ret, nops, reqv, seekTo, upos, err, faults, acct>>

Outcomes == {"none", "eof", "range", "fatal"}
\* the caller may stop once it has closed; a caller that abandons the reader without Close leaks the goroutine by design
Terminated == cpc = "idle" /\ seekNil /\ (rpc = "dead" \/ Bug = "nodrain") /\ UNCHANGED vars
Caller == CReadStart \/ CRecv \/ CRecvClosed \/ CSeekDrain \/ CSeekSend \/ CSeekStart \/ CClose1 \/ CClose2 \/ CDrain \/ CDrainEnd
            \/ \E k \in 0..NP+1 : CSeekFlush(k)
Reader == RWaitInit \/ RCheckSeek \/ RLoopFatal \/ RTakeSeek \/ RDone \/ RClosing
            \/ \E o \in Outcomes : RLoopSeek(o) \/ RLoopRead(o)
Next == Caller \/ Reader \/ Terminated

Spec == Init /\ [][Next]_vars
\* Go's select chooses uniformly among the ready cases: the branches that compete with a ready send
\* (take the seek, observe done) are taken eventually - strong fairness on them
FairSpec == Spec /\ WF_vars(Reader) /\ WF_vars(CRecv \/ CRecvClosed \/ CDrain \/ CDrainEnd \/ CSeekDrain \/ CSeekSend \/ CSeekStart \/ CClose2)
                 /\ SF_vars(RDone) /\ SF_vars(RTakeSeek)
WeakSpec == Spec /\ WF_vars(Reader) /\ WF_vars(Caller)

------------------------------------------------------------------------------
(* requirement (C15, and C08 in asynchronous mode) *)
Conforms == ok                                                   \* results are those of the synchronous reader
NoLeak == produced = delivered + released + (IF offer # <<>> THEN Pg(offer[1]) ELSE 0)
AllReleasedAtEnd == (seekNil /\ cpc = "idle" /\ rpc = "dead") => produced = delivered + released /\ offer = <<>>
SendNeverBlocks == cpc = "seekSend" => Len(seekCh) = 0           \* the capacity-1 channel was just flushed
\* the caller never stays blocked: every ReadPage returns, Close terminates
ReadReturns == (cpc = "recv") ~> (cpc = "idle")
CloseReturns == (cpc = "drain") ~> (cpc = "idle")
ReaderExits == seekNil ~> (rpc = "dead")
SeekReturns == (cpc \in {"seekDrain", "seekSend", "seekStart"}) ~> (cpc = "idle")
=============================================================================
