CONSTANTS MaxLen = 5  MaxOps = 6  Clamp = TRUE  Bug = "none"
SPECIFICATION Spec
INVARIANT Inv
VIEW View
CHECK_DEADLOCK FALSE
