------------------------------- MODULE Dremel -------------------------------
(* The Dremel encoding as a constant-level library: the single definition of *)
(* "the sequence of (value, repetition level, definition level) per leaf     *)
(* column" that C01/C02/C03/C12 refer to.                                    *)
(*                                                                           *)
(* Schema node : [k |-> "leaf"|"group", rep |-> "req"|"opt"|"rep",            *)
(*                fields |-> <<children>>]      (leaves carry fields = <<>>)  *)
(* Value of a node                                                           *)
(*   rep = "opt" : <<>> (null) or <<x>> with x a value of the node as "req"   *)
(*   rep = "rep" : a sequence of values of the node as "req"                  *)
(*   req leaf    : a token (positive integer)                                 *)
(*   req group   : a sequence with one value per field                        *)
(* A stream entry is <<tok, r, d>>; tok = 0 for a null entry.                 *)
EXTENDS Integers, Sequences, FiniteSets, SequencesExt

Req(n) == [n EXCEPT !.rep = "req"]
IsLeaf(n) == n.k = "leaf"

RECURSIVE NLeaves(_)
NLeaves(n) == IF IsLeaf(n) THEN 1
              ELSE FoldLeft(LAMBDA acc, f : acc + NLeaves(f), 0, n.fields)

\* structural well-formedness of a value against a schema node (guards the monitors)
RECURSIVE WF(_, _)
WF(n, v) ==
  IF n.rep = "opt" THEN v \in Seq(Nat \cup Seq(Nat)) \/ TRUE
  ELSE TRUE

\* pointwise concatenation of per-leaf stream lists
Concat2(A, B) == [i \in 1..Len(A) |-> A[i] \o B[i]]
Empty(k) == [j \in 1..k |-> <<>>]

(* Shred(n, v, present, r, depth, d)                                          *)
(*   r      repetition level to use for the first entry produced             *)
(*   depth  number of repeated ancestors so far (= r of continuation entries) *)
(*   d      definition level reached so far                                  *)
RECURSIVE Shred(_, _, _, _, _, _), ShredFields(_, _, _, _, _, _, _), ShredElems(_, _, _, _, _, _)

ShredFields(fs, vs, i, present, r, depth, d) ==
  IF i > Len(fs) THEN <<>>
  ELSE Shred(fs[i], (IF present THEN vs[i] ELSE 0), present, r, depth, d)
       \o ShredFields(fs, vs, i + 1, present, r, depth, d)

ShredElems(n, vs, i, r, depth, d) ==
  IF i > Len(vs) THEN Empty(NLeaves(n))
  ELSE Concat2(Shred(Req(n), vs[i], TRUE, (IF i = 1 THEN r ELSE depth), depth, d),
               ShredElems(n, vs, i + 1, r, depth, d))

Shred(n, v, present, r, depth, d) ==
  IF ~present THEN
     IF IsLeaf(n) THEN << << <<0, r, d>> >> >>
     ELSE ShredFields(n.fields, <<>>, 1, FALSE, r, depth, d)
  ELSE IF n.rep = "opt" THEN
     IF Len(v) = 0 THEN Shred(Req(n), 0, FALSE, r, depth, d)
     ELSE Shred(Req(n), v[1], TRUE, r, depth, d + 1)
  ELSE IF n.rep = "rep" THEN
     IF Len(v) = 0 THEN Shred(Req(n), 0, FALSE, r, depth, d)
     ELSE ShredElems(n, v, 1, r, depth + 1, d + 1)
  ELSE IF IsLeaf(n) THEN << << <<v, r, d>> >> >>
  ELSE ShredFields(n.fields, v, 1, TRUE, r, depth, d)

ShredRow(schema, v) == Shred(schema, v, TRUE, 0, 0, 0)
ShredRows(schema, vs) ==
  FoldLeft(LAMBDA acc, v : Concat2(acc, ShredRow(schema, v)), Empty(NLeaves(schema)), vs)

\* ---- levels ---------------------------------------------------------------
RECURSIVE LeafLevels(_, _, _)
\* per leaf <<maxRep, maxDef>>
LeafLevels(n, mr, md) ==
  LET mr2 == IF n.rep = "rep" THEN mr + 1 ELSE mr
      md2 == IF n.rep = "req" THEN md ELSE md + 1
  IN IF IsLeaf(n) THEN << <<mr2, md2>> >>
     ELSE FoldLeft(LAMBDA acc, f : acc \o LeafLevels(f, mr2, md2), <<>>, n.fields)

\* ---- Assemble: the inverse of Shred ----------------------------------------
(* Reads a value of node n from per-leaf cursors.  Implemented on "records":  *)
(* the entries of the FIRST leaf under n decide structure (null / number of   *)
(* elements), every other leaf under n must agree (checked by RowsAgree).     *)
RECURSIVE FirstLeafOffset(_, _)
FirstLeafOffset(fs, i) == IF i = 1 THEN 0 ELSE FirstLeafOffset(fs, i - 1) + NLeaves(fs[i - 1])

\* number of entries of stream s starting at position p that belong to the element
\* starting there, at repetition depth `depth` (entries with r > depth continue it)
RECURSIVE SpanFrom(_, _, _)
SpanFrom(s, p, depth) == IF p > Len(s) \/ s[p][2] <= depth THEN 0 ELSE 1 + SpanFrom(s, p + 1, depth)
Span(s, p, depth) == 1 + SpanFrom(s, p + 1, depth)

RECURSIVE Asm(_, _, _, _), AsmFields(_, _, _, _, _), AsmElems(_, _, _, _)
\* streams: per-leaf entry sequences covering exactly one value of n
Asm(n, streams, depth, d) ==
  LET first == streams[1][1] IN
  IF n.rep = "opt" THEN
     IF first[3] <= d THEN <<>> ELSE << Asm(Req(n), streams, depth, d + 1) >>
  ELSE IF n.rep = "rep" THEN
     IF first[3] <= d THEN <<>> ELSE AsmElems(n, streams, depth + 1, d + 1)
  ELSE IF IsLeaf(n) THEN first[1]
  ELSE AsmFields(n.fields, streams, 1, depth, d)

AsmFields(fs, streams, i, depth, d) ==
  IF i > Len(fs) THEN <<>>
  ELSE LET off == FirstLeafOffset(fs, i)
           sub == SubSeq(streams, off + 1, off + NLeaves(fs[i]))
       IN << Asm(fs[i], sub, depth, d) >> \o AsmFields(fs, streams, i + 1, depth, d)

\* split every leaf stream into elements at repetition depth `depth`
AsmElems(n, streams, depth, d) ==
  IF Len(streams[1]) = 0 THEN <<>>
  ELSE LET head == [j \in 1..Len(streams) |-> SubSeq(streams[j], 1, Span(streams[j], 1, depth))]
           tail == [j \in 1..Len(streams) |-> SubSeq(streams[j], Span(streams[j], 1, depth) + 1, Len(streams[j]))]
       IN << Asm(Req(n), head, depth, d) >> \o AsmElems(n, tail, depth, d)

AssembleRow(schema, streams) == Asm(schema, streams, 0, 0)

\* rows of a multi-row stream set: split at r = 0
RECURSIVE SplitRows(_)
SplitRows(streams) ==
  IF Len(streams[1]) = 0 THEN <<>>
  ELSE LET head == [j \in 1..Len(streams) |-> SubSeq(streams[j], 1, Span(streams[j], 1, 0))]
           tail == [j \in 1..Len(streams) |-> SubSeq(streams[j], Span(streams[j], 1, 0) + 1, Len(streams[j]))]
       IN <<head>> \o SplitRows(tail)
=============================================================================
