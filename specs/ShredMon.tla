------------------------------ MODULE ShredMon ------------------------------
(* VERDICT monitor for C03: for every recorded (schema, rows) the streams     *)
(* stored by each ingestion path must equal Dremel!ShredRows(schema, rows),   *)
(* all paths must agree with each other, and Reconstruct(Deconstruct(v)) = v. *)
(*   Init    schema (tree), rows (value trees, leaves numbered by the harness)*)
(*   Stored  path, streams (per leaf: <<tok, r, d>> entries), err             *)
(*   Recon   rows (value trees projected from the reconstructed Go values)    *)
(* Documented latitude: for a LIST/MAP-annotated optional group an empty Go   *)
(* slice/map may be stored as null or as present-and-empty ("nil and empty    *)
(* are the same"); NormStreams identifies the two definition levels.          *)
EXTENDS Dremel, TLC, Json

CONSTANT TraceFile
Trace == ndJsonDeserialize(TraceFile)

VARIABLES l, exp, first, rows, tag, bad, cnt
vars == <<l, exp, first, rows, tag, bad, cnt>>
E == Trace[l]
MaxBad == 300

\* per leaf: the set of definition levels D at which a null entry is equivalent to D-1
RECURSIVE AmbLevels(_, _)
AmbLevels(n, d) ==
  LET d2 == IF n.rep = "req" THEN d ELSE d + 1
      mine == IF n.rep = "opt" /\ ~IsLeaf(n) /\ n.lt \in {"LIST", "MAP"} THEN {d2} ELSE {}
  IN IF IsLeaf(n) THEN << {} >>
     ELSE LET sub == FoldLeft(LAMBDA acc, f : acc \o AmbLevels(f, d2), <<>>, n.fields)
          IN [j \in 1..Len(sub) |-> sub[j] \cup mine]

NormEntry(e, amb) == IF e[1] = 0 /\ e[3] \in amb THEN <<0, e[2], e[3] - 1>> ELSE e
NormStreams(schema, streams) ==
  LET amb == AmbLevels(schema, 0) IN
  [j \in 1..Len(streams) |-> [i \in 1..Len(streams[j]) |-> NormEntry(streams[j][i], amb[j])]]

\* a class is qualified by the scenario's tag (a Go-side feature of the type, e.g. "list-of-pointers")
Flag(c) ==
  /\ bad' = (IF Len(bad) < MaxBad
             THEN Append(bad, <<E.t, E.i, IF tag = "" THEN c ELSE c \o "@" \o tag>>) ELSE bad)
  /\ cnt' = [cnt EXCEPT !.flagged = @ + 1]

Init == /\ l = 1 /\ exp = <<>> /\ first = <<>> /\ rows = <<>> /\ bad = <<>> /\ tag = ""
        /\ cnt = [traces |-> 0, stored |-> 0, recon |-> 0, flagged |-> 0]

Step ==
  /\ l <= Len(Trace) /\ l' = l + 1
  /\ CASE E.ev = "Init" ->
            /\ exp' = << NormStreams(E.schema, ShredRows(E.schema, E.rows)), E.schema >>
            /\ first' = <<>> /\ rows' = E.rows /\ bad' = bad /\ tag' = E.tag
            /\ cnt' = [cnt EXCEPT !.traces = @ + 1]
       [] E.ev = "Stored" ->
            /\ UNCHANGED <<exp, rows, tag>>
            /\ IF E.err = 1 THEN first' = first /\ Flag("path-error")
               ELSE IF Len(E.streams) # Len(exp[1]) THEN first' = first /\ Flag("streams-differ")
               ELSE IF NormStreams(exp[2], E.streams) # exp[1] THEN first' = first /\ Flag("streams-differ")
               ELSE IF first # <<>> /\ first[1] # E.streams THEN first' = first /\ Flag("paths-disagree")
               ELSE /\ first' = IF first = <<>> THEN <<E.streams>> ELSE first
                    /\ bad' = bad /\ cnt' = [cnt EXCEPT !.stored = @ + 1]
       [] E.ev = "Recon" ->
            /\ UNCHANGED <<exp, first, rows, tag>>
            /\ IF E.err = 1 THEN Flag("reconstruct-error")
               ELSE IF E.rows # rows THEN Flag("reconstruct")
               ELSE bad' = bad /\ cnt' = [cnt EXCEPT !.recon = @ + 1]

Spec == Init /\ [][Step]_vars
Done == l = Len(Trace) + 1 =>
          PrintT(<<"VERDICT", ToJson([consumed |-> l - 1, bad |-> bad, cnt |-> cnt])>>)
=============================================================================
