CONSTANTS Tok = {1, 2, 3}  MaxOps = 4  Fix = FALSE
SPECIFICATION Spec
INVARIANT NeverAbsent
VIEW view
CHECK_DEADLOCK FALSE
