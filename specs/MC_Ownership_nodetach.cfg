CONSTANTS NB = 3  MaxOps = 6  Detach = FALSE
SPECIFICATION Spec
INVARIANT HeldMemoryIsNotPooled
VIEW view
CHECK_DEADLOCK FALSE
