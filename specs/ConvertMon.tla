----------------------------- MODULE ConvertMon -----------------------------
(* VERDICT monitor for C12.                                                  *)
(*   Init  src, tgt (named schema trees), rows (source value trees, leaves   *)
(*         numbered by the harness)                                          *)
(*   Out   path, rows (value trees obtained through the target schema), err  *)
(* Requirement: with the added fields stripped, rows equal the projection   *)
(* onto the shared part of the target, in order; added fields hold only     *)
(* nulls and zeros (see Convert.tla for why nothing more is demanded).      *)
EXTENDS Convert, Json
CONSTANT TraceFile
Trace == ndJsonDeserialize(TraceFile)
VARIABLES l, exp, cur, bad, cnt
vars == <<l, exp, cur, bad, cnt>>
E == Trace[l]
MaxBad == 300
\* predicate of a recorded finding (known_findings.json): the target adds a REQUIRED leaf inside a
\* group that also exists in the source (not at the root)
RECURSIVE AddsRequiredLeafInGroup(_, _, _)
AddsRequiredLeafInGroup(s, t, depth) ==
  ~IsLeaf(t) /\ \E i \in 1..Len(t.fields) :
     LET f == t.fields[i] IN
     IF Has(s.fields, f.name) THEN AddsRequiredLeafInGroup(s.fields[IndexOf(s.fields, f.name)], f, depth + 1)
     ELSE depth > 0 /\ IsLeaf(f) /\ f.rep = "req"
\* the target adds a REPEATED leaf (anywhere) that the source does not have
RECURSIVE AddsRepeatedLeaf(_, _)
AddsRepeatedLeaf(s, t) ==
  ~IsLeaf(t) /\ \E i \in 1..Len(t.fields) :
     LET f == t.fields[i] IN
     IF Has(s.fields, f.name) THEN AddsRepeatedLeaf(s.fields[IndexOf(s.fields, f.name)], f)
     ELSE IsLeaf(f) /\ f.rep = "rep"
\* inside a group that exists on both sides the target both drops a source field and adds a new one
RECURSIVE DropsAndAddsInGroup(_, _, _)
DropsAndAddsInGroup(s, t, depth) ==
  ~IsLeaf(t) /\
  \/ depth > 0 /\ (\E i \in 1..Len(s.fields) : ~Has(t.fields, s.fields[i].name)) /\ (\E i \in 1..Len(t.fields) : ~Has(s.fields, t.fields[i].name))
  \/ \E i \in 1..Len(t.fields) : Has(s.fields, t.fields[i].name)
                                  /\ DropsAndAddsInGroup(s.fields[IndexOf(s.fields, t.fields[i].name)], t.fields[i], depth + 1)
\* the target adds a leaf inside a group that exists on both sides
RECURSIVE AddsLeafInGroup(_, _, _)
AddsLeafInGroup(s, t, depth) ==
  ~IsLeaf(t) /\ \E i \in 1..Len(t.fields) :
     LET f == t.fields[i] IN
     IF Has(s.fields, f.name) THEN AddsLeafInGroup(s.fields[IndexOf(s.fields, f.name)], f, depth + 1)
     ELSE depth > 0 /\ IsLeaf(f)
\* classes are qualified by the shape of the edit and by the API path, so that a recorded finding stays narrow
Tag == IF cur = <<>> THEN ""
       ELSE IF AddsRequiredLeafInGroup(cur[1], cur[2], 0) THEN "@added-required-leaf-in-group"
       ELSE IF AddsRepeatedLeaf(cur[1], cur[2]) THEN "@added-repeated-leaf"
       ELSE IF DropsAndAddsInGroup(cur[1], cur[2], 0) THEN "@field-dropped-and-field-added-in-group"
       ELSE IF AddsLeafInGroup(cur[1], cur[2], 0) THEN "@added-leaf-in-group"
       ELSE ""
Flag(c0) ==
  LET c == c0 \o Tag \o (IF Tag = "" THEN "" ELSE ":" \o E.path) IN
  /\ bad' = (IF Len(bad) < MaxBad THEN Append(bad, <<E.t, E.i, c>>) ELSE bad)
  /\ cnt' = [cnt EXCEPT !.flagged = @ + 1]
Init == l = 1 /\ exp = <<>> /\ cur = <<>> /\ bad = <<>> /\ cnt = [traces |-> 0, outs |-> 0, rows |-> 0, flagged |-> 0]
Step ==
  /\ l <= Len(Trace) /\ l' = l + 1
  /\ CASE E.ev = "Init" -> /\ exp' = [i \in 1..Len(E.rows) |-> Project(E.src, Shared(E.src, E.tgt), E.rows[i])]
                           /\ cur' = <<E.src, E.tgt>>
                           /\ bad' = bad /\ cnt' = [cnt EXCEPT !.traces = @ + 1]
       [] E.ev = "Out" ->
            /\ UNCHANGED <<exp, cur>>
            /\ IF E.err = 1 THEN Flag("convert-error")
               ELSE IF Len(E.rows) # Len(exp) THEN Flag("row-count")
               ELSE IF [i \in 1..Len(E.rows) |-> StripReq(cur[1], cur[2], E.rows[i])] # exp THEN Flag("shared-columns")
               ELSE IF \E i \in 1..Len(E.rows) : ~AddedCleanReq(cur[1], cur[2], E.rows[i]) THEN Flag("added-columns")
               ELSE bad' = bad /\ cnt' = [cnt EXCEPT !.outs = @ + 1, !.rows = @ + Len(exp)]
Spec == Init /\ [][Step]_vars
Done == l = Len(Trace) + 1 =>
          PrintT(<<"VERDICT", ToJson([consumed |-> l - 1, bad |-> bad, cnt |-> cnt])>>)
=============================================================================
