CONSTANTS MaxLen = 6  MaxOps = 8  Clamp = TRUE  Bug = "none"
SPECIFICATION Spec
INVARIANT Inv
VIEW View
CHECK_DEADLOCK FALSE
