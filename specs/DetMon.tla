------------------------------- MODULE DetMon -------------------------------
(* VERDICT monitor for C17: output bytes are a function of input and options. *)
(*   Init  sc, build                                                          *)
(*   Out   variant ("fresh" | "reused" | "poisoned" (recycled pool memory      *)
(*         overwritten) | "goroutine"), err,                                  *)
(*         sha (hex digest of the produced file), len                         *)
(* Within a trace every variant must produce the digest of "fresh"; across    *)
(* builds (default / purego) the "fresh" digests of a scenario must agree.    *)
EXTENDS Integers, Sequences, TLC, Json
CONSTANT TraceFile
Trace == ndJsonDeserialize(TraceFile)
VARIABLES l, fresh, byBuild, sc, bad, cnt
vars == <<l, fresh, byBuild, sc, bad, cnt>>
E == Trace[l]
MaxBad == 300
Flag(c) ==
  /\ bad' = (IF Len(bad) < MaxBad THEN Append(bad, <<E.t, E.i, c>>) ELSE bad)
  /\ cnt' = [cnt EXCEPT !.flagged = @ + 1]
Init == /\ l = 1 /\ fresh = "" /\ byBuild = <<>> /\ sc = "" /\ bad = <<>>
        /\ cnt = [traces |-> 0, outs |-> 0, crossbuild |-> 0, flagged |-> 0]
\* byBuild: sequence of <<scenario key, digest>> recorded by the first build that ran the scenario
Lookup(k) == SelectSeq(byBuild, LAMBDA p : p[1] = k)
Step ==
  /\ l <= Len(Trace) /\ l' = l + 1
  /\ CASE E.ev = "Init" -> /\ fresh' = "" /\ sc' = E.key /\ UNCHANGED <<byBuild, bad>>
                           /\ cnt' = [cnt EXCEPT !.traces = @ + 1]
       [] E.ev = "Diff" -> UNCHANGED <<fresh, byBuild, sc, bad, cnt>>
       [] E.ev = "Out" ->
            /\ sc' = sc
            /\ IF E.err = 1 THEN UNCHANGED <<fresh, byBuild>> /\ Flag(E.variant \o "-error")
               ELSE IF E.variant = "fresh"
               THEN /\ fresh' = E.sha
                    /\ LET prev == Lookup(sc) IN
                       IF Len(prev) = 0 THEN byBuild' = Append(byBuild, <<sc, E.sha>>) /\ bad' = bad
                                             /\ cnt' = [cnt EXCEPT !.outs = @ + 1]
                       ELSE /\ byBuild' = byBuild
                            /\ IF prev[1][2] # E.sha THEN Flag("build-differs")
                               ELSE bad' = bad /\ cnt' = [cnt EXCEPT !.outs = @ + 1, !.crossbuild = @ + 1]
               ELSE /\ UNCHANGED <<fresh, byBuild>>
                    /\ IF E.sha # fresh THEN Flag(E.variant \o "-differs")
                       ELSE bad' = bad /\ cnt' = [cnt EXCEPT !.outs = @ + 1]
Spec == Init /\ [][Step]_vars
Done == l = Len(Trace) + 1 =>
          PrintT(<<"VERDICT", ToJson([consumed |-> l - 1, bad |-> bad, cnt |-> cnt])>>)
=============================================================================
