INIT Init
NEXT Next
