---------------------------- MODULE MC_SortBuffer ----------------------------
(* Scenario emission for C10: sorting configurations x small row lists.      *)
EXTENDS Integers, Sequences, FiniteSets, TLC, Json
CONSTANTS K, MaxRows
ColCfgs == [desc : BOOLEAN, nullsFirst : BOOLEAN]
VARIABLES cs, rows
Init == /\ cs \in [1..2 -> ColCfgs]
        /\ rows \in UNION {[1..n -> [1..2 -> 0..K]] : n \in 1..MaxRows}
Next == UNCHANGED <<cs, rows>>
Emit == PrintT(<<"SCENARIO", ToJson([cs |-> cs, rows |-> rows])>>)
=============================================================================
