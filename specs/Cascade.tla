------------------------------- MODULE Cascade -------------------------------
(* The decision cascade of Writer.WriteRowGroup (writer.go :549-597,           *)
(* writer_copy.go, writer_reencode.go).  A source row group and a destination  *)
(* writer are summarised by small vectors; Chosen transcribes the tests the    *)
(* code applies, in order; Allowed is the requirement of C11: a fast path may  *)
(* only be taken when its output cannot be told from the row path's.           *)
(*                                                                             *)
(* src : kind   file | buffer | merged (overlapping heap merge) | dedup |       *)
(*              converted | foreign (application RowGroup)                      *)
(*       codec, ver (data page version), enc (plain | dict), index (page index  *)
(*       present), pstats (page-header statistics present), bloom (none | bits),*)
(*       big (more rows than dst.maxRows)                                       *)
(*       flat (every column required and not repeated: no levels)               *)
(*       kinds multi (MultiRowGroup of files) and disjoint (sorted merge of     *)
(*       non-overlapping files) are SEGMENTED: writeSegmentsPacked handles each *)
(*       file-backed segment like a file of its own, packing segments into      *)
(*       output row groups of at most maxRows rows; the segments are uneven     *)
(*       and each smaller than the limit even when the whole is big             *)
(*       kind dedupdisjoint: the same sorted merge of non-overlapping files     *)
(*       with DropDuplicatedRows - duplicates lie INSIDE the segments, only the *)
(*       merge's own Rows() drops them, so its segments are not exposed         *)
(* dst : codec, ver, enc, pstats (DataPageStatistics), bloom                    *)
EXTENDS Integers, Sequences, FiniteSets, TLC

Kinds  == {"file", "buffer", "merged", "dedup", "converted", "foreign", "multi", "disjoint", "dedupdisjoint"}
Codecs == {"none", "snappy"}
Blooms == {0, 10, 20}                    \* bits per value, 0 = no filter
Src == [kind : Kinds, codec : Codecs, ver : {1, 2}, enc : {"plain", "dict"}, index : BOOLEAN,
        pstats : BOOLEAN, bloom : Blooms, big : BOOLEAN, flat : BOOLEAN]
Dst == [codec : Codecs, ver : {1, 2}, enc : {"plain", "dict"}, pstats : BOOLEAN, bloom : Blooms]

\* chunkTransparentMarker: only the library's own chunk-backed row groups opt in
Segmented(s) == s.kind \in {"multi", "disjoint"}
ChunkTransparent(s) == s.kind \in {"file", "buffer"} \/ Segmented(s)
FileBacked(s) == s.kind = "file" \/ Segmented(s)
\* what the size test sees: a segment is never bigger than the limit
Big(s) == s.big /\ ~Segmented(s)

\* columnChunkIsCopyable + copyableColumnChunks (writer_copy.go :106, :202)
Copyable(s, d) ==
  /\ ~Big(s) /\ ChunkTransparent(s) /\ FileBacked(s)
  /\ s.codec = d.codec
  /\ (d.bloom # 0 => s.bloom = d.bloom)                \* bloomFilterIsCopyable: same size
  /\ s.index                                           \* column and offset index present
  /\ s.ver = d.ver /\ s.enc = d.enc                    \* encodingStatsMatch
\* the conjuncts of Copyable that fail; scenario sampling favours vectors where exactly one does (near misses)
CopyFails(s, d) ==
  (IF Big(s) THEN {"big"} ELSE {}) \cup (IF ~(ChunkTransparent(s) /\ FileBacked(s)) THEN {"kind"} ELSE {})
  \cup (IF s.codec # d.codec THEN {"codec"} ELSE {}) \cup (IF d.bloom # 0 /\ s.bloom # d.bloom THEN {"bloom"} ELSE {})
  \cup (IF ~s.index THEN {"index"} ELSE {}) \cup (IF s.ver # d.ver THEN {"version"} ELSE {}) \cup (IF s.enc # d.enc THEN {"encoding"} ELSE {})
\* columnOrientedRowGroup (writer_reencode.go :45)
Reencodable(s, d) == ChunkTransparent(s) /\ ~Big(s)

Chosen(s, d) == IF Copyable(s, d) THEN "copy" ELSE IF Reencodable(s, d) THEN "reencode" ELSE "rows"

\* ---- requirement ---------------------------------------------------------
\* every setting observable in the output must be what dst configured
SameSettings(s, d) == /\ s.codec = d.codec /\ s.ver = d.ver /\ s.enc = d.enc
                      /\ s.pstats = d.pstats
                      /\ s.bloom = d.bloom               \* presence and size (a filter dst did not ask for is also observable)
                      /\ s.index                          \* the writer always emits a page index
Allowed(path, s, d) ==
  CASE path = "copy"     -> ChunkTransparent(s) /\ FileBacked(s) /\ ~Big(s) /\ SameSettings(s, d)
    [] path = "reencode" -> ChunkTransparent(s) /\ ~Big(s)
    [] path = "rows"     -> TRUE

VARIABLES s, d
Init == s \in Src /\ d \in Dst
Next == UNCHANGED <<s, d>>
ChosenIsAllowed == Allowed(Chosen(s, d), s, d)
WrappersNeverBypassed == s.kind \in {"merged", "dedup", "dedupdisjoint", "converted", "foreign"} => Chosen(s, d) = "rows"
=============================================================================
