------------------------------- MODULE Cascade -------------------------------
(* The decision cascade of Writer.WriteRowGroup (writer.go :549-597,           *)
(* writer_copy.go, writer_reencode.go).  A source row group and a destination  *)
(* writer are summarised by small vectors; Chosen transcribes the tests the    *)
(* code applies, in order; Allowed is the requirement of C11: a fast path may  *)
(* only be taken when its output cannot be told from the row path's.           *)
(*                                                                             *)
(* src : kind   file | buffer | merged (overlapping heap merge) | dedup |       *)
(*              converted | foreign (application RowGroup)                      *)
(*       codec, ver (data page version), enc (plain | dict), index (page index  *)
(*       present), pstats (page-header statistics present), bloom (none | bits),*)
(*       big (more rows than dst.maxRows)                                       *)
(* dst : codec, ver, enc, pstats (DataPageStatistics), bloom                    *)
EXTENDS Integers, Sequences, FiniteSets, TLC

Kinds  == {"file", "buffer", "merged", "dedup", "converted", "foreign"}
Codecs == {"none", "snappy"}
Blooms == {0, 10, 20}                    \* bits per value, 0 = no filter
Src == [kind : Kinds, codec : Codecs, ver : {1, 2}, enc : {"plain", "dict"}, index : BOOLEAN,
        pstats : BOOLEAN, bloom : Blooms, big : BOOLEAN]
Dst == [codec : Codecs, ver : {1, 2}, enc : {"plain", "dict"}, pstats : BOOLEAN, bloom : Blooms]

\* chunkTransparentMarker: only the library's own chunk-backed row groups opt in
ChunkTransparent(s) == s.kind \in {"file", "buffer"}
FileBacked(s) == s.kind = "file"

\* columnChunkIsCopyable + copyableColumnChunks (writer_copy.go :106, :202)
Copyable(s, d) ==
  /\ ~s.big /\ ChunkTransparent(s) /\ FileBacked(s)
  /\ s.codec = d.codec
  /\ (d.bloom # 0 => s.bloom = d.bloom)                \* bloomFilterIsCopyable: same size
  /\ s.index                                           \* column and offset index present
  /\ s.ver = d.ver /\ s.enc = d.enc                    \* encodingStatsMatch
\* columnOrientedRowGroup (writer_reencode.go :45)
Reencodable(s, d) == ChunkTransparent(s) /\ ~s.big

Chosen(s, d) == IF Copyable(s, d) THEN "copy" ELSE IF Reencodable(s, d) THEN "reencode" ELSE "rows"

\* ---- requirement ---------------------------------------------------------
\* every setting observable in the output must be what dst configured
SameSettings(s, d) == /\ s.codec = d.codec /\ s.ver = d.ver /\ s.enc = d.enc
                      /\ s.pstats = d.pstats
                      /\ s.bloom = d.bloom               \* presence and size (a filter dst did not ask for is also observable)
                      /\ s.index                          \* the writer always emits a page index
Allowed(path, s, d) ==
  CASE path = "copy"     -> ChunkTransparent(s) /\ FileBacked(s) /\ ~s.big /\ SameSettings(s, d)
    [] path = "reencode" -> ChunkTransparent(s) /\ ~s.big
    [] path = "rows"     -> TRUE

VARIABLES s, d
Init == s \in Src /\ d \in Dst
Next == UNCHANGED <<s, d>>
ChosenIsAllowed == Allowed(Chosen(s, d), s, d)
WrappersNeverBypassed == s.kind \in {"merged", "dedup", "converted", "foreign"} => Chosen(s, d) = "rows"
=============================================================================
