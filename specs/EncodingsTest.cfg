INIT Init
NEXT Next
