CONSTANTS MaxList = 3  MaxRows = 4  PerType = 12
INIT Init
NEXT Next
CHECK_DEADLOCK FALSE
