CONSTANTS NP = 2  MaxOps = 4  Faults = 0  Bug = "nobump"
SPECIFICATION Spec
INVARIANTS Conforms NoLeak AllReleasedAtEnd SendNeverBlocks
CHECK_DEADLOCK TRUE
