----------------------------- MODULE WriterOps -----------------------------
(* Pure transition functions of the writer's content layer, shared by the    *)
(* model (Writer.tla) and the trace monitor (WriterMon.tla).                 *)
(* A state is the record [cur, pend, pages, rgs] described in Writer.tla.    *)
EXTENDS Integers, Sequences, FiniteSets, SequencesExt

Sum(s) == FoldLeft(LAMBDA a, b : a + b, 0, s)

\* ---- pure transition functions (shared with the trace monitor) -----------
\* state record: [cur, pend, pages, rgs]
CutPage(p, pg, c) == IF p[c] = 0 THEN <<p, pg>>
                     ELSE <<[p EXCEPT ![c] = 0], [pg EXCEPT ![c] = Append(@, p[c])]>>
FlushAllCols(st) ==
  LET r == FoldLeft(LAMBDA acc, c : CutPage(acc[1], acc[2], c), <<st.pend, st.pages>>, SetToSeq(DOMAIN st.pend))
  IN [st EXCEPT !.pend = r[1], !.pages = r[2]]
\* writeRowGroup: no-op on zero rows
FlushRG(st) ==
  IF st.cur = 0 THEN st
  ELSE LET f == FlushAllCols(st) IN
       [cur |-> 0, pend |-> [c \in DOMAIN f.pend |-> 0], pages |-> [c \in DOMAIN f.pages |-> <<>>],
        rgs |-> Append(f.rgs, [rows |-> f.cur, pages |-> f.pages])]
\* Write(n): fill the open group up to the limit; a full group is flushed only
\* when the next row arrives (ErrTooManyRowGroups -> flush -> continue)
\* (closed form: TLC's evaluator overflows the Java stack on deep TLA+ recursion)
AddRows(st, k) == [st EXCEPT !.cur = @ + k, !.pend = [c \in DOMAIN @ |-> @[c] + k]]
WriteN(st, n, limit) ==
  IF n = 0 THEN st
  ELSE IF st.cur + n <= limit THEN AddRows(st, n)
  ELSE LET first == FlushRG(AddRows(st, limit - st.cur))   \* the open group is completed and flushed
           m == n - (limit - st.cur)                        \* rows still to place, m >= 1
           q == (m - 1) \div limit                          \* full groups flushed on the way
           full == FoldLeft(LAMBDA acc, i : FlushRG(AddRows(acc, limit)), first, [i \in 1..q |-> i])
       IN AddRows(full, m - q * limit)

=============================================================================
