------------------------------ MODULE StatsMon ------------------------------
(* VERDICT monitor for C05.  Every recorded piece of metadata is compared    *)
(* with the real contents of the unit it describes, using the column orders  *)
(* of Order.tla on PLAIN bytes.                                              *)
(*   Init   order (column order kind)                                        *)
(*   Page   vals (values as read back; <<-1>> null), hmin/hmax (page header  *)
(*          statistics, <<-2>> = not recorded), hnulls, hvalues              *)
(*   Index  min, max, nullPage, nullCounts, asc, desc  (column index)        *)
(*   Chunk  min, max, nulls, values (footer statistics)                      *)
(* Obligations exist only for units holding at least one non-null, non-NaN   *)
(* value; metadata that is not recorded carries no obligation.               *)
EXTENDS Order, TLC, Json, FiniteSets, SequencesExt

CONSTANT TraceFile
Trace == ndJsonDeserialize(TraceFile)

VARIABLES l, order, pv, bad, cnt
vars == <<l, order, pv, bad, cnt>>
E == Trace[l]
MaxBad == 300
Absent == <<-2>>

IsNull(v) == v = NullTok
Real(vals) == SelectSeq(vals, LAMBDA v : ~IsNull(v) /\ ~IsNaN(order, v))
Nulls(vals) == Len(SelectSeq(vals, IsNull))
Lower(m, vals) == ~IsNaN(order, m) /\ \A i \in 1..Len(vals) : KLE(order, m, vals[i])
Upper(m, vals) == ~IsNaN(order, m) /\ \A i \in 1..Len(vals) : KLE(order, vals[i], m)
AllVals == FoldLeft(LAMBDA a, b : a \o b, <<>>, pv)

Flag(c) ==
  /\ bad' = (IF Len(bad) < MaxBad THEN Append(bad, <<E.t, E.i, c>>) ELSE bad)
  /\ cnt' = [cnt EXCEPT !.flagged = @ + 1]
Ok(field) == bad' = bad /\ cnt' = [cnt EXCEPT ![field] = @ + 1]

PageClass(e) ==
  LET r == Real(e.vals) IN
  IF e.hvalues # -1 /\ e.hvalues # Len(e.vals) THEN "page-numvalues"
  ELSE IF e.hnulls # -1 /\ e.hnulls # Nulls(e.vals) THEN "page-nulls"
  ELSE IF Len(r) > 0 /\ e.hmin # Absent /\ ~Lower(e.hmin, r) THEN "page-lower"
  ELSE IF Len(r) > 0 /\ e.hmax # Absent /\ ~Upper(e.hmax, r) THEN "page-upper"
  ELSE "ok"

\* pages that take part in the boundary order: not null pages, holding ordinary values
Ordered(e) == SelectSeq([p \in 1..Len(pv) |-> p], LAMBDA p : e.nullPage[p] = 0 /\ Len(Real(pv[p])) > 0)
NonDecr(e, which) == LET ps == Ordered(e) IN
  \A k \in 1..(Len(ps) - 1) : KLE(order, e[which][ps[k]], e[which][ps[k + 1]])
NonIncr(e, which) == LET ps == Ordered(e) IN
  \A k \in 1..(Len(ps) - 1) : KLE(order, e[which][ps[k + 1]], e[which][ps[k]])

IndexClass(e) ==
  IF Len(e.min) # Len(pv) \/ Len(e.max) # Len(pv) \/ Len(e.nullPage) # Len(pv) THEN "index-length"
  ELSE IF \E p \in 1..Len(pv) : (e.nullPage[p] = 1) # (Nulls(pv[p]) = Len(pv[p])) THEN "index-nullpage"
  ELSE IF Len(e.nullCounts) = Len(pv) /\ \E p \in 1..Len(pv) : e.nullCounts[p] # Nulls(pv[p]) THEN "index-nullcount"
  ELSE IF \E p \in 1..Len(pv) : e.nullPage[p] = 0 /\ Len(Real(pv[p])) > 0 /\ ~Lower(e.min[p], Real(pv[p])) THEN "index-lower"
  ELSE IF \E p \in 1..Len(pv) : e.nullPage[p] = 0 /\ Len(Real(pv[p])) > 0 /\ ~Upper(e.max[p], Real(pv[p])) THEN "index-upper"
  ELSE IF e.asc = 1 /\ ~(NonDecr(e, "min") /\ NonDecr(e, "max")) THEN "index-order"
  ELSE IF e.desc = 1 /\ ~(NonIncr(e, "min") /\ NonIncr(e, "max")) THEN "index-order"
  ELSE "ok"

ChunkClass(e) ==
  LET all == AllVals  r == Real(all) IN
  IF e.values # Len(all) THEN "chunk-numvalues"
  ELSE IF e.nulls # Nulls(all) THEN "chunk-nulls"
  ELSE IF Len(r) > 0 /\ e.min # Absent /\ ~Lower(e.min, r) THEN "chunk-lower"
  ELSE IF Len(r) > 0 /\ e.max # Absent /\ ~Upper(e.max, r) THEN "chunk-upper"
  ELSE "ok"

Init == /\ l = 1 /\ order = "bytes" /\ pv = <<>> /\ bad = <<>>
        /\ cnt = [traces |-> 0, pages |-> 0, indexes |-> 0, chunks |-> 0, flagged |-> 0]

Step ==
  /\ l <= Len(Trace) /\ l' = l + 1
  /\ CASE E.ev = "Init" -> order' = E.order /\ pv' = <<>> /\ bad' = bad /\ cnt' = [cnt EXCEPT !.traces = @ + 1]
       [] E.ev = "Page" ->
            /\ order' = order /\ pv' = Append(pv, E.vals)
            /\ LET c == PageClass(E) IN IF c = "ok" THEN Ok("pages") ELSE Flag(c)
       [] E.ev = "Index" ->
            /\ UNCHANGED <<order, pv>>
            /\ LET c == IndexClass(E) IN IF c = "ok" THEN Ok("indexes") ELSE Flag(c)
       [] E.ev = "Chunk" ->
            /\ UNCHANGED <<order, pv>>
            /\ LET c == ChunkClass(E) IN IF c = "ok" THEN Ok("chunks") ELSE Flag(c)
       [] E.ev = "ReadError" -> UNCHANGED <<order, pv>> /\ Flag("read-error")
       \* the column index cannot be enumerated page by page (its lists are shorter than the number of pages)
       [] E.ev = "IndexError" -> UNCHANGED <<order, pv>> /\ Flag("index-lists-misaligned")

Spec == Init /\ [][Step]_vars
Done == l = Len(Trace) + 1 =>
          PrintT(<<"VERDICT", ToJson([consumed |-> l - 1, bad |-> bad, cnt |-> cnt])>>)
=============================================================================
