----------------------------- MODULE MC_Search -----------------------------
EXTENDS Search, Json
\* scenario emission: one line per index of the universe (probe fixed, the harness probes all)
PageJson(p) == IF p.null THEN <<-1>> ELSE IF p.lo = p.hi THEN <<p.lo>> ELSE <<p.lo, p.hi>>
EInit == idx \in Indexes /\ v = 0
Emit == PrintT(<<"SCENARIO", ToJson([pages |-> [i \in 1..Len(idx) |-> PageJson(idx[i])]])>>)
=============================================================================
