-------------------------------- MODULE Merge --------------------------------
(* Merging sorted row groups (merge.go).                                      *)
(*                                                                            *)
(* Requirement layer: the output of a merge is a sorted interleaving of its   *)
(* inputs (each input's rows in their original order).                        *)
(*                                                                            *)
(* Implementation-shaped layer: the PLANNER of MergeRowGroups                 *)
(* (overlappingRowGroups :155, rowGroupRangeOfSortedColumns :217): every row  *)
(* group is summarised by the bounds of its first sorting column taken from   *)
(* the first / last NON-NULL page bounds of the column index; row groups are  *)
(* sorted by lower bound and cut into segments where a lower bound exceeds    *)
(* the running upper bound; single-row-group segments are concatenated        *)
(* without merging, the others are heap-merged.                               *)
(* Fix = FALSE (as found): nulls are ignored when taking the bounds.          *)
(* Fix = TRUE : a row group whose sorting column holds nulls has no usable    *)
(*              bounds - everything is merged in one segment.                 *)
(* Keys: 0 = NULL, 1..K.                                                      *)
EXTENDS Integers, Sequences, FiniteSets, TLC, SequencesExt

CONSTANTS K, MaxInputs, MaxLen, Fix

Cfgs == [desc : BOOLEAN, nullsFirst : BOOLEAN]
\* comparison of keys under a sorting configuration (Schema.Comparator semantics)
Cmp(c, a, b) ==
  IF a = 0 /\ b = 0 THEN 0
  ELSE IF a = 0 THEN (IF c.nullsFirst THEN -1 ELSE 1)
  ELSE IF b = 0 THEN (IF c.nullsFirst THEN 1 ELSE -1)
  ELSE IF a = b THEN 0
  ELSE IF (a < b) # c.desc THEN -1 ELSE 1
LE(c, a, b) == Cmp(c, a, b) <= 0
SortedUnder(c, s) == \A i \in 1..(Len(s) - 1) : LE(c, s[i], s[i + 1])

AllSeqs == UNION {[1..n -> 0..K] : n \in 1..MaxLen}
SortedInputs(c) == {s \in AllSeqs : SortedUnder(c, s)}

\* ---- planner -------------------------------------------------------------
NonNull(s) == SelectSeq(s, LAMBDA x : x # 0)
HasBounds(s) == Len(NonNull(s)) > 0 /\ (Fix => Len(NonNull(s)) = Len(s))
Lo(s) == NonNull(s)[1]                       \* first non-null value in sort order
Hi(s) == NonNull(s)[Len(NonNull(s))]         \* last non-null value in sort order

\* the sequence of all keys of a set of inputs, sorted: what a correct heap merge emits
MergeOf(c, ins) == SortSeq(FoldLeft(LAMBDA a, b : a \o b, <<>>, ins), LAMBDA a, b : Cmp(c, a, b) < 0)

RECURSIVE Cut(_, _, _, _, _)
\* ranges sorted by Lo; returns the sequence of segments (each a sequence of inputs)
Cut(c, rs, i, cur, curMax) ==
  IF i > Len(rs) THEN <<cur>>
  ELSE IF LE(c, Lo(rs[i]), curMax)
       THEN Cut(c, rs, i + 1, Append(cur, rs[i]), IF Cmp(c, Hi(rs[i]), curMax) > 0 THEN Hi(rs[i]) ELSE curMax)
       ELSE <<cur>> \o Cut(c, rs, i + 1, <<rs[i]>>, Hi(rs[i]))

Plan(c, ins) ==
  LET nonEmpty == SelectSeq(ins, LAMBDA s : Len(s) > 0) IN
  IF \E i \in 1..Len(nonEmpty) : ~HasBounds(nonEmpty[i]) THEN <<nonEmpty>>         \* bounds unavailable: one segment
  ELSE IF Len(nonEmpty) <= 1 THEN <<nonEmpty>>
  ELSE LET byLo == SortSeq(nonEmpty, LAMBDA a, b : Cmp(c, Lo(a), Lo(b)) < 0) IN
       Cut(c, byLo, 2, <<byLo[1]>>, Hi(byLo[1]))

\* single-input segments are streamed as they are, the others heap-merged; segments are concatenated
Output(c, ins) == FoldLeft(LAMBDA acc, seg : acc \o (IF Len(seg) = 1 THEN seg[1] ELSE MergeOf(c, seg)), <<>>, Plan(c, ins))

VARIABLES cfg, inputs
Init == /\ cfg \in Cfgs
        /\ inputs \in UNION {[1..n -> SortedInputs(cfg)] : n \in 1..MaxInputs}
Next == UNCHANGED <<cfg, inputs>>

\* requirement (C09): globally sorted, and exactly the multiset union of the inputs
OutputSorted == SortedUnder(cfg, Output(cfg, inputs))
OutputComplete == MergeOf(cfg, <<Output(cfg, inputs)>>) = MergeOf(cfg, inputs)
=============================================================================
