-------------------------------- MODULE Reset --------------------------------
(* Implementation-shaped model of what Writer.Reset restores (writer.go        *)
(* writer.reset :1201, ConcurrentRowGroupWriter.reset, ColumnWriter.reset      *)
(* :2024, format/reset.go) with the ALIASING between the footer structs kept   *)
(* in w.rowGroups and the live column writers made explicit.                   *)
(*                                                                             *)
(* When a row group is committed (writeRowGroup :1790-1806) the live           *)
(* format.ColumnChunk of every column is copied by value into                  *)
(* rowGroups[i].Columns[j]: slice-typed fields (PathInSchema, Encoding,        *)
(* EncodingStats, KeyValueMetadata) then share their backing array with the    *)
(* live struct unless they are cloned.  format.RowGroup.Reset clears some of   *)
(* those slices ELEMENT-WISE (clear(s); s = s[:0]) - which writes through the  *)
(* alias into the live column writer - and merely truncates others.            *)
(*                                                                             *)
(* A live field is "ok" (holds what a fresh writer holds), "dirty" (holds      *)
(* content of the previous file) or "zeroed" (elements overwritten with zero   *)
(* values).  Fix = FALSE is the code as found: PathInSchema is not cloned.     *)
EXTENDS Integers, Sequences, FiniteSets, TLC

CONSTANTS MaxOps, Fix

\* slice-typed fields of format.ColumnMetaData, how commit copies them and how
\* format.ColumnMetaData.Reset treats the committed copy
\* (the per-column KeyValueMetadata is never populated by the writer: an empty slice has nothing to clear)
\* plus the row-group level SortingColumns slice, which aliases w.sortingColumns
Fields == {"PathInSchema", "Encoding", "EncodingStats", "SortingColumns"}
ClonedAtCommit(f) == f = "EncodingStats" \/ (Fix /\ f \in {"PathInSchema", "SortingColumns"})
ResetClearsElements(f) == f \in {"PathInSchema", "EncodingStats", "SortingColumns"}
\* fields the column writer mutates while writing (so they can be dirty)
MutatedByWriting(f) == f \in {"Encoding", "EncodingStats"}
\* fields ColumnWriter.reset restores itself
RestoredByColumnReset(f) == f \in {"EncodingStats", "Encoding"}

\* file-level key/value metadata: w.metadata starts as the configured pairs; SetKeyValueMetadata appends to it at run time
VARIABLES fileKV,     \* "ok" (the configured pairs) / "dirty" (pairs set while writing an earlier file)
          live,       \* [Fields -> {"ok", "dirty", "zeroed"}]
          aliased,    \* set of fields of some committed row group that alias the live struct
          rgs,        \* number of committed row groups kept in w.rowGroups
          open,       \* rows buffered in the open row group
          scalars,    \* "ok" / "dirty": numRows, offsets, statistics, filter length, dictionary, page buffer ...
          hist
vars == <<fileKV, live, aliased, rgs, open, scalars, hist>>
view == <<fileKV, live, aliased, rgs, open, scalars, Len(hist)>>   \* the history is observation only; its length bounds the behaviour

Init == /\ fileKV = "ok" /\ live = [f \in Fields |-> "ok"] /\ aliased = {} /\ rgs = 0 /\ open = FALSE
        /\ scalars = "ok" /\ hist = <<>>

Log(op) == hist' = Append(hist, op)

Write == /\ Len(hist) < MaxOps
         /\ open' = TRUE /\ scalars' = "dirty"
         /\ live' = [f \in Fields |-> IF MutatedByWriting(f) /\ live[f] = "ok" THEN "dirty" ELSE live[f]]
         /\ UNCHANGED <<fileKV, aliased, rgs>> /\ Log("write")

\* Writer.SetKeyValueMetadata
SetKV == /\ Len(hist) < MaxOps /\ fileKV' = "dirty" /\ UNCHANGED <<live, aliased, rgs, open, scalars>> /\ Log("setkv")

\* writeRowGroup: commit, then ColumnWriter.reset for the next row group
Flush == /\ Len(hist) < MaxOps /\ open
         /\ rgs' = rgs + 1 /\ open' = FALSE
         /\ aliased' = aliased \cup {f \in Fields : ~ClonedAtCommit(f)}
         /\ live' = [f \in Fields |-> IF RestoredByColumnReset(f) /\ live[f] = "dirty" THEN "ok" ELSE live[f]]
         /\ scalars' = "ok" /\ UNCHANGED fileKV
         /\ Log("flush")

\* Writer.Reset
Reset == /\ Len(hist) < MaxOps
         /\ live' = [f \in Fields |->
                       IF f \in aliased /\ ResetClearsElements(f) THEN "zeroed"      \* format.RowGroup.Reset through the alias
                       ELSE IF RestoredByColumnReset(f) THEN "ok" ELSE live[f]]
         /\ aliased' = {} /\ rgs' = 0 /\ open' = FALSE /\ scalars' = "ok"
         /\ fileKV' = (IF Fix THEN "ok" ELSE fileKV)          \* as found: reset() leaves w.metadata as it is
         /\ Log("reset")

Next == Write \/ SetKV \/ Flush \/ Reset
Spec == Init /\ [][Next]_vars

\* requirement (C17): right after Reset the writer is indistinguishable from a fresh one
JustReset == Len(hist) > 0 /\ hist[Len(hist)] = "reset"
ResetIsFresh == JustReset => /\ \A f \in Fields : live[f] = "ok"
                             /\ scalars = "ok" /\ rgs = 0 /\ ~open /\ fileKV = "ok"
=============================================================================
