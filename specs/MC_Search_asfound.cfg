CONSTANTS V = 3  NPmax = 3  Fix = FALSE
INIT Init
NEXT Next
INVARIANT NeverMisses
CHECK_DEADLOCK FALSE
