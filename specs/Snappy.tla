------------------------------- MODULE Snappy -------------------------------
(* Decoder of the raw Snappy block format (format_description.txt), so that    *)
(* the independent file decoder can read SNAPPY pages without any library.     *)
(*   preamble: uncompressed length (varint)                                    *)
(*   elements: tag AND 3 = 0 literal, 1/2/3 copy with 1/2/4-byte offset        *)
EXTENDS Integers, Sequences, TLC
RECURSIVE SVarEnd(_, _), SVarVal(_, _, _), SElems(_, _, _), SCopy(_, _, _)
SVarEnd(bs, i) == IF i > Len(bs) THEN 0 ELSE IF bs[i] < 128 THEN i ELSE SVarEnd(bs, i + 1)
SVarVal(bs, i, j) == IF i > j THEN 0 ELSE (bs[i] % 128) + 128 * SVarVal(bs, i + 1, j)
LE(bs, i, n) == IF n = 0 THEN 0 ELSE bs[i] + (IF n > 1 THEN 256 * bs[i + 1] ELSE 0) + (IF n > 2 THEN 65536 * bs[i + 2] ELSE 0)
                     + (IF n > 3 THEN 16777216 * bs[i + 3] ELSE 0)
\* copy `len` bytes from `off` back, one at a time (the ranges may overlap)
SCopy(out, off, len) == IF len = 0 THEN out ELSE SCopy(Append(out, out[Len(out) - off + 1]), off, len - 1)
SElems(bs, i, out) ==
  IF i > Len(bs) THEN out
  ELSE LET tag == bs[i]  kind == tag % 4  hi == tag \div 4 IN
       CASE kind = 0 ->
              LET extra == IF hi < 60 THEN 0 ELSE hi - 59
                  len == IF hi < 60 THEN hi + 1 ELSE LE(bs, i + 1, extra) + 1
                  from == i + 1 + extra
              IN IF from + len - 1 > Len(bs) \/ (extra = 4 /\ bs[i + 4] >= 64) THEN <<-1>>
                 ELSE SElems(bs, from + len, TLCEval(out \o SubSeq(bs, from, from + len - 1)))
         [] kind = 1 ->
              LET len == 4 + (hi % 8)  off == 256 * (hi \div 8) + bs[i + 1] IN
              IF i + 1 > Len(bs) \/ off = 0 \/ off > Len(out) THEN <<-1>> ELSE SElems(bs, i + 2, TLCEval(SCopy(out, off, len)))
         [] kind = 2 ->
              LET len == hi + 1  off == LE(bs, i + 1, 2) IN
              IF i + 2 > Len(bs) \/ off = 0 \/ off > Len(out) THEN <<-1>> ELSE SElems(bs, i + 3, TLCEval(SCopy(out, off, len)))
         [] OTHER ->
              LET len == hi + 1  off == LE(bs, i + 1, 4) IN
              IF i + 4 > Len(bs) \/ bs[i + 4] >= 64 \/ off = 0 \/ off > Len(out) THEN <<-1>> ELSE SElems(bs, i + 5, TLCEval(SCopy(out, off, len)))
SnappyDecode(bs) ==
  IF Len(bs) = 0 \/ SVarEnd(bs, 1) = 0 \/ SVarEnd(bs, 1) > 4 THEN <<-1>>
  ELSE LET e == SVarEnd(bs, 1)  n == SVarVal(bs, 1, e)  out == SElems(bs, e + 1, <<>>) IN
       IF Len(out) # n THEN <<-1>> ELSE out
\* one literal of 9 bytes (tag 32 = (9-1)<<2)
ASSUME SnappyDecode(<<9, 32, 97, 98, 99, 97, 98, 99, 97, 98, 99>>) = <<97, 98, 99, 97, 98, 99, 97, 98, 99>>
\* literal "abc" (tag 8), then copy1 of 6 bytes from 3 back (tag 9 = (6-4)<<2 | 1, offset byte 3): overlapping copy
ASSUME SnappyDecode(<<9, 8, 97, 98, 99, 9, 3>>) = <<97, 98, 99, 97, 98, 99, 97, 98, 99>>
=============================================================================
