--------------------------- MODULE MC_LazyPublish ---------------------------
(* -simulate: one scenario per behaviour: who found the pointer unset (in     *)
(* order of arrival in the read), in which order the reads completed, and who  *)
(* only came after the publication.                                            *)
EXTENDS LazyPublish
VARIABLE fin
mv == <<vars, fin>>
Finish == /\ Finished /\ ~fin /\ fin' = TRUE /\ UNCHANGED vars
          /\ PrintT(<<"SCENARIO", ToJson([n |-> N, arrivals |-> arrivals, releases |-> releases])>>)
SimNext == ((\E p \in Procs : Load(p) \/ Read(p) \/ Cas(p)) /\ fin' = fin /\ ~fin) \/ Finish \/ (fin /\ UNCHANGED mv)
SimSpec == Init /\ fin = FALSE /\ [][SimNext]_mv
=============================================================================
