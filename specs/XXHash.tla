------------------------------- MODULE XXHash -------------------------------
(* XXH64 with seed 0, written from the xxHash specification (the hash the     *)
(* Parquet format prescribes for bloom filters), over sequences of bytes.     *)
(* TLC integers are 32-bit: a 64-bit word is a sequence of 8 bytes, least     *)
(* significant first; all arithmetic is byte-wise with carry, modulo 2^64.    *)
(* TLC evaluates operator arguments by name, every time they are used: each   *)
(* primitive therefore receives its operands through FoldLeft (evaluated by   *)
(* TLC's Java code, which hands the operator concrete values).                *)
EXTENDS Integers, Sequences, Bitwise, Functions, SequencesExt, TLC

W0 == <<0, 0, 0, 0, 0, 0, 0, 0>>
P1 == <<135, 202, 235, 133, 177, 121, 55, 158>>     \* 0x9E3779B185EBCA87
P2 == <<79, 235, 212, 39, 61, 174, 178, 194>>       \* 0xC2B2AE3D27D4EB4F
P3 == <<249, 121, 55, 158, 177, 103, 86, 22>>       \* 0x165667B19E3779F9
P4 == <<99, 174, 178, 194, 119, 202, 235, 133>>     \* 0x85EBCA77C2B2AE63
P5 == <<197, 103, 86, 22, 47, 235, 212, 39>>        \* 0x27D4EB2F165667C5
I8 == <<1, 2, 3, 4, 5, 6, 7, 8>>

Strict1(Op(_), a) == FoldLeft(LAMBDA acc, p : Op(p), 0, <<a>>)
Strict2(Op(_, _), a, b) == FoldLeft(LAMBDA acc, p : Op(p[1], p[2]), 0, << <<a, b>> >>)

\* acc = <<carry, bytes so far>>
Carry(acc, s) == <<(s + acc[1]) \div 256, Append(acc[2], (s + acc[1]) % 256)>>
AddRaw(a, b) == FoldLeft(LAMBDA acc, i : Carry(acc, a[i] + b[i]), <<0, <<>>>>, I8)[2]
Add64(a, b) == Strict2(AddRaw, a, b)

\* column k (0-based) of the schoolbook product: sum of a[i] * b[k - i]
RECURSIVE Col(_, _, _, _)
Col(a, b, k, i) == IF i > k THEN 0 ELSE a[i + 1] * b[k - i + 1] + Col(a, b, k, i + 1)
MulRaw(a, b) == FoldLeft(LAMBDA acc, k : Carry(acc, Col(a, b, k - 1, 0)), <<0, <<>>>>, I8)[2]
Mul64(a, b) == Strict2(MulRaw, a, b)

XorRaw(a, b) == [i \in 1..8 |-> a[i] ^^ b[i]]
Xor64(a, b) == Strict2(XorRaw, a, b)

\* bit k (0 = least significant) of a word
Bit64(a, k) == (a[(k \div 8) + 1] \div (2 ^ (k % 8))) % 2
FromBits(f(_)) == [i \in 1..8 |-> f(8 * (i - 1)) + 2 * f(8 * (i - 1) + 1) + 4 * f(8 * (i - 1) + 2) + 8 * f(8 * (i - 1) + 3)
                                  + 16 * f(8 * (i - 1) + 4) + 32 * f(8 * (i - 1) + 5) + 64 * f(8 * (i - 1) + 6) + 128 * f(8 * (i - 1) + 7)]
RotlRaw(a, r) == FromBits(LAMBDA k : Bit64(a, (k + 64 - r) % 64))
ShrRaw(a, r) == FromBits(LAMBDA k : IF k + r > 63 THEN 0 ELSE Bit64(a, k + r))
Rotl64(a, r) == Strict2(RotlRaw, a, r)
Shr64(a, r) == Strict2(ShrRaw, a, r)

Word(bs, at) == [i \in 1..8 |-> bs[at + i - 1]]                      \* little-endian 64-bit lane at 1-based offset at
Word32(bs, at) == [i \in 1..8 |-> IF i <= 4 THEN bs[at + i - 1] ELSE 0]
OfInt(n) == [i \in 1..8 |-> IF i <= 4 THEN (n \div (2 ^ (8 * (i - 1)))) % 256 ELSE 0]   \* 0 <= n < 2^31

Round(acc, input) == Mul64(Rotl64(Add64(acc, Mul64(input, P2)), 31), P1)
MergeRound(acc, val) == Add64(Mul64(Xor64(acc, Round(W0, val)), P1), P4)

\* two's complement negation of P1 (seed - P1 with seed 0)
NegP1 == Add64([i \in 1..8 |-> 255 - P1[i]], OfInt(1))

\* the four lanes over the 32-byte stripes starting at 1-based offsets ats
Stripes(bs, ats) ==
  FoldLeft(LAMBDA v, at : <<Round(v[1], Word(bs, at)), Round(v[2], Word(bs, at + 8)),
                            Round(v[3], Word(bs, at + 16)), Round(v[4], Word(bs, at + 24))>>,
           <<Add64(P1, P2), P2, W0, NegP1>>, ats)
Steps(from, n, by) == [k \in 1..n |-> from + by * (k - 1)]

Avalanche(h0) ==
  LET h1 == Mul64(Xor64(h0, Shr64(h0, 33)), P2)
      h2 == Mul64(Xor64(h1, Shr64(h1, 29)), P3)
  IN Xor64(h2, Shr64(h2, 32))
Finish(h) == Strict1(Avalanche, h)

XXH64(bs) ==
  LET n == Len(bs)
      ns == n \div 32                                   \* stripes
      v == Stripes(bs, Steps(1, ns, 32))
      h32 == IF ns = 0 THEN P5
             ELSE FoldLeft(LAMBDA h, k : MergeRound(h, v[k]),
                           Add64(Add64(Rotl64(v[1], 1), Rotl64(v[2], 7)), Add64(Rotl64(v[3], 12), Rotl64(v[4], 18))),
                           <<1, 2, 3, 4>>)
      rest == n - 32 * ns
      n8 == rest \div 8
      h8 == FoldLeft(LAMBDA h, at : Add64(Mul64(Rotl64(Xor64(h, Round(W0, Word(bs, at))), 27), P1), P4),
                     Add64(h32, OfInt(n)), Steps(32 * ns + 1, n8, 8))
      at4 == 32 * ns + 8 * n8 + 1
      has4 == at4 + 3 <= n
      h4 == IF has4 THEN Add64(Mul64(Rotl64(Xor64(h8, Mul64(Word32(bs, at4), P1)), 23), P2), P3) ELSE h8
      at1 == IF has4 THEN at4 + 4 ELSE at4
      h1 == FoldLeft(LAMBDA h, at : Mul64(Rotl64(Xor64(h, Mul64(OfInt(bs[at]), P5)), 11), P1), h4, Steps(at1, n - at1 + 1, 1))
  IN Finish(h1)
=============================================================================
