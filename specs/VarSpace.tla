------------------------------ MODULE VarSpace ------------------------------
(* Scenario space of C19: value kinds for the binary encoding; shredding       *)
(* schema x write mode for files (every file holds values of all kinds, so      *)
(* matching, mismatching and partially matching values meet every schema).     *)
EXTENDS Integers, TLC, Json
VARIABLE s
ValKinds == {"null", "true", "false", "int8", "int16", "int32", "int64", "float", "double", "dec4", "dec8", "dec16",
             "date", "ts", "tsntz", "time", "tsns", "tsntzns", "uuid", "binary", "string-short", "string-long", "string-64",
             "obj-empty", "obj-flat", "obj-nested", "obj-many", "arr-empty", "arr-mixed", "arr-obj", "arr-many", "deep"}
Schemas == {"none", "string", "int32", "int64", "double", "float", "boolean", "binary", "date", "obj", "obj-nested",
            "list-int32", "list-obj", "obj-list", "dec-bytes", "dec-flba", "dec-int32", "dec-int64"}
Space == [part : {"enc"}, val : ValKinds, schema : {""}, wmode : {""}, rep : 1..3]
   \cup [part : {"file"}, val : {""}, schema : Schemas, wmode : {"typed", "raw"}, rep : 1..4]
Init == s \in Space
Next == UNCHANGED s
Emit == PrintT(<<"SCENARIO", ToJson(s)>>)
=============================================================================
