CONSTANTS K = 2  MaxInputs = 3  MaxLen = 3  Fix = TRUE
INIT Init
NEXT Next
INVARIANTS OutputSorted OutputComplete
CHECK_DEADLOCK FALSE
