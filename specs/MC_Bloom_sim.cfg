CONSTANTS Tok = {1, 2, 3}  MaxOps = 5  Fix = TRUE
SPECIFICATION SimSpec
CHECK_DEADLOCK FALSE
