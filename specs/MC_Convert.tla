----------------------------- MODULE MC_Convert -----------------------------
(* Universe and self-checks for Convert.tla; scenario emission for C12.      *)
EXTENDS Convert, Json
CONSTANTS MaxList

Reps == {"req", "opt", "rep"}
L(n, r) == [name |-> n, k |-> "leaf", rep |-> r, fields |-> <<>>, lt |-> ""]
G(n, r, fs) == [name |-> n, k |-> "group", rep |-> r, fields |-> fs, lt |-> ""]
\* source schemas: a leaf `a`, a group `b` with leaves x and y
Sources == {G("", "req", << L("a", ra), G("b", rb, << L("x", rx), L("y", ry) >>) >>) :
               ra \in Reps, rb \in Reps, rx \in {"req", "opt"}, ry \in Reps}

\* ---- edits ---------------------------------------------------------------
Swap(fs) == IF Len(fs) = 2 THEN <<fs[2], fs[1]>> ELSE fs
Without(fs, n) == SelectSeq(fs, LAMBDA f : f.name # n)
WithB(s, f(_)) == [s EXCEPT !.fields = [i \in 1..Len(@) |-> IF @[i].name = "b" THEN f(@[i]) ELSE @[i]]]
Edits1(s) ==
  { s,
    [s EXCEPT !.fields = Without(@, "a")], [s EXCEPT !.fields = Without(@, "b")],
    [s EXCEPT !.fields = Swap(@)],
    [s EXCEPT !.fields = Append(@, L("z", "opt"))], [s EXCEPT !.fields = <<L("z", "req")>> \o @],
    [s EXCEPT !.fields = Append(@, G("g", "opt", <<L("p", "req"), L("q", "opt")>>))],
    [s EXCEPT !.fields = Append(@, L("r", "rep"))] }
  \cup (IF Len(Find(s.fields, "b")) = 0 THEN {} ELSE
    { WithB(s, LAMBDA b : [b EXCEPT !.fields = Without(@, "x")]),
      WithB(s, LAMBDA b : [b EXCEPT !.fields = Without(@, "y")]),
      WithB(s, LAMBDA b : [b EXCEPT !.fields = Swap(@)]),
      WithB(s, LAMBDA b : [b EXCEPT !.fields = Append(@, L("w", "opt"))]),
      WithB(s, LAMBDA b : [b EXCEPT !.fields = <<L("w", "req")>> \o @]) })
RECURSIVE UniqueNames(_), NoEmptyGroup(_)
NoEmptyGroup(n) == IsLeaf(n) \/ (Len(n.fields) > 0 /\ \A i \in 1..Len(n.fields) : NoEmptyGroup(n.fields[i]))
UniqueNames(n) == IF IsLeaf(n) THEN TRUE
                  ELSE /\ \A i \in 1..Len(n.fields) : \A j \in (i + 1)..Len(n.fields) : n.fields[i].name # n.fields[j].name
                       /\ \A i \in 1..Len(n.fields) : UniqueNames(n.fields[i])
Targets(s) == {t \in UNION {Edits1(t1) : t1 \in Edits1(s)} : Len(t.fields) > 0 /\ NoEmptyGroup(t) /\ UniqueNames(t)}

SeqsUpTo(S, n) == UNION {[1..m -> S] : m \in 0..n}
RECURSIVE Vals(_), FieldVals(_, _)
FieldVals(fs, i) == IF i > Len(fs) THEN {<<>>} ELSE {<<a>> \o rest : a \in Vals(fs[i]), rest \in FieldVals(fs, i + 1)}
Vals(n) ==
  IF n.rep = "opt" THEN {<<>>} \cup {<<x>> : x \in Vals(Req(n))}
  ELSE IF n.rep = "rep" THEN SeqsUpTo(Vals(Req(n)), MaxList)
  ELSE IF IsLeaf(n) THEN {1}
  ELSE FieldVals(n.fields, 1)

VARIABLES src, tgt, row
Init == src \in Sources /\ tgt \in Targets(src) /\ row \in Vals(src)
Next == UNCHANGED <<src, tgt, row>>

\* self-checks of the requirement operator
IdentityIsNoop == tgt = src => Project(src, tgt, row) = row
\* the exact projection satisfies the monitor's relaxed requirement
StripOfProject == /\ StripReq(src, tgt, Project(src, tgt, row)) = Project(src, Shared(src, tgt), row)
                  /\ AddedCleanReq(src, tgt, Project(src, tgt, row))
ShapeOK == Len(Project(src, tgt, row)) = Len(tgt.fields)
\* projecting then shredding yields one stream per target leaf, rows start at r = 0
StreamsOK == LET s == ShredRow(tgt, Project(src, tgt, row)) IN
             Len(s) = NLeaves(tgt) /\ \A j \in 1..Len(s) : Len(s[j]) > 0 /\ s[j][1][2] = 0
Emit == PrintT(<<"SCENARIO", ToJson([src |-> src, tgt |-> tgt, row |-> row])>>)
=============================================================================
