CONSTANTS MaxLen = 9  MaxOps = 10  Clamp = FALSE  Bug = "none"
SPECIFICATION SimSpec
CHECK_DEADLOCK FALSE
