CONSTANTS NP = 2  MaxOps = 4  Faults = 1  Bug = "none"
SPECIFICATION Spec
INVARIANTS Conforms NoLeak AllReleasedAtEnd SendNeverBlocks
CHECK_DEADLOCK TRUE
