------------------------------ MODULE Ownership ------------------------------
(* Implementation-shaped model of who owns the memory behind values handed to *)
(* the caller (buffer.go buffer[T]/bufferPool, internal/memory slice pools,   *)
(* row_group.go rowGroupRows / column_chunk.go columnChunkValueReader.clear). *)
(*                                                                            *)
(* A column reader decodes one page at a time into a pooled buffer.  Rows     *)
(* returned by ReadRows hold parquet Values that, for byte-array columns,     *)
(* point INTO that buffer.  When the reader moves to the next page - which    *)
(* can happen in the middle of one ReadRows call - the previous page is       *)
(* released: its buffer returns to the pool (Release) or, when the reader     *)
(* was created with detach = TRUE (rowGroupRows does this for BYTE_ARRAY and  *)
(* FIXED_LEN_BYTE_ARRAY columns), is detached from the pool for good.         *)
(* Pooled buffers are overwritten by anyone (Churn).                          *)
(*                                                                            *)
(* Holds: what the caller still looks at.  A hold created by ReadRows is      *)
(* valid until the next call on the same reader; a cloned hold and values     *)
(* filled by typed reads (copied out) are valid forever.                      *)
EXTENDS Integers, Sequences, FiniteSets, TLC

CONSTANTS NB,        \* number of buffers
          MaxOps,
          Detach     \* what newRowGroupRows configures for pointer-carrying columns

VARIABLES state,     \* [1..NB -> {"pooled", "live", "detached", "dirty"}]  dirty = pooled and overwritten
          cur,       \* buffer of the reader's current page, 0 = none
          holds,     \* set of [buf, window] with window \in {"call", "forever"}; buf = 0: copied out
          ops, hist
vars == <<state, cur, holds, ops, hist>>
view == <<state, cur, holds, ops>>

Init == state = [b \in 1..NB |-> "pooled"] /\ cur = 0 /\ holds = {} /\ ops = 0 /\ hist = <<>>

Pooled(b) == state[b] \in {"pooled", "dirty"}
\* holds made by an earlier call on this reader expire when a new call starts
Expire(H) == {h \in H : h.window = "forever"}

Release(st, b) == IF b = 0 THEN st ELSE [st EXCEPT ![b] = IF Detach THEN "detached" ELSE "pooled"]

\* one ReadRows call that stays inside the current page
ReadWithinPage ==
  /\ ops < MaxOps /\ ops' = ops + 1 /\ hist' = Append(hist, "read")
  /\ IF cur = 0
     THEN \E b \in 1..NB : Pooled(b) /\ state' = [state EXCEPT ![b] = "live"] /\ cur' = b
                           /\ holds' = Expire(holds) \cup {[buf |-> b, window |-> "call"]}
     ELSE UNCHANGED <<state, cur>> /\ holds' = Expire(holds) \cup {[buf |-> cur, window |-> "call"]}

\* one ReadRows call that takes the last rows of the current page AND the first rows of the next one:
\* the old page is released while the batch being returned still points into it
ReadAcrossPages ==
  /\ ops < MaxOps /\ ops' = ops + 1 /\ hist' = Append(hist, "readmany") /\ cur # 0
  /\ \E b \in 1..NB : /\ Pooled(b) /\ b # cur
                      /\ state' = [Release(state, cur) EXCEPT ![b] = "live"] /\ cur' = b
                      /\ holds' = Expire(holds) \cup {[buf |-> cur, window |-> "call"], [buf |-> b, window |-> "call"]}

\* the caller clones what it holds (Row.Clone / Value.Clone): independent of any buffer from now on
CloneHolds == /\ ops < MaxOps /\ ops' = ops + 1 /\ hist' = Append(hist, "clone") /\ UNCHANGED <<state, cur>>
              /\ holds' = {[buf |-> 0, window |-> "forever"] : h \in holds} \cup {h \in holds : FALSE}

\* typed read (GenericReader.Read / Read[T]): values are copied into Go values the caller owns
TypedRead == /\ ops < MaxOps /\ ops' = ops + 1 /\ hist' = Append(hist, "typed") /\ UNCHANGED <<state, cur>>
             /\ holds' = Expire(holds) \cup {[buf |-> 0, window |-> "forever"]}

SeekOrClose == /\ ops < MaxOps /\ ops' = ops + 1 /\ hist' = Append(hist, "seek")
               /\ state' = Release(state, cur) /\ cur' = 0 /\ holds' = Expire(holds)

\* unrelated activity in the process takes a pooled buffer and writes to it
Churn == /\ ops < MaxOps /\ ops' = ops + 1 /\ hist' = Append(hist, "churn")
         /\ \E b \in 1..NB : state[b] = "pooled" /\ state' = [state EXCEPT ![b] = "dirty"]
         /\ UNCHANGED <<cur, holds>>

Next == ReadWithinPage \/ ReadAcrossPages \/ CloneHolds \/ TypedRead \/ SeekOrClose \/ Churn
Spec == Init /\ [][Next]_vars

\* requirement (C16): nothing the caller may still look at lives in pooled memory
HeldMemoryIsNotPooled == \A h \in holds : h.buf # 0 => ~Pooled(h.buf)
=============================================================================
