------------------------------ MODULE Encryption ------------------------------
(* Parquet modular encryption as implemented by parquet-go (encrypt.go,          *)
(* writer.go :2217/:2522/:2614, file.go :1500-1607).  Every module (page header, *)
(* page body, dictionary page, column index, ...) is an AES-GCM envelope whose    *)
(* additional authenticated data is                                               *)
(*      AAD = <<file identifier, module type, row group, column, page ordinal>>.  *)
(* Decrypting the bytes found at a position succeeds iff they were produced      *)
(* with the key and the AAD the reader computes for that position.                *)
(*                                                                                *)
(* Implementation-shaped part: the page reader does not store ordinals in the     *)
(* stream, it COUNTS them (dataPageOrd).  One column chunk with an optional        *)
(* dictionary page and NP data pages; reader actions as in PageReader.tla:        *)
(* sequential reads, SeekToRow with an offset index (ordinal := target page),     *)
(* SeekToRow without index (stream back to the first data page, ordinal := 0).    *)
(* Tampering: the envelope stored at one position is replaced by another          *)
(* envelope (swapped with another page, transplanted from another file, another   *)
(* column or another row group) or has bits flipped.                              *)
EXTENDS Integers, Sequences, FiniteSets, TLC

CONSTANTS NP, MaxOps, Tampers      \* Tampers: subset of {"none", "flip", "swap", "otherfile", "othercol", "otherrg"}

\* what is stored at data page position p (0-based): the envelope's own AAD coordinates, or "garbage"
Genuine(p) == [file |-> 1, rg |-> 0, col |-> 0, page |-> p, ok |-> TRUE]

VARIABLES stored,   \* [0..NP-1 -> envelope]
          tamper,   \* [kind, at]
          phys, ord, hasIndex,
          out, ops
vars == <<stored, tamper, phys, ord, hasIndex, out, ops>>

Tampered(kind, at, other) ==
  CASE kind = "none"      -> [p \in 0..(NP - 1) |-> Genuine(p)]
    [] kind = "flip"      -> [p \in 0..(NP - 1) |-> IF p = at THEN [Genuine(p) EXCEPT !.ok = FALSE] ELSE Genuine(p)]
    [] kind = "swap"      -> [p \in 0..(NP - 1) |-> IF p = at THEN Genuine(other) ELSE IF p = other THEN Genuine(at) ELSE Genuine(p)]
    [] kind = "otherfile" -> [p \in 0..(NP - 1) |-> IF p = at THEN [Genuine(p) EXCEPT !.file = 2] ELSE Genuine(p)]
    [] kind = "othercol"  -> [p \in 0..(NP - 1) |-> IF p = at THEN [Genuine(p) EXCEPT !.col = 1] ELSE Genuine(p)]
    [] kind = "otherrg"   -> [p \in 0..(NP - 1) |-> IF p = at THEN [Genuine(p) EXCEPT !.rg = 1] ELSE Genuine(p)]

Init == /\ \E kind \in Tampers : \E at \in 0..(NP - 1) : \E other \in 0..(NP - 1) :
             /\ (kind = "swap" => other # at) /\ (kind # "swap" => other = at)
             /\ tamper = [kind |-> kind, at |-> at, other |-> other]
             /\ stored = Tampered(kind, at, other)
        /\ hasIndex \in BOOLEAN
        /\ phys = 0 /\ ord = 0 /\ out = <<>> /\ ops = 0

\* the reader decrypts what it finds at the physical position with the AAD built from its own counters
DecryptOK(p, o) == stored[p].ok /\ stored[p] = [Genuine(o) EXCEPT !.ok = TRUE]

ReadPage ==
  /\ ops < MaxOps /\ ops' = ops + 1 /\ UNCHANGED <<stored, tamper, hasIndex>>
  /\ IF phys >= NP THEN out' = Append(out, <<"eof", phys>>) /\ UNCHANGED <<phys, ord>>
     ELSE IF DecryptOK(phys, ord)
          THEN out' = Append(out, <<"page", phys>>) /\ phys' = phys + 1 /\ ord' = ord + 1
          ELSE out' = Append(out, <<"error", phys>>) /\ UNCHANGED <<phys, ord>>

Seek(p) ==
  /\ ops < MaxOps /\ ops' = ops + 1 /\ UNCHANGED <<stored, tamper, hasIndex, out>>
  /\ IF hasIndex THEN phys' = p /\ ord' = p                    \* file.go:1602-1607
     ELSE phys' = 0 /\ ord' = 0                                \* file.go:1555-1569 (rows skipped by ReadPage)

Next == ReadPage \/ \E p \in 0..(NP - 1) : Seek(p)
Spec == Init /\ [][Next]_vars

\* (i) an untampered file is readable along every access path: the counted ordinal is the page's ordinal
OrdinalsAgree == ord = phys
RoundTrip == tamper.kind = "none" => \A i \in 1..Len(out) : out[i][1] # "error"
\* (ii) a page delivered is always the genuine page of that position - tampering never yields data
Authentic == \A i \in 1..Len(out) : out[i][1] = "page" => stored[out[i][2]] = Genuine(out[i][2])
=============================================================================
