---------------------------- MODULE PageReader ----------------------------
(* Implementation-shaped model of parquet-go's FilePages (file.go):           *)
(*   SeekToRow  file.go:1550-1636     ReadPage  file.go:1169-1321             *)
(* One action per exit of SeekToRow, one per way a page leaves ReadPage.      *)
(*                                                                            *)
(* Model state mirrors the Go fields:                                         *)
(*   index     f.index          page number the reader BELIEVES comes next    *)
(*   phys      (the section/bufio position) page the byte stream really is at *)
(*   lastIdx   f.lastPageIndex  believed number of the cached page, -1 = none *)
(*   lastPhys  f.lastPage       which page's rows the cached page really holds*)
(*   serve     f.serveLastPage                                                *)
(*   skip      f.skip                                                         *)
(* plus the abstract variable                                                 *)
(*   want      the row a correct reader must deliver next (C08's `pos`)       *)
(* and the observation variables ok / hist (hidden by the VIEW).              *)
(*                                                                            *)
(* The configuration (page layout, offset index present or not) is a          *)
(* VARIABLE chosen in Init so one TLC run covers a family of files and the    *)
(* trace spec can rebind it per trace.                                        *)
(*                                                                            *)
(* Fix = FALSE is the code as found at the pinned snapshot; Fix = TRUE is the *)
(* code after the "fix:" commit (serveLastPage cleared by every seek, and the *)
(* same-page shortcut taken only when the stream is positioned right after    *)
(* the cached page).                                                          *)
EXTENDS Integers, Sequences, FiniteSets, TLC

CONSTANTS Layouts,     \* set of page layouts: sequences of rows-per-page
          IndexModes,  \* subset of BOOLEAN: offset index present?
          MaxRow,      \* constant superset bound for Seek arguments (edge labels need constants)
          MaxOps,      \* bound on history length
          Fix

VARIABLES cfg, index, phys, lastIdx, lastPhys, serve, skip, want, ok, hist
vars == <<cfg, index, phys, lastIdx, lastPhys, serve, skip, want, ok, hist>>
view == <<cfg, index, phys, lastIdx, lastPhys, serve, skip, want, ok>>   \* MaxOps is set beyond the diameter in the exhaustive configurations: the history never bounds them

PageRows == cfg.pageRows
NP       == Len(PageRows)
RECURSIVE SumTo(_, _)
SumTo(pr, p) == IF p = 0 THEN 0 ELSE SumTo(pr, p - 1) + pr[p]
First(p) == SumTo(PageRows, p)          \* first row of 0-based page p
Rows(p)  == PageRows[p + 1]
Total    == SumTo(PageRows, NP)

Init == /\ cfg \in [pageRows : Layouts, hasIndex : IndexModes]
        /\ index = 0 /\ phys = 0 /\ lastIdx = -1 /\ lastPhys = -1
        /\ serve = FALSE /\ skip = 0 /\ want = 0 /\ ok = TRUE /\ hist = <<>>

\* offset-index lookup: sort.Search(... FirstRowIndex > k) - 1
Target(k) == CHOOSE p \in 0..(NP - 1) : First(p) <= k /\ (p = NP - 1 \/ First(p + 1) > k)

Logged(op) == hist' = Append(hist, op)

----------------------------------------------------------------------------
(* SeekToRow, one action per exit *)

SeekNoIndex(k) ==                                   \* file.go:1555-1569
  /\ ~cfg.hasIndex
  /\ phys' = 0 /\ index' = 0 /\ skip' = k
  /\ UNCHANGED <<lastIdx, lastPhys, serve>>

SeekSamePage(k) ==                                  \* file.go:1592-1595
  /\ cfg.hasIndex
  /\ lastIdx # -1 /\ Target(k) = lastIdx
  /\ (Fix => index = lastIdx + 1)
  /\ skip' = k - First(Target(k))
  /\ serve' = TRUE
  /\ UNCHANGED <<index, phys, lastIdx, lastPhys>>

SeekAlreadyPositioned(k) ==                         \* file.go:1598-1600
  /\ cfg.hasIndex
  /\ ~(lastIdx # -1 /\ Target(k) = lastIdx /\ (Fix => index = lastIdx + 1))
  /\ index = Target(k)
  /\ skip' = k - First(Target(k))
  /\ serve' = (IF Fix THEN FALSE ELSE serve)      \* as found: the flag survives this exit
  /\ UNCHANGED <<index, phys, lastIdx, lastPhys>>

SeekMove(k) ==                                      \* file.go:1602-1634 (discard in buffer / section seek)
  /\ cfg.hasIndex
  /\ ~(lastIdx # -1 /\ Target(k) = lastIdx /\ (Fix => index = lastIdx + 1))
  /\ index # Target(k)
  /\ skip' = k - First(Target(k))
  /\ index' = Target(k) /\ phys' = Target(k)
  /\ serve' = (IF Fix THEN FALSE ELSE serve)
  /\ UNCHANGED <<lastIdx, lastPhys>>

Seek(k) ==
  /\ Len(hist) < MaxOps
  /\ k <= Total
  /\ (SeekNoIndex(k) \/ SeekSamePage(k) \/ SeekAlreadyPositioned(k) \/ SeekMove(k))
  /\ want' = k
  /\ UNCHANGED <<cfg, ok>>
  /\ Logged([op |-> "seek", k |-> k])

----------------------------------------------------------------------------
(* ReadPage *)

\* the sequential loop of ReadPage from stream page p, believed index i, skip s:
\* returns <<kind, physPage, startInPage, believedIndexOfThatPage, remainingSkip>>
RECURSIVE Scan(_, _, _)
Scan(p, i, s) ==
  IF p >= NP THEN <<"EOF", p, 0, i, s>>
  ELSE IF s > 0 /\ Rows(p) <= s THEN Scan(p + 1, i + 1, s - Rows(p))   \* DropWholePage
  ELSE <<"PAGE", p, s, i, 0>>                                          \* ReturnPage / ReturnSliceAfterSkip

ReadServeLast ==                                    \* file.go:1179-1188
  /\ serve /\ lastIdx # -1 /\ skip < Rows(lastPhys)
  /\ serve' = FALSE /\ index' = lastIdx + 1 /\ skip' = 0
  /\ ok' = (ok /\ want = First(lastPhys) + skip)
  /\ want' = First(lastPhys) + Rows(lastPhys)
  /\ UNCHANGED <<phys, lastIdx, lastPhys>>

ReadLoop ==                                         \* file.go:1190-1320
  LET viaServe == serve /\ lastIdx # -1             \* fall through: skip -= numRows
      i0 == IF viaServe THEN lastIdx + 1 ELSE index
      s0 == IF viaServe THEN skip - Rows(lastPhys) ELSE skip
      r  == Scan(phys, i0, s0)
  IN /\ ~(serve /\ lastIdx # -1 /\ skip < Rows(lastPhys))
     /\ serve' = FALSE
     /\ IF r[1] = "EOF"
        THEN /\ phys' = r[2] /\ index' = r[4] /\ skip' = r[5]
             /\ IF r[2] > phys                      \* dropped pages were cached on the way
                THEN lastIdx' = r[4] - 1 /\ lastPhys' = r[2] - 1
                ELSE UNCHANGED <<lastIdx, lastPhys>>
             /\ ok' = (ok /\ want = Total)
             /\ want' = want
        ELSE /\ phys' = r[2] + 1 /\ index' = r[4] + 1 /\ skip' = 0
             /\ lastIdx' = r[4] /\ lastPhys' = r[2]
             /\ ok' = (ok /\ want = First(r[2]) + r[3])
             /\ want' = First(r[2]) + Rows(r[2])

ReadPage ==
  /\ Len(hist) < MaxOps
  /\ (ReadServeLast \/ ReadLoop)
  /\ UNCHANGED cfg
  /\ Logged([op |-> "read"])

Next == ReadPage \/ \E k \in 0..MaxRow : Seek(k)
Spec == Init /\ [][Next]_vars

----------------------------------------------------------------------------
(* Requirement (C08): every page delivered starts at the row a sequential     *)
(* reader positioned by the last seek would deliver next; EOF only at the end.*)
Conforms == ok

(* Refinement facts the code relies on; they hold for Fix = TRUE.            *)
StreamAgrees == (~serve) => phys = index           \* believed and real position agree
CacheAgrees  == lastIdx = lastPhys                 \* the cached page is the page it is believed to be
=============================================================================
