CONSTANTS NB = 3  MaxOps = 8  Detach = TRUE
SPECIFICATION SimSpec
CHECK_DEADLOCK FALSE
