------------------------------- MODULE EncScen -------------------------------
(* Scenario space of C18: option vectors x the tamper kinds of Encryption.tla  *)
(* (plus key faults and truncation) x target page x access path x whether the   *)
(* file is the second one of a writer reused through Reset.                    *)
EXTENDS Integers, TLC, Json
VARIABLE s
Space == [mode : {"encfooter", "plainfooter"}, keys : {"footer", "percol"}, ver : {1, 2}, codec : {"none", "snappy"},
          dict : BOOLEAN, tamper : {"none", "flip", "swap", "otherfile", "othercol", "otherrg", "wrongkey", "nokey", "truncate"},
          at : 0..2, path : {"seq", "seek", "readseek"}, index : BOOLEAN, fid : {"explicit", "default"}, reuse : BOOLEAN]
Init == s \in Space
Next == UNCHANGED s
Emit == PrintT(<<"SCENARIO", ToJson(s)>>)
=============================================================================
