CONSTANTS MaxOps = 6  Fix = FALSE
SPECIFICATION Spec
INVARIANT ResetIsFresh
VIEW view
CHECK_DEADLOCK FALSE
