CONSTANTS
  Cols = {1, 2}
  BatchSizes = {1, 2, 3, 65, 130}
  Cfgs <- CfgsFull
  MaxOps = 7
SPECIFICATION SimSpec
CHECK_DEADLOCK FALSE
