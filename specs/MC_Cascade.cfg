INIT Init
NEXT Next
INVARIANTS ChosenIsAllowed WrappersNeverBypassed
CHECK_DEADLOCK FALSE
