------------------------------ MODULE DremelGen ------------------------------
(* Scenario generator for the static Go type catalogue (C03, C01): the schema *)
(* trees exported by `vh c03-catalogue` are read from catalogue.ndjson and    *)
(* random value trees are drawn for them (TLC's RandomElement, seeded by      *)
(* -seed).  Run with -simulate; one scenario is printed per step.             *)
EXTENDS Dremel, TLC, Json

CONSTANTS MaxList, MaxRows, PerType
Catalogue == ndJsonDeserialize("catalogue.ndjson")

RECURSIVE RandVal(_), RandSeq(_, _)
RandSeq(n, k) == IF k = 0 THEN <<>> ELSE <<RandVal(Req(n))>> \o RandSeq(n, k - 1)
RandVal(n) ==
  IF n.rep = "opt" THEN (IF n.lt # "ZSTRUCT" /\ RandomElement(0..2) = 0 THEN <<>> ELSE <<RandVal(Req(n))>>)
  ELSE IF n.rep = "rep" THEN RandSeq(n, RandomElement(0..MaxList))
  ELSE IF IsLeaf(n) THEN 1
  ELSE LET RECURSIVE F(_)
           F(i) == IF i > Len(n.fields) THEN <<>> ELSE <<RandVal(n.fields[i])>> \o F(i + 1)
       IN F(1)

RECURSIVE RandRows(_, _)
RandRows(schema, k) == IF k = 0 THEN <<>> ELSE <<RandVal(schema)>> \o RandRows(schema, k - 1)

VARIABLES t, c
Init == t = 1 /\ c = 0
Next == /\ t <= Len(Catalogue)
        /\ PrintT(<<"SCENARIO", ToJson([type |-> Catalogue[t].name,
                                        rows |-> RandRows(Catalogue[t].schema, RandomElement(1..MaxRows))])>>)
        /\ IF c + 1 >= PerType THEN t' = t + 1 /\ c' = 0 ELSE t' = t /\ c' = c + 1
Spec == Init /\ [][Next]_<<t, c>>
=============================================================================
