CONSTANTS V = 3  MaxPages = 3  MaxVals = 2  Fix = TRUE
INIT Init
NEXT Next
INVARIANTS ChunkBounds PageBoundsOK
CHECK_DEADLOCK FALSE
