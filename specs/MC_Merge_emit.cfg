CONSTANTS K = 2  MaxInputs = 3  MaxLen = 2  Fix = TRUE
INIT Init
NEXT Next
INVARIANTS Emit
CHECK_DEADLOCK FALSE
