----------------------------- MODULE PageBuffer -----------------------------
(* The page buffers a writer obtains from a BufferPool (buffer_pool.go,       *)
(* internal/memory/buffer.go, os.File for the file pool): an                  *)
(* io.ReadWriteSeeker over one byte sequence with one position, used by the   *)
(* writer as  Write* ; Seek(0, start) ; WriteTo | Read* ; PutBuffer.          *)
(*                                                                            *)
(* The operations are written as functions of the abstract state              *)
(*   st = [data |-> sequence of bytes, pos |-> offset of the next byte]       *)
(* so that the monitor (BufMon) and the model (MC_PageBuffer) share them.     *)
(* Deliberate deviation of the in-memory buffers, named here: Seek beyond     *)
(* the end is clamped to the end (Clamp = TRUE); files keep the position and  *)
(* a later Write fills the gap with zeros.                                    *)
EXTENDS Integers, Sequences

MinOf(a, b) == IF a < b THEN a ELSE b
MaxOf(a, b) == IF a > b THEN a ELSE b

Fresh == [data |-> <<>>, pos |-> 0]

\* bytes p stored at offset pos: overwrites what is there, extends, zero-fills a gap
Overwrite(data, pos, p) ==
  LET n == MaxOf(Len(data), pos + Len(p)) IN
  [i \in 1..n |-> IF i > pos /\ i <= pos + Len(p) THEN p[i - pos]
                  ELSE IF i <= Len(data) THEN data[i] ELSE 0]

Write(st, p) == IF Len(p) = 0 THEN st
                ELSE [data |-> Overwrite(st.data, st.pos, p), pos |-> st.pos + Len(p)]

Avail(st) == IF st.pos >= Len(st.data) THEN 0 ELSE Len(st.data) - st.pos

\* io.Reader: a read into k bytes that delivered `got`, with or without io.EOF
ReadOk(st, k, got, eof) ==
  IF k = 0 THEN Len(got) = 0 /\ ~eof
  ELSE IF Avail(st) = 0 THEN Len(got) = 0 /\ eof
  ELSE /\ Len(got) \in 1..MinOf(k, Avail(st))
       /\ got = SubSeq(st.data, st.pos + 1, st.pos + Len(got))
       /\ (eof => Len(got) = Avail(st))
AfterRead(st, n) == [st EXCEPT !.pos = @ + n]

SeekTarget(st, off, wh) == CASE wh = 0 -> off [] wh = 1 -> st.pos + off [] OTHER -> Len(st.data) + off
SeekFails(st, off, wh) == wh \notin {0, 1, 2} \/ SeekTarget(st, off, wh) < 0
Seek(st, off, wh, clamp) ==
  IF SeekFails(st, off, wh) THEN st
  ELSE LET t == SeekTarget(st, off, wh) IN
       [st EXCEPT !.pos = IF clamp /\ t > Len(st.data) THEN Len(st.data) ELSE t]

\* io.WriterTo: everything from the position to the end, position left at the end
Rest(st) == IF Avail(st) = 0 THEN <<>> ELSE SubSeq(st.data, st.pos + 1, Len(st.data))
AfterWriteTo(st) == [st EXCEPT !.pos = MaxOf(@, Len(st.data))]
=============================================================================
