------------------------------- MODULE Writer -------------------------------
(* Content layer of parquet-go's writer (writer.go): where do rows go.        *)
(*   GenericWriter.Write :251-281, ConcurrentRowGroupWriter.writeRows         *)
(*   :1028-1061 (chunks of <=64 rows, <= maxRows - numRows), writer.WriteRows *)
(*   :1835 (ErrTooManyRowGroups -> flush -> continue), writer.flush /         *)
(*   writeRowGroup (no-op on 0 rows), ColumnWriter.Flush :2084 (page cut,     *)
(*   no-op on an empty buffer), Close.                                        *)
(* Rows are identified by their position in the accepted sequence; a row      *)
(* group is a sequence of page-size lists per column.                         *)
(*                                                                            *)
(* State                                                                      *)
(*   cfg       [maxRows |-> 0 (unlimited) | n]  plus free option fields that  *)
(*             do not influence the content layer (concretised by the harness)*)
(*   cur       rows in the open row group (rg.numRows)                        *)
(*   pend[c]   rows buffered in column c, not yet in a page                   *)
(*   pages[c]  row counts of the pages written for column c in the open group *)
(*   rgs       committed row groups: [rows, pages]                            *)
(*   accepted  rows acknowledged by Write so far                              *)
EXTENDS WriterOps, TLC

CONSTANTS Cols,        \* set of abstract columns, e.g. 1..2
          BatchSizes,  \* sizes Write may be called with
          Cfgs,        \* set of configuration records
          MaxOps

VARIABLES cfg, cur, pend, pages, rgs, accepted, closed, hist
vars == <<cfg, cur, pend, pages, rgs, accepted, closed, hist>>
\* the history itself is observation only, but its length bounds the behaviour (MaxOps), so the length is part of the view
view == <<cfg, cur, pend, pages, rgs, accepted, closed, Len(hist)>>

Limit == IF cfg.maxRows = 0 THEN 1000000 ELSE cfg.maxRows

Init == /\ cfg \in Cfgs
        /\ cur = 0 /\ pend = [c \in Cols |-> 0] /\ pages = [c \in Cols |-> <<>>]
        /\ rgs = <<>> /\ accepted = 0 /\ closed = FALSE /\ hist = <<>>

St == [cur |-> cur, pend |-> pend, pages |-> pages, rgs |-> rgs]
Set(st) == cur' = st.cur /\ pend' = st.pend /\ pages' = st.pages /\ rgs' = st.rgs

Logged(op) == hist' = Append(hist, op)

Write(n) == /\ ~closed /\ Len(hist) < MaxOps
            /\ Set(WriteN(St, n, Limit)) /\ accepted' = accepted + n
            /\ UNCHANGED <<cfg, closed>> /\ Logged([op |-> "write", n |-> n])
\* explicit ColumnWriter.Flush: cut a page for column c (no-op on an empty buffer)
ColumnFlush(c) == /\ ~closed /\ Len(hist) < MaxOps
                  /\ LET r == CutPage(pend, pages, c) IN pend' = r[1] /\ pages' = r[2]
                  /\ UNCHANGED <<cfg, cur, rgs, accepted, closed>> /\ Logged([op |-> "colflush", c |-> c])
Flush == /\ ~closed /\ Len(hist) < MaxOps
         /\ Set(FlushRG(St)) /\ UNCHANGED <<cfg, accepted, closed>> /\ Logged([op |-> "flush"])
Close == /\ ~closed /\ Len(hist) < MaxOps
         /\ Set(FlushRG(St)) /\ closed' = TRUE /\ UNCHANGED <<cfg, accepted>> /\ Logged([op |-> "close"])

Next == Flush \/ Close \/ (\E n \in BatchSizes : Write(n)) \/ (\E c \in Cols : ColumnFlush(c))
Spec == Init /\ [][Next]_vars

\* ---- requirement (C01 content layer) ---------------------------------------
RowsOf(g) == g.rows
Conserved == Sum([i \in 1..Len(rgs) |-> rgs[i].rows]) + cur = accepted
GroupsOK == \A i \in 1..Len(rgs) : rgs[i].rows > 0 /\ rgs[i].rows <= Limit
PagesPartition == \A i \in 1..Len(rgs) : \A c \in Cols : Sum(rgs[i].pages[c]) = rgs[i].rows
                     /\ \A j \in 1..Len(rgs[i].pages[c]) : rgs[i].pages[c][j] > 0
OpenOK == \A c \in Cols : Sum(pages[c]) + pend[c] = cur
ClosedComplete == closed => cur = 0 /\ Sum([i \in 1..Len(rgs) |-> rgs[i].rows]) = accepted
=============================================================================
