------------------------------ MODULE CryptoMon ------------------------------
(* VERDICT monitor for C18.                                                   *)
(*   Init   mode, expect (row tokens of the file)                              *)
(*   Round  path, rows, err, panic      read of the untampered file with keys  *)
(*   Leak   what, found                 plaintext marker search in raw bytes   *)
(*   Tamper kind, module, needed, rows, err, panic                             *)
(*          needed = 1: the read cannot be answered without the tampered       *)
(*          module (or the missing / wrong key)                                *)
(* Requirement: round trips return exactly the rows; no marker in the bytes;   *)
(* a read that needs a tampered module fails; any other read returns the       *)
(* right rows or fails - never other rows; nothing panics.                     *)
EXTENDS Integers, Sequences, TLC, Json
CONSTANT TraceFile
Trace == ndJsonDeserialize(TraceFile)
VARIABLES l, expect, bad, cnt
vars == <<l, expect, bad, cnt>>
E == Trace[l]
MaxBad == 300
Flag(c) ==
  /\ bad' = (IF Len(bad) < MaxBad THEN Append(bad, <<E.t, E.i, c>>) ELSE bad)
  /\ cnt' = [cnt EXCEPT !.flagged = @ + 1]
Ok(f) == bad' = bad /\ cnt' = [cnt EXCEPT ![f] = @ + 1]
Init == l = 1 /\ expect = <<>> /\ bad = <<>> /\ cnt = [traces |-> 0, rounds |-> 0, leaks |-> 0, tampers |-> 0, rejected |-> 0, flagged |-> 0]
Step ==
  /\ l <= Len(Trace) /\ l' = l + 1
  /\ CASE E.ev = "Init" -> expect' = E.expect /\ bad' = bad /\ cnt' = [cnt EXCEPT !.traces = @ + 1]
       [] E.ev = "Round" ->
            /\ expect' = expect
            /\ IF E.panic = 1 THEN Flag("panic")
               ELSE IF E.err = 1 THEN Flag("roundtrip-error")
               ELSE IF E.rows # E.want THEN Flag("roundtrip-rows")
               \* meta: per row group, 1 iff the column metadata obtained with the keys names the column, its type and codec
               ELSE IF \E g \in 1..Len(E.meta) : E.meta[g] = 0 THEN Flag("column-metadata-lost")
               ELSE Ok("rounds")
       [] E.ev = "Leak" ->
            /\ expect' = expect
            /\ IF E.found = 1 THEN Flag("plaintext-" \o E.what) ELSE Ok("leaks")
       [] E.ev = "Tamper" ->
            /\ expect' = expect
            /\ IF E.panic = 1 THEN Flag("panic")
               ELSE IF E.err = 1 THEN bad' = bad /\ cnt' = [cnt EXCEPT !.tampers = @ + 1, !.rejected = @ + 1]
               ELSE IF E.needed = 1 THEN Flag("accepted-" \o E.kind)
               ELSE IF E.rows # E.want THEN Flag("altered-rows-" \o E.kind)
               ELSE Ok("tampers")
Spec == Init /\ [][Step]_vars
Done == l = Len(Trace) + 1 =>
          PrintT(<<"VERDICT", ToJson([consumed |-> l - 1, bad |-> bad, cnt |-> cnt])>>)
=============================================================================
