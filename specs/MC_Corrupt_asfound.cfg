CONSTANTS NP = 3  MaxOps = 5  Fix = FALSE
SPECIFICATION Spec
INVARIANT NeverReturned
CHECK_DEADLOCK FALSE
