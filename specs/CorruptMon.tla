----------------------------- MODULE CorruptMon -----------------------------
(* VERDICT monitor for C13 (and the read side of C14/C18): seek/read traces  *)
(* on a file in which the stored body of one page was altered.               *)
(*   Init  items, rowStart  as in SeekMon                                    *)
(*         taint : 0/1 per item - the item lies in a row range served by a   *)
(*                 tainted page of a column this reader reads                *)
(*   Seek  k, err     Read  n, got, eof, err, corrupt (the error is an       *)
(*                          ErrCorrupted), panic                             *)
(* Requirement: no panic; a read never delivers an item of a tainted page;   *)
(* what is delivered with a nil error is exactly the sequential content; an  *)
(* error raised where tainted items were due must identify corruption.       *)
EXTENDS Integers, Sequences, TLC, Json
CONSTANT TraceFile
Trace == ndJsonDeserialize(TraceFile)
VARIABLES l, items, rowStart, taint, pos, bad, cnt
vars == <<l, items, rowStart, taint, pos, bad, cnt>>
E == Trace[l]
MaxBad == 300
Flag(c) ==
  /\ bad' = (IF Len(bad) < MaxBad THEN Append(bad, <<E.t, E.i, c>>) ELSE bad)
  /\ cnt' = [cnt EXCEPT !.flagged = @ + 1]
Tainted(a, b) == \E j \in (a + 1)..b : j <= Len(taint) /\ taint[j] = 1      \* items a+1..b (1-based)

ReadClass(e) ==
  IF e.panic = 1 THEN "panic"
  ELSE IF e.err = 1 THEN
       \* an error: acceptable wherever the reader is; if tainted data was due next it must say "corrupted"
       IF pos < Len(items) /\ taint[pos + 1] = 1 /\ e.corrupt = 0 THEN "error-not-corruption" ELSE "ok-error"
  ELSE IF Len(e.got) > Len(items) - pos \/ e.got # SubSeq(items, pos + 1, pos + Len(e.got)) THEN
       (IF Tainted(pos, pos + (IF Len(e.got) = 0 THEN 1 ELSE Len(e.got))) THEN "corrupt-data-returned" ELSE "rows-from-pos")
  ELSE IF Tainted(pos, pos + Len(e.got)) THEN "tainted-page-returned"
  ELSE IF e.eof = 1 /\ pos + Len(e.got) # Len(items) THEN "early-eof"
  ELSE "ok"

Init == /\ l = 1 /\ items = <<>> /\ rowStart = <<0>> /\ taint = <<>> /\ pos = -1 /\ bad = <<>>
        /\ cnt = [traces |-> 0, reads |-> 0, detected |-> 0, vacuous |-> 0, flagged |-> 0]
Step ==
  /\ l <= Len(Trace) /\ l' = l + 1
  /\ CASE E.ev = "Init" ->
            /\ items' = E.items /\ rowStart' = E.rowStart /\ taint' = E.taint /\ pos' = 0 /\ bad' = bad
            /\ cnt' = [cnt EXCEPT !.traces = @ + 1]
       [] E.ev = "Fatal" ->   \* the process died inside the library (a panic in a goroutine of its own)
            /\ UNCHANGED <<items, rowStart, taint>> /\ pos' = -1 /\ Flag("fatal")
       [] E.ev = "Seek" ->
            /\ UNCHANGED <<items, rowStart, taint>>
            /\ IF E.panic = 1 THEN pos' = -1 /\ Flag("panic")
               ELSE /\ UNCHANGED <<bad, cnt>>
                    /\ pos' = (IF E.err = 0 /\ E.k + 1 <= Len(rowStart) THEN rowStart[E.k + 1] ELSE -1)
       [] E.ev = "Read" ->
            /\ UNCHANGED <<items, rowStart, taint>>
            /\ IF pos = -1 THEN
                 (IF E.panic = 1 THEN pos' = -1 /\ Flag("panic")
                  ELSE pos' = -1 /\ bad' = bad /\ cnt' = [cnt EXCEPT !.vacuous = @ + 1])
               ELSE LET c == ReadClass(E) IN
                    IF c = "ok" THEN pos' = pos + Len(E.got) /\ bad' = bad /\ cnt' = [cnt EXCEPT !.reads = @ + 1]
                    ELSE IF c = "ok-error" THEN pos' = -1 /\ bad' = bad /\ cnt' = [cnt EXCEPT !.detected = @ + 1]
                    ELSE pos' = -1 /\ Flag(c)
Spec == Init /\ [][Step]_vars
Done == l = Len(Trace) + 1 =>
          PrintT(<<"VERDICT", ToJson([consumed |-> l - 1, bad |-> bad, cnt |-> cnt])>>)
=============================================================================
