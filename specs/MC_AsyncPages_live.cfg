CONSTANTS NP = 2  MaxOps = 3  Faults = 1  Bug = "none"
SPECIFICATION FairSpec
PROPERTIES ReadReturns CloseReturns ReaderExits SeekReturns
CHECK_DEADLOCK TRUE
