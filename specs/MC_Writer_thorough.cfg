CONSTANTS
  Cols = {1, 2}
  BatchSizes = {1, 2, 3}
  Cfgs <- CfgsQuick
  MaxOps = 7
SPECIFICATION Spec
INVARIANTS Conserved GroupsOK PagesPartition OpenOK ClosedComplete
VIEW view
CHECK_DEADLOCK FALSE
