------------------------------ MODULE RowGroups ------------------------------
(* Concurrently filled row groups, committed serially (writer.go:336-375,       *)
(* :989 Commit).  N ConcurrentRowGroupWriters belong to one Writer.  Each is     *)
(* filled by its own goroutine: WriteRows first stages the values of the batch  *)
(* in the row group's scratch (`rg.values`), then appends them to its column    *)
(* writers - two steps, so that interleavings between row groups are explored.  *)
(* The owner of the Writer may write rows to the Writer itself and commits row  *)
(* groups one at a time; Commit first flushes the Writer's own pending rows,    *)
(* then appends the row group to the file and leaves it empty for reuse.        *)
(* Requirement: the file is what the same calls produce when the row groups     *)
(* are filled one after the other - it depends on the commit order only.        *)
(* Bug = "shared": the scratch is shared between row groups.                    *)
EXTENDS Integers, Sequences, FiniteSets, TLC
CONSTANTS N, MaxBatches, MaxCommits, Bug
RGs == 1..N
VARIABLES buf, scratch, staged, nb, mainbuf, file, expect, ebuf, hist, ncommit
vars == <<buf, scratch, staged, nb, mainbuf, file, expect, ebuf, hist, ncommit>>

Sc(i) == IF Bug = "shared" THEN 1 ELSE i

Init == /\ buf = [i \in RGs |-> <<>>] /\ scratch = [i \in RGs |-> <<>>] /\ staged = [i \in RGs |-> FALSE]
        /\ nb = 0 /\ mainbuf = <<>> /\ file = <<>> /\ expect = <<>> /\ ebuf = [i \in RGs |-> <<>>]
        /\ hist = <<>> /\ ncommit = 0

\* WriteRows step 1: stage batch b (a fresh batch number) into the scratch
Stage(i) == /\ ~staged[i] /\ nb < MaxBatches
            /\ nb' = nb + 1
            /\ scratch' = [scratch EXCEPT ![Sc(i)] = <<nb + 1>>]
            /\ staged' = [staged EXCEPT ![i] = TRUE]
            /\ ebuf' = [ebuf EXCEPT ![i] = Append(@, nb + 1)]
            /\ hist' = Append(hist, [who |-> i, op |-> "stage", b |-> nb + 1])
            /\ UNCHANGED <<buf, mainbuf, file, expect, ncommit>>
\* WriteRows step 2: append the scratch to the columns, clear it
Append2(i) == /\ staged[i]
              /\ buf' = [buf EXCEPT ![i] = @ \o scratch[Sc(i)]]
              /\ scratch' = [scratch EXCEPT ![Sc(i)] = <<>>]
              /\ staged' = [staged EXCEPT ![i] = FALSE]
              /\ hist' = Append(hist, [who |-> i, op |-> "append", b |-> 0])
              /\ UNCHANGED <<nb, mainbuf, file, expect, ebuf, ncommit>>
MainWrite == /\ nb < MaxBatches /\ nb' = nb + 1
             /\ mainbuf' = Append(mainbuf, nb + 1)
             /\ hist' = Append(hist, [who |-> 0, op |-> "mainwrite", b |-> nb + 1])
             /\ UNCHANGED <<buf, scratch, staged, file, expect, ebuf, ncommit>>
\* Commit(i): only between two WriteRows calls of row group i
Commit(i) == /\ ~staged[i] /\ buf[i] # <<>> /\ ncommit < MaxCommits /\ ncommit' = ncommit + 1
             /\ LET pre == IF mainbuf # <<>> THEN <<mainbuf>> ELSE <<>> IN
                /\ file' = file \o pre \o (IF buf[i] # <<>> THEN <<buf[i]>> ELSE <<>>)
                /\ expect' = expect \o pre \o (IF ebuf[i] # <<>> THEN <<ebuf[i]>> ELSE <<>>)
             /\ mainbuf' = <<>>
             /\ buf' = [buf EXCEPT ![i] = <<>>] /\ ebuf' = [ebuf EXCEPT ![i] = <<>>]
             /\ hist' = Append(hist, [who |-> 0, op |-> "commit", b |-> i])
             /\ UNCHANGED <<scratch, staged, nb>>
Next == (\E i \in RGs : Stage(i) \/ Append2(i) \/ Commit(i)) \/ MainWrite
Spec == Init /\ [][Next]_vars

SerialEquivalent == file = expect
NothingLost == \A i \in RGs : ~staged[i] => buf[i] = ebuf[i]
=============================================================================
