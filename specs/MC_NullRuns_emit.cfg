CONSTANTS W = 4  MaxN = 9  Fix = TRUE
INIT Init
NEXT NoNext
INVARIANTS EmitInit
CHECK_DEADLOCK FALSE
