CONSTANTS K = 2  Fix = FALSE
INIT Init
NEXT Next
INVARIANT AgreesWithDeclaredOrder
CHECK_DEADLOCK FALSE
