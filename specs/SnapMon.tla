------------------------------- MODULE SnapMon -------------------------------
(* VERDICT monitor for C16.                                                  *)
(*   Init                                                                     *)
(*   Hold   h, window ("call" | "forever"), reader, asWritten (the value just *)
(*          received equals what was written for its id)                      *)
(*   Call   reader          a call on that reader: "call"-window holds of it  *)
(*                          expire                                            *)
(*   Check  h, same (the held value still equals the deep copy taken when it  *)
(*          was received)                                                     *)
(*   Input  same            rows passed to Write compared after Close         *)
(* Requirement: a value equals what was written when it is received, and a    *)
(* value checked inside its window is unchanged.                              *)
EXTENDS Integers, Sequences, FiniteSets, TLC, Json
CONSTANT TraceFile
Trace == ndJsonDeserialize(TraceFile)
VARIABLES l, live, bad, cnt
vars == <<l, live, bad, cnt>>
E == Trace[l]
MaxBad == 300
Flag(c) ==
  /\ bad' = (IF Len(bad) < MaxBad THEN Append(bad, <<E.t, E.i, c>>) ELSE bad)
  /\ cnt' = [cnt EXCEPT !.flagged = @ + 1]
Init == l = 1 /\ live = {} /\ bad = <<>> /\ cnt = [traces |-> 0, holds |-> 0, checks |-> 0, expired |-> 0, inputs |-> 0, flagged |-> 0]
Step ==
  /\ l <= Len(Trace) /\ l' = l + 1
  /\ CASE E.ev = "Init" -> live' = {} /\ bad' = bad /\ cnt' = [cnt EXCEPT !.traces = @ + 1]
       [] E.ev = "Hold" ->
            /\ live' = live \cup {<<E.h, E.window, E.reader>>}
            /\ IF E.asWritten = 0 THEN Flag("received-altered") ELSE bad' = bad /\ cnt' = [cnt EXCEPT !.holds = @ + 1]
       [] E.ev = "Call" ->
            /\ live' = {x \in live : ~(x[2] = "call" /\ x[3] = E.reader)}
            /\ UNCHANGED <<bad, cnt>>
       [] E.ev = "Check" ->
            /\ live' = live
            /\ IF ~(\E x \in live : x[1] = E.h) THEN bad' = bad /\ cnt' = [cnt EXCEPT !.expired = @ + 1]
               ELSE IF E.same = 0 THEN Flag("changed-" \o (CHOOSE x \in live : x[1] = E.h)[2])
               ELSE bad' = bad /\ cnt' = [cnt EXCEPT !.checks = @ + 1]
       [] E.ev = "Input" ->
            /\ live' = live
            /\ IF E.same = 0 THEN Flag("input-modified") ELSE bad' = bad /\ cnt' = [cnt EXCEPT !.inputs = @ + 1]
Spec == Init /\ [][Step]_vars
Done == l = Len(Trace) + 1 =>
          PrintT(<<"VERDICT", ToJson([consumed |-> l - 1, bad |-> bad, cnt |-> cnt])>>)
=============================================================================
