------------------------------ MODULE MC_Bloom ------------------------------
EXTENDS Bloom, Json
Ended == Len(hist) > 0 /\ hist[Len(hist)].op = "end"
Finish == /\ Len(hist) = MaxOps /\ ~Ended
          /\ PrintT(<<"SCENARIO", ToJson([cfg |-> cfg, ops |-> hist])>>)
          /\ hist' = Append(hist, [op |-> "end"])
          /\ UNCHANGED <<cfg, switched, alloc, fvals, dvals, pages, committed>>
SimNext == Next \/ Finish \/ (Ended /\ UNCHANGED vars)
SimSpec == Init /\ [][SimNext]_vars
=============================================================================
