----------------------------- MODULE OrderCheck -----------------------------
(* Self-check of Order.tla on boundary values: the keys are consistent with  *)
(* hand-ordered tables (ASSUME-style spec tests evaluated by TLC).           *)
EXTENDS Order, TLC

\* little-endian bytes of some int32 values, in increasing numeric order
I32 == << <<0,0,0,128>>, <<255,255,255,255>>, <<0,0,0,0>>, <<1,0,0,0>>, <<0,1,0,0>>, <<255,255,255,127>> >>
U32 == << <<0,0,0,0>>, <<1,0,0,0>>, <<0,1,0,0>>, <<255,255,255,127>>, <<0,0,0,128>>, <<255,255,255,255>> >>
\* doubles: -inf, -1.5, -0 (= +0), 4.9e-324, 1, +inf   (little-endian)
F64 == << <<0,0,0,0,0,0,240,255>>, <<0,0,0,0,0,0,248,191>>, <<0,0,0,0,0,0,0,128>>,
          <<1,0,0,0,0,0,0,0>>, <<0,0,0,0,0,0,240,63>>, <<0,0,0,0,0,0,240,127>> >>
DEC == << <<128,0>>, <<255,255>>, <<0,0>>, <<0,1>>, <<127,255>> >>
BYT == << <<>>, <<0>>, <<97>>, <<97,0>>, <<97,98>>, <<255>>, <<255,255>> >>

Sorted(kind, s) == \A i \in 1..(Len(s) - 1) : KLE(kind, s[i], s[i + 1]) /\ ~KLE(kind, s[i + 1], s[i])

ASSUME Sorted("int32", I32)
ASSUME Sorted("uint32", U32)
ASSUME Sorted("double", F64)
ASSUME Sorted("decimal", DEC)
ASSUME Sorted("bytes", BYT)
ASSUME KLE("double", <<0,0,0,0,0,0,0,128>>, <<0,0,0,0,0,0,0,0>>) /\ KLE("double", <<0,0,0,0,0,0,0,0>>, <<0,0,0,0,0,0,0,128>>)
ASSUME IsNaN("double", <<1,0,0,0,0,0,248,127>>) /\ IsNaN("double", <<1,0,0,0,0,0,240,255>>)
ASSUME ~IsNaN("double", <<0,0,0,0,0,0,240,127>>) /\ ~IsNaN("double", <<0,0,0,0,0,0,240,63>>)
ASSUME IsNaN("float", <<1,0,192,127>>) /\ ~IsNaN("float", <<0,0,128,127>>) /\ ~IsNaN("float", <<0,0,128,63>>)

VARIABLE x
Init == x = 0
Next == UNCHANGED x
=============================================================================
