CONSTANTS V = 3  NPmax = 4  Fix = TRUE
INIT EInit
NEXT Next
INVARIANT Emit
CHECK_DEADLOCK FALSE
