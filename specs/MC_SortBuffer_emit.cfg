CONSTANTS K = 2  MaxRows = 3
INIT Init
NEXT Next
INVARIANT Emit
CHECK_DEADLOCK FALSE
