----------------------------- MODULE LazyPublish -----------------------------
(* Lazy, CAS-published per-chunk objects (file.go:950-1076: column index,       *)
(* offset index, bloom filter).  Every goroutine that asks for the object:      *)
(*   load   if the pointer is set, return it                                    *)
(*   read   read and decode the bytes into a fresh object (private)             *)
(*   cas    CompareAndSwap(nil, mine); on failure Load() again                  *)
(* Requirement: all callers, in every interleaving, receive the same pointer    *)
(* ("concurrent calling goroutines will only ever observe a single value").     *)
(* Bug = "store": the publication is a plain Store.                             *)
EXTENDS Integers, FiniteSets, Sequences, TLC, Json
CONSTANTS N, Bug
Procs == 1..N
VARIABLES ptr, pc, mine, got, arrivals, releases
vars == <<ptr, pc, mine, got, arrivals, releases>>

Init == ptr = 0 /\ pc = [p \in Procs |-> "load"] /\ mine = [p \in Procs |-> 0] /\ got = [p \in Procs |-> 0]
        /\ arrivals = <<>> /\ releases = <<>>

Load(p) == /\ pc[p] = "load"
           /\ IF ptr # 0 THEN got' = [got EXCEPT ![p] = ptr] /\ pc' = [pc EXCEPT ![p] = "done"] /\ UNCHANGED arrivals
                         ELSE pc' = [pc EXCEPT ![p] = "read"] /\ got' = got /\ arrivals' = Append(arrivals, p)
           /\ UNCHANGED <<ptr, mine, releases>>
Read(p) == /\ pc[p] = "read" /\ mine' = [mine EXCEPT ![p] = p] /\ pc' = [pc EXCEPT ![p] = "cas"]
           /\ releases' = Append(releases, p)
           /\ UNCHANGED <<ptr, got, arrivals>>
Cas(p) == /\ pc[p] = "cas"
          /\ IF ptr = 0 \/ Bug = "store"
             THEN ptr' = mine[p] /\ got' = [got EXCEPT ![p] = mine[p]]
             ELSE ptr' = ptr /\ got' = [got EXCEPT ![p] = ptr]
          /\ pc' = [pc EXCEPT ![p] = "done"]
          /\ UNCHANGED <<mine, arrivals, releases>>
Finished == \A p \in Procs : pc[p] = "done"
Next == (\E p \in Procs : Load(p) \/ Read(p) \/ Cas(p)) \/ (Finished /\ UNCHANGED vars)
Spec == Init /\ [][Next]_vars /\ WF_vars(Next)

SinglePointer == \A p, q \in Procs : (pc[p] = "done" /\ pc[q] = "done") => got[p] = got[q]
Published == \A p \in Procs : pc[p] = "done" => got[p] = ptr /\ ptr # 0
AllReturn == <>Finished
=============================================================================
