CONSTANTS NP = 3  MaxOps = 6  Faults = 0  Bug = "none"  CloseAfter = 5
SPECIFICATION SimSpec
CHECK_DEADLOCK FALSE
