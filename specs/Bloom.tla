-------------------------------- MODULE Bloom --------------------------------
(* Implementation-shaped model of how a column writer fills its bloom filter  *)
(* (writer.go): incremental insert of non-dictionary pages when the filter is *)
(* allocated (:2441), dictionary fallback to PLAIN (:2084, :2664), the three  *)
(* strategies of flushFilterPages (:2124: from the dictionary / already       *)
(* filled / re-read the pages), pre-sizing by WriteRowGroup (:888) and the    *)
(* reset between row groups.  Hashing is abstracted: the filter is the set of *)
(* tokens inserted.  One column.                                              *)
(*                                                                            *)
(* Fix = FALSE: as found, after a fallback the filter is built from the       *)
(*              dictionary only.  Fix = TRUE: dictionary plus the PLAIN pages.*)
EXTENDS Integers, Sequences, FiniteSets, TLC

CONSTANTS Tok, MaxOps, Fix

VARIABLES cfg,        \* [dict : BOOLEAN, limit : 0 (none) | n tokens]
          switched,   \* hasSwitchedToPlain
          alloc,      \* len(c.filter) > 0
          fvals,      \* tokens inserted in the filter
          dvals,      \* dictionary contents
          pages,      \* pages of the open row group: [kind, vals]
          committed,  \* row groups: [written, filter]
          hist
vars == <<cfg, switched, alloc, fvals, dvals, pages, committed, hist>>
view == <<cfg, switched, alloc, fvals, dvals, pages, committed, Len(hist)>>   \* the history is observation only; its length bounds the behaviour

Cfgs == [dict : BOOLEAN, limit : {0, 1}]

Init == /\ cfg \in Cfgs /\ switched = FALSE /\ alloc = FALSE /\ fvals = {} /\ dvals = {}
        /\ pages = <<>> /\ committed = <<>> /\ hist = <<>>

Written == UNION {pages[i].vals : i \in 1..Len(pages)}
PlainVals == UNION {pages[i].vals : i \in {j \in 1..Len(pages) : pages[j].kind = "plain"}}

WritePage(S) ==
  /\ Len(hist) < MaxOps /\ S # {}
  /\ IF cfg.dict /\ ~switched
     THEN /\ dvals' = dvals \cup S
          /\ pages' = Append(pages, [kind |-> "dict", vals |-> S])
          /\ switched' = (cfg.limit > 0 /\ Cardinality(dvals \cup S) > cfg.limit)   \* fallbackDictionaryToPlain
          /\ UNCHANGED fvals
     ELSE /\ pages' = Append(pages, [kind |-> "plain", vals |-> S])
          /\ fvals' = (IF alloc THEN fvals \cup S ELSE fvals)                         \* writePageToFilter
          /\ UNCHANGED <<dvals, switched>>
  /\ UNCHANGED <<cfg, alloc, committed>>
  /\ hist' = Append(hist, [op |-> "page", vals |-> S])

FilterAtFlush ==                                    \* flushFilterPages
  IF cfg.dict
  THEN IF Fix /\ switched THEN dvals \cup PlainVals ELSE dvals
  ELSE IF alloc THEN fvals
  ELSE Written

Commit == Append(committed, [written |-> Written, filter |-> FilterAtFlush])

FlushRowGroup ==
  /\ Len(hist) < MaxOps /\ pages # <<>>
  /\ committed' = Commit
  \* ColumnWriter.reset: filter truncated to length 0, dictionary reset, back to the dictionary buffer
  /\ pages' = <<>> /\ fvals' = {} /\ dvals' = {} /\ switched' = FALSE /\ alloc' = FALSE
  /\ UNCHANGED cfg
  /\ hist' = Append(hist, [op |-> "flush"])

\* Writer.WriteRowGroup (writer.go:549): the pending row group is flushed FIRST, then the filters are
\* pre-sized for the incoming row group (configureBloomFilters :888), whose pages follow
BeginWriteRowGroup ==
  /\ Len(hist) < MaxOps
  /\ committed' = (IF pages # <<>> THEN Commit ELSE committed)
  /\ pages' = <<>> /\ fvals' = {} /\ dvals' = {} /\ switched' = FALSE
  /\ alloc' = TRUE
  /\ UNCHANGED cfg
  /\ hist' = Append(hist, [op |-> "wrg"])

Next == FlushRowGroup \/ BeginWriteRowGroup \/ \E S \in SUBSET Tok : WritePage(S)
Spec == Init /\ [][Next]_vars

\* requirement (C07): every value written to a row group is in that row group's filter
NeverAbsent == \A i \in 1..Len(committed) : committed[i].written \subseteq committed[i].filter
=============================================================================
