------------------------------- MODULE EncMon -------------------------------
(* VERDICT monitor for C04.                                                    *)
(*   Init   sc                                                                  *)
(*   Case   id, build, enc, kind, w (bytes per value / bit width), n,           *)
(*          vals     the input, one byte sequence per value (little endian)     *)
(*          encoded  what the library's encoder produced (dst = nil)            *)
(*          err      encoder error ("" if none; "unsupported" is not judged)    *)
(*          rt       per decode variant: 1 iff the library decoded `encoded`    *)
(*                   back to the input                                          *)
(*          hist     per destination-buffer history: 1 iff the encoder          *)
(*                   produced the same bytes as with dst = nil                  *)
(*          digest   of `encoded` (joins the two builds)                        *)
(* Requirement: the specification's decoder (Encodings.tla) recovers the input  *)
(* from `encoded`; every library decode did; the bytes do not depend on the     *)
(* destination buffer's past nor on the build (asm / purego).                   *)
EXTENDS Encodings, Json
CONSTANT TraceFile
Trace == ndJsonDeserialize(TraceFile)
VARIABLES l, seen, bad, cnt
vars == <<l, seen, bad, cnt>>
E == Trace[l]
MaxBad == 300
Flag(c) ==
  /\ bad' = (IF Len(bad) < MaxBad THEN Append(bad, <<E.t, E.i, c>>) ELSE bad)
  /\ cnt' = [cnt EXCEPT !.flagged = @ + 1]
Init == l = 1 /\ seen = <<>> /\ bad = <<>> /\ cnt = [traces |-> 0, decoded |-> 0, values |-> 0, unsupported |-> 0, joined |-> 0, flagged |-> 0]

\* the specification's reading of the encoded bytes
SpecDecode(e) ==
  LET bs == e.encoded  w == e.w  n == e.n IN
  CASE e.enc = "plain" /\ e.kind = "boolean" -> [k \in 1..n |-> <<BitAt(bs, k - 1)>>]
    [] e.enc = "plain" /\ e.kind = "bytearray" -> PlainByteArrays(bs, 1, <<>>)
    [] e.enc = "plain" -> IF PlainFixedOK(bs, w, n) THEN PlainFixed(bs, w, n) ELSE <<<<-1>>>>
    [] e.enc = "rle" /\ e.kind = "boolean" ->
         \* <4-byte length> hybrid of 1-bit values
         IF Len(bs) < 4 THEN <<<<-1>>>>
         ELSE IF LEInt(Take(bs, 4)) # Len(bs) - 4 THEN <<<<-1>>>>
         ELSE HybridBytes(Drop(bs, 4), 1, n, 1)
    [] e.enc = "rle" /\ e.kind = "levels" -> HybridBytes(bs, w, n, 1)
    [] e.enc = "rle" -> HybridBytes(bs, w, n, 4)
    [] e.enc = "bitpacked" -> LET r == BitPackedMSB(bs, w, n) IN [k \in 1..n |-> <<r[k]>>]
    [] e.enc = "dict" -> IF Len(bs) = 0 THEN <<>> ELSE HybridBytes(Tail(bs), bs[1], n, 4)
    [] e.enc = "delta" -> DeltaBinaryPacked(bs, w)
    [] e.enc = "deltalength" -> DeltaLengthByteArray(bs)
    [] e.enc = "deltabytearray" -> DeltaByteArray(bs)
    [] e.enc = "split" -> ByteStreamSplit(bs, w)
    [] OTHER -> <<<<-1>>>>

AllOnes(s) == \A k \in 1..Len(s) : s[k] = 1
Tag == E.enc \o "/" \o E.kind
Prev == SelectSeq(seen, LAMBDA p : p[1] = E.id)
Step ==
  /\ l <= Len(Trace) /\ l' = l + 1
  /\ CASE E.ev = "Init" -> seen' = seen /\ bad' = bad /\ cnt' = [cnt EXCEPT !.traces = @ + 1]
       [] E.ev = "Case" ->
            /\ seen' = (IF Prev = <<>> THEN Append(seen, <<E.id, E.digest>>) ELSE seen)
            /\ IF E.err = "unsupported" THEN bad' = bad /\ cnt' = [cnt EXCEPT !.unsupported = @ + 1]
               ELSE IF E.err # "" THEN Flag("encode-error@" \o Tag)
               ELSE IF Take(SpecDecode(E), E.n) # E.vals THEN Flag("spec-decode@" \o Tag)
               ELSE IF ~AllOnes(E.rt) THEN Flag("roundtrip@" \o Tag)
               ELSE IF ~AllOnes(E.hist) THEN Flag("dst-history@" \o Tag)
               ELSE IF Prev # <<>> /\ Prev[1][2] # E.digest THEN Flag("build-diverge@" \o Tag)
               ELSE /\ bad' = bad
                    /\ cnt' = [cnt EXCEPT !.decoded = @ + 1, !.values = @ + E.n, !.joined = @ + (IF Prev # <<>> THEN 1 ELSE 0)]
       [] OTHER -> UNCHANGED <<seen, bad, cnt>>
Spec == Init /\ [][Step]_vars
Done == l = Len(Trace) + 1 =>
          PrintT(<<"VERDICT", ToJson([consumed |-> l - 1, bad |-> bad, cnt |-> cnt])>>)
=============================================================================
