------------------------------ MODULE EncSpace ------------------------------
(* Scenario space of C04: pattern descriptors, not value lists.  The harness   *)
(* expands a descriptor deterministically (shape, length, seed) and runs the    *)
(* history of destination-buffer states on it.                                  *)
EXTENDS Integers, Sequences, TLC, Json
VARIABLE s
Lens == {0, 1, 2, 7, 8, 9, 31, 32, 33, 63, 64, 65, 127, 128, 129, 255, 256, 257, 300}
Shapes == {"constant", "alternating", "ascending", "descending", "extremes", "runs", "prefixes", "random", "smallrange"}
\* (encoding, kind) pairs the library offers
Pairs == {<<"plain", k>> : k \in {"boolean", "int32", "int64", "int96", "float", "double", "bytearray", "fixed"}}
   \cup {<<"rle", k>> : k \in {"levels", "boolean", "int32"}}
   \cup {<<"bitpacked", "levels">>, <<"dict", "int32">>}
   \cup {<<"delta", k>> : k \in {"int32", "int64"}}
   \cup {<<"deltalength", "bytearray">>}
   \cup {<<"deltabytearray", k>> : k \in {"bytearray", "fixed"}}
   \cup {<<"split", k>> : k \in {"float", "double", "int32", "int64", "fixed"}}
Space == [pair : Pairs, len : Lens, shape : Shapes]
Init == s \in Space
Next == UNCHANGED s
Emit == PrintT(<<"SCENARIO", ToJson([enc |-> s.pair[1], kind |-> s.pair[2], len |-> s.len, shape |-> s.shape])>>)
=============================================================================
