CONSTANTS Payloads = {1, 2}  MaxCalls = 4  Fix = FALSE  Kind = "pooled"
SPECIFICATION Spec
INVARIANTS Lossless NoCrash
CHECK_DEADLOCK FALSE
