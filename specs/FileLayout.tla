----------------------------- MODULE FileLayout -----------------------------
(* The independent reader of a Parquet file: everything is derived from the    *)
(* raw bytes with Thrift.tla (footer, page headers, indexes), Snappy.tla and    *)
(* Encodings.tla, following the format document (parquet.thrift, README,        *)
(* Encodings.md, PageIndex.md, BloomFilter.md).  Nothing comes from the Go code *)
(* except, for codecs other than UNCOMPRESSED and SNAPPY, the decompressed      *)
(* page bodies, which the harness obtains from the codec packages directly      *)
(* ("hints", looked up by the offset that THIS module derives).                 *)
(*                                                                              *)
(* Problems(bs, hints) is the list of everything that is inconsistent;          *)
(* Streams(bs, hints) are the decoded (value, repetition, definition) streams   *)
(* of every leaf column over the whole file.                                    *)
EXTENDS Encodings, Thrift, Snappy, Bitwise, SequencesExt, Order

PAR1 == <<80, 65, 82, 49>>

---------------------------------------------------------------------------
(* CRC-32 (IEEE, reflected polynomial EDB88320), state as 4 little-endian bytes *)
Poly == <<32, 131, 184, 237>>
ShiftR1(c) == <<(c[1] \div 2) + 128 * (c[2] % 2), (c[2] \div 2) + 128 * (c[3] % 2), (c[3] \div 2) + 128 * (c[4] % 2), c[4] \div 2>>
Xor4(a, b) == <<a[1] ^^ b[1], a[2] ^^ b[2], a[3] ^^ b[3], a[4] ^^ b[4]>>
RECURSIVE CrcEntry(_, _)
CrcEntry(c, k) == IF k = 0 THEN c ELSE CrcEntry(IF c[1] % 2 = 1 THEN Xor4(ShiftR1(c), Poly) ELSE ShiftR1(c), k - 1)
CrcTable == [i \in 0..255 |-> CrcEntry(<<i, 0, 0, 0>>, 8)]
CrcStep(c, b) == LET t == CrcTable[c[1] ^^ b] IN <<t[1] ^^ c[2], t[2] ^^ c[3], t[3] ^^ c[4], t[4]>>
Crc32(bytes) == LET c == FoldLeft(CrcStep, <<255, 255, 255, 255>>, bytes) IN <<255 - c[1], 255 - c[2], 255 - c[3], 255 - c[4]>>
ASSUME Crc32(<<49, 50, 51, 52, 53, 54, 55, 56, 57>>) = <<38, 57, 244, 203>>            \* crc32("123456789") = CBF43926

\* an i32 thrift value as 4 little-endian bytes (zigzag decoded)
I32Bytes(v) ==
  LET g == v.g
      bit(k) == IF (k - 1) \div 7 + 1 > Len(g) THEN 0 ELSE (g[(k - 1) \div 7 + 1] \div Pow2((k - 1) % 7)) % 2
  IN BitsToBytes([k \in 1..32 |-> (bit(k + 1) + bit(1)) % 2], 4)

---------------------------------------------------------------------------
(* schema: the flattened depth-first list of SchemaElements -> leaves *)
\* SchemaElement: 1 type, 2 type_length, 3 repetition_type, 4 name, 5 num_children
RECURSIVE Walk(_, _, _, _, _, _, _)
\* walks `todo` siblings starting at element idx; returns <<leaves, next idx>>
Walk(els, idx, todo, path, d, r, acc) ==
  IF todo = 0 THEN <<acc, idx>>
  ELSE IF idx > Len(els) THEN <<Append(acc, [bad |-> TRUE]), idx>>
  ELSE LET e == els[idx]
           rep == IOr(e, 3, 0)
           d2 == d + (IF rep = 0 THEN 0 ELSE 1)
           r2 == r + (IF rep = 2 THEN 1 ELSE 0)
           p2 == Append(path, B(Field(e, 4)))
           kids == IOr(e, 5, 0)
       IN IF kids = 0
          THEN Walk(els, idx + 1, todo - 1, path, d, r,
                    Append(acc, [bad |-> FALSE, path |-> p2, type |-> IOr(e, 1, -1), tlen |-> IOr(e, 2, 0), maxDef |-> d2, maxRep |-> r2,
                                 \* the order of the physical type applies (no logical type, or a string)
                                 plain |-> (~Has(e, 6) /\ ~Has(e, 10)) \/ IOr(e, 1, -1) = 6]))
          ELSE LET sub == TLCEval(Walk(els, idx + 1, kids, p2, d2, r2, acc))
               IN Walk(els, sub[2], todo - 1, path, d, r, sub[1])
Leaves(fm) == LET els == L(Field(fm, 2)) IN
              IF Len(els) = 0 THEN <<>> ELSE Walk(els, 2, IOr(els[1], 5, 0), <<>>, 0, 0, <<>>)[1]
SchemaConsumed(fm) == LET els == L(Field(fm, 2)) IN Len(els) > 0 /\ Walk(els, 2, IOr(els[1], 5, 0), <<>>, 0, 0, <<>>)[2] = Len(els) + 1

BitW(max) == IF max = 0 THEN 0 ELSE IF max < 2 THEN 1 ELSE IF max < 4 THEN 2 ELSE IF max < 8 THEN 3 ELSE IF max < 16 THEN 4 ELSE IF max < 32 THEN 5 ELSE 6
\* bytes per value of the fixed-width physical types (0: variable)
Width(leaf) == CASE leaf.type = 1 -> 4 [] leaf.type = 2 -> 8 [] leaf.type = 3 -> 12 [] leaf.type = 4 -> 4 [] leaf.type = 5 -> 8
                 [] leaf.type = 7 -> leaf.tlen [] OTHER -> 0

\* column order of the physical type (TYPE_ORDER); "none" where the format defines no order (INT96) or a logical type changes it
OrderKind(leaf) == IF ~leaf.plain THEN "none"
                   ELSE CASE leaf.type = 0 -> "boolean" [] leaf.type = 1 -> "int32" [] leaf.type = 2 -> "int64"
                          [] leaf.type = 4 -> "float" [] leaf.type = 5 -> "double" [] leaf.type \in {6, 7} -> "bytes" [] OTHER -> "none"
\* Statistics: 3 null_count, 5 max_value, 6 min_value.  Bounds, where present, must bound the non-NaN values.
\* Readers must ignore NaN bounds: they are not judged.
BoundProblems(leaf, st, vals, what) ==
  LET kind == OrderKind(leaf)
      real == SelectSeq(vals, LAMBDA v : ~IsNaN(kind, v))
      lo == IF st.t = "struct" /\ Has(st, 6) THEN B(Field(st, 6)) ELSE <<>>
      hi == IF st.t = "struct" /\ Has(st, 5) THEN B(Field(st, 5)) ELSE <<>>
  IN IF kind = "none" \/ st.t # "struct" THEN <<>>
     ELSE (IF Has(st, 6) /\ ~IsNaN(kind, lo) /\ (\E k \in 1..Len(real) : ~KLE(kind, lo, real[k])) THEN <<what \o "-min-not-a-lower-bound">> ELSE <<>>)
       \o (IF Has(st, 5) /\ ~IsNaN(kind, hi) /\ (\E k \in 1..Len(real) : ~KLE(kind, real[k], hi)) THEN <<what \o "-max-not-an-upper-bound">> ELSE <<>>)

---------------------------------------------------------------------------
(* pages of a column chunk: parsed sequentially from the chunk's first page *)
\* PageHeader: 1 type, 2 uncompressed_page_size, 3 compressed_page_size, 4 crc, 5 data_page_header,
\*             7 dictionary_page_header, 8 data_page_header_v2
RECURSIVE ParsePages(_, _, _, _)
ParsePages(bs, off, end, acc) ==           \* off, end: 0-based file offsets
  IF off >= end THEN acc
  ELSE LET h == Struct(bs, off + 1)
           hdr == h[1]
           hlen == h[2] - (off + 1)
       IN IF hdr.t = "bad" \/ ~Has(hdr, 1) \/ ~Has(hdr, 2) \/ ~Has(hdr, 3) \/ ~IsSmallInt(Field(hdr, 2)) \/ ~IsSmallInt(Field(hdr, 3))
          THEN Append(acc, [bad |-> TRUE, off |-> off])
          ELSE LET csize == I(Field(hdr, 3)) IN
               IF csize < 0 \/ off + hlen + csize > Len(bs)
               THEN Append(acc, [bad |-> TRUE, off |-> off])
               ELSE ParsePages(bs, off + hlen + csize, end,
                               Append(acc, [bad |-> FALSE, off |-> off, hlen |-> hlen, csize |-> csize, usize |-> I(Field(hdr, 2)),
                                            type |-> I(Field(hdr, 1)), hdr |-> hdr]))
PageEnd(p) == p.off + p.hlen + p.csize
Body(bs, p) == SubSeq(bs, p.off + p.hlen + 1, p.off + p.hlen + p.csize)

HintAt(hints, off) == LET m == SelectSeq(hints, LAMBDA h : h.off = off) IN IF Len(m) = 0 THEN <<-1>> ELSE m[1].body
\* codec: 0 UNCOMPRESSED, 1 SNAPPY; the others come from the hints
Decomp(codec, bytes, hints, off) ==
  CASE codec = 0 -> bytes
    [] codec = 1 -> SnappyDecode(bytes)
    [] OTHER -> HintAt(hints, off)
\* malformed results end in the marker -1 (byte strings) or <<-1>> (sequences of values)
MalBytes(x) == Len(x) > 0 /\ x[Len(x)] = -1
MalVals(x) == Len(x) > 0 /\ x[Len(x)] = <<-1>>
MalInts(x) == Len(x) > 0 /\ x[Len(x)] < 0

\* values of one page by encoding; nn = number of non-null values; dict = the chunk's dictionary values
Values(leaf, enc, vb, nn, dict) ==
  LET w == Width(leaf) IN
  CASE enc = 0 -> CASE leaf.type = 0 -> [k \in 1..nn |-> <<BitAt(vb, k - 1)>>]
                    [] leaf.type = 6 -> PlainByteArrays(vb, 1, <<>>)
                    [] OTHER -> IF Len(vb) = w * nn THEN PlainFixed(vb, w, nn) ELSE <<<<-1>>>>
    [] enc \in {2, 8} -> LET ix == DictIndexes(vb, nn) IN
                         IF Len(ix) < nn \/ \E k \in 1..nn : ix[k] + 1 > Len(dict) THEN <<<<-1>>>>
                         ELSE [k \in 1..nn |-> dict[ix[k] + 1]]
    [] enc = 3 -> IF Len(vb) < 4 \/ LEInt(Take(vb, 4)) # Len(vb) - 4 THEN <<<<-1>>>>
                  ELSE LET r == HybridInts(Drop(vb, 4), 1, nn) IN IF Len(r) < nn THEN <<<<-1>>>> ELSE [k \in 1..nn |-> <<r[k]>>]
    [] enc = 5 -> DeltaBinaryPacked(vb, w)
    [] enc = 6 -> DeltaLengthByteArray(vb)
    [] enc = 7 -> DeltaByteArray(vb)
    [] enc = 9 -> IF w = 0 \/ Len(vb) # w * nn THEN <<<<-1>>>> ELSE ByteStreamSplit(vb, w)
    [] OTHER -> <<<<-1>>>>

\* dictionary page -> values (always PLAIN)
\* DictionaryPageHeader: 1 num_values, 2 encoding
DictValues(bs, leaf, p, codec, hints) ==
  LET dh == Field(p.hdr, 7)
      body == Decomp(codec, Body(bs, p), hints, p.off)
  IN IF MalBytes(body) THEN <<<<-1>>>> ELSE Values(leaf, 0, body, I(Field(dh, 1)), <<>>)

\* levels of a v1 page: <4-byte length> hybrid; returns <<levels, rest of the bytes>>
V1Levels(bytes, max, nv) ==
  IF max = 0 THEN <<[k \in 1..nv |-> 0], bytes>>
  ELSE IF Len(bytes) < 4 \/ bytes[4] >= 64 \/ 4 + LEInt(Take(bytes, 4)) > Len(bytes) THEN <<<<-1>>, <<>>>>
  ELSE LET n == LEInt(Take(bytes, 4)) IN <<HybridInts(SubSeq(bytes, 5, 4 + n), BitW(max), nv), Drop(bytes, 4 + n)>>

\* one data page -> [reps, defs, vals, problems]
\* DataPageHeader: 1 num_values, 2 encoding, 3 definition_level_encoding, 4 repetition_level_encoding
\* DataPageHeaderV2: 1 num_values, 2 num_nulls, 3 num_rows, 4 encoding, 5 definition_levels_byte_length,
\*                   6 repetition_levels_byte_length, 7 is_compressed
DataPage(bs, leaf, p, codec, dict, hints) ==
  IF p.type = 0 THEN
    LET dh == Field(p.hdr, 5)
        nv == I(Field(dh, 1))
        body == TLCEval(Decomp(codec, Body(bs, p), hints, p.off))
    IN IF MalBytes(body) THEN [reps |-> <<>>, defs |-> <<>>, vals |-> <<>>, probs |-> <<"page-body-does-not-decompress">>, nv |-> nv]
       ELSE
       LET rl == TLCEval(V1Levels(body, leaf.maxRep, nv))
           dl == TLCEval(V1Levels(rl[2], leaf.maxDef, nv))
           defs == Take(dl[1], nv)
           nn == Len(SelectSeq(defs, LAMBDA d : d = leaf.maxDef))
           vals == TLCEval(Values(leaf, I(Field(dh, 2)), dl[2], nn, dict))
       IN [reps |-> Take(rl[1], nv), defs |-> defs, vals |-> Take(vals, nn), nv |-> nv,
           probs |-> (IF Len(body) # p.usize THEN <<"uncompressed_page_size">> ELSE <<>>)
                  \o (IF MalInts(rl[1]) \/ MalInts(dl[1]) \/ Len(rl[1]) < nv \/ Len(dl[1]) < nv THEN <<"levels-malformed">> ELSE <<>>)
                  \o (IF MalVals(vals) \/ Len(vals) < nn THEN <<"values-malformed">> ELSE <<>>)
                  \o (IF MalVals(vals) THEN <<>> ELSE BoundProblems(leaf, Field(dh, 5), Take(vals, nn), "page-stats"))
                  \o (IF Has(dh, 5) /\ Has(Field(dh, 5), 3) /\ I(Field(Field(dh, 5), 3)) # nv - nn THEN <<"page-stats-null_count">> ELSE <<>>)
                  \o (IF leaf.maxDef > 0 /\ I(Field(dh, 3)) # 3 THEN <<"definition_level_encoding">> ELSE <<>>)
                  \o (IF leaf.maxRep > 0 /\ I(Field(dh, 4)) # 3 THEN <<"repetition_level_encoding">> ELSE <<>>)]
  ELSE
    LET dh == Field(p.hdr, 8)
        nv == I(Field(dh, 1))
        rlen == I(Field(dh, 6))
        dlen == I(Field(dh, 5))
        raw == Body(bs, p)
        compressed == IF Has(dh, 7) THEN Field(dh, 7).v = 1 ELSE TRUE
    IN IF rlen < 0 \/ dlen < 0 \/ rlen + dlen > Len(raw)
       THEN [reps |-> <<>>, defs |-> <<>>, vals |-> <<>>, probs |-> <<"v2-level-lengths">>, nv |-> nv]
       ELSE
       LET reps == IF leaf.maxRep = 0 THEN [k \in 1..nv |-> 0] ELSE TLCEval(HybridInts(SubSeq(raw, 1, rlen), BitW(leaf.maxRep), nv))
           defs == IF leaf.maxDef = 0 THEN [k \in 1..nv |-> 0] ELSE TLCEval(HybridInts(SubSeq(raw, rlen + 1, rlen + dlen), BitW(leaf.maxDef), nv))
           vbytes == LET rest == Drop(raw, rlen + dlen) IN
                     IF compressed /\ codec # 0 THEN (IF Len(rest) = 0 THEN <<>> ELSE TLCEval(Decomp(codec, rest, hints, p.off))) ELSE rest
           nn == Len(SelectSeq(Take(defs, nv), LAMBDA d : d = leaf.maxDef))
           vals == IF MalBytes(vbytes) THEN <<<<-1>>>> ELSE TLCEval(Values(leaf, I(Field(dh, 4)), vbytes, nn, dict))
       IN [reps |-> Take(reps, nv), defs |-> Take(defs, nv), vals |-> Take(vals, nn), nv |-> nv,
           probs |-> (IF MalBytes(vbytes) THEN <<"page-body-does-not-decompress">> ELSE
                      IF rlen + dlen + Len(vbytes) # p.usize THEN <<"uncompressed_page_size">> ELSE <<>>)
                  \o (IF MalInts(reps) \/ MalInts(defs) \/ Len(reps) < nv \/ Len(defs) < nv THEN <<"levels-malformed">> ELSE <<>>)
                  \o (IF MalVals(vals) \/ Len(vals) < nn THEN <<"values-malformed">> ELSE <<>>)
                  \o (IF (leaf.maxRep = 0 /\ rlen # 0) \/ (leaf.maxDef = 0 /\ dlen # 0) THEN <<"v2-levels-for-flat-column">> ELSE <<>>)
                  \o (IF MalVals(vals) THEN <<>> ELSE BoundProblems(leaf, Field(dh, 8), Take(vals, nn), "page-stats"))
                  \o (IF Has(dh, 8) /\ Has(Field(dh, 8), 3) /\ I(Field(Field(dh, 8), 3)) # nv - nn THEN <<"page-stats-null_count">> ELSE <<>>)
                  \o (IF I(Field(dh, 2)) # nv - nn THEN <<"v2-num_nulls">> ELSE <<>>)
                  \o (IF I(Field(dh, 3)) # Len(SelectSeq(Take(reps, nv), LAMBDA x : x = 0)) THEN <<"v2-num_rows">> ELSE <<>>)]

---------------------------------------------------------------------------
(* one column chunk *)
\* ColumnChunk: 2 file_offset, 3 meta_data, 4 offset_index_offset, 5 offset_index_length, 6 column_index_offset, 7 column_index_length
\* ColumnMetaData: 1 type, 2 encodings, 3 path_in_schema, 4 codec, 5 num_values, 6 total_uncompressed_size,
\*   7 total_compressed_size, 9 data_page_offset, 11 dictionary_page_offset, 12 statistics, 13 encoding_stats,
\*   14 bloom_filter_offset, 15 bloom_filter_length
\* Statistics: 3 null_count;  PageEncodingStats: 1 page_type, 2 encoding, 3 count
\* OffsetIndex: 1 page_locations; PageLocation: 1 offset, 2 compressed_page_size, 3 first_row_index
\* ColumnIndex: 1 null_pages, 2 min_values, 3 max_values, 4 boundary_order, 5 null_counts
\* BloomFilterHeader: 1 numBytes
SumOf(s, f(_)) == FoldLeft(LAMBDA a, x : a + f(x), 0, s)
CountIf(s, t(_)) == Len(SelectSeq(s, t))
Tag(pre, probs) == [k \in 1..Len(probs) |-> pre \o probs[k]]
\* level histogram: how often each level 0..max occurs (size statistics, parquet.thrift SizeStatistics / ColumnIndex 6, 7)
Hist(levels, max) == [v \in 1..(max + 1) |-> CountIf(levels, LAMBDA x : x = v - 1)]
IntsOf(lst) == [k \in 1..Len(lst) |-> I(lst[k])]
ByteLen(vs) == SumOf(vs, LAMBDA v : Len(v))

Chunk(bs, cc, leaf, hints, rgRows) ==
  LET md == Field(cc, 3)
      codec == I(Field(md, 4))
      dpo == I(Field(md, 9))
      dico == IOr(md, 11, 0)
      start == IF dico > 0 /\ dico < dpo THEN dico ELSE dpo
      tcs == I(Field(md, 7))
      pages == TLCEval(ParsePages(bs, start, start + tcs, <<>>))
      good == \A k \in 1..Len(pages) : ~pages[k].bad
  IN IF ~good \/ Len(pages) = 0 THEN [probs |-> <<"page-header-unparsable">>, regions |-> <<>>, reps |-> <<>>, defs |-> <<>>, vals |-> <<>>]
     ELSE
     LET hasDict == pages[1].type = 2
         dict == IF hasDict THEN TLCEval(DictValues(bs, leaf, pages[1], codec, hints)) ELSE <<>>
         dps == SelectSeq(pages, LAMBDA p : p.type \in {0, 3})
         dec == TLCEval([k \in 1..Len(dps) |-> DataPage(bs, leaf, dps[k], codec, dict, hints)])
         reps == FoldLeft(LAMBDA a, x : a \o x.reps, <<>>, dec)
         defs == FoldLeft(LAMBDA a, x : a \o x.defs, <<>>, dec)
         vals == FoldLeft(LAMBDA a, x : a \o x.vals, <<>>, dec)
         pageRows(k) == CountIf(dec[k].reps, LAMBDA x : x = 0)
         firstRow[k \in 1..Len(dps)] == IF k = 1 THEN 0 ELSE firstRow[k - 1] + pageRows(k - 1)
         nulls == CountIf(defs, LAMBDA d : d # leaf.maxDef)
         \* ColumnMetaData 16 size_statistics: 1 unencoded_byte_array_data_bytes, 2 repetition_level_histogram, 3 definition_level_histogram
         ss == IF Has(md, 16) THEN Field(md, 16) ELSE Absent
         ssProbs == IF ~Has(md, 16) THEN <<>>
                    ELSE (IF Has(ss, 2) /\ IntsOf(L(Field(ss, 2))) # Hist(reps, leaf.maxRep) THEN <<"size_statistics.repetition_level_histogram">> ELSE <<>>)
                      \o (IF Has(ss, 3) /\ IntsOf(L(Field(ss, 3))) # Hist(defs, leaf.maxDef) THEN <<"size_statistics.definition_level_histogram">> ELSE <<>>)
                      \o (IF Has(ss, 1) /\ leaf.type = 6 /\ ~MalVals(vals) /\ I(Field(ss, 1)) # ByteLen(vals)
                          THEN <<"size_statistics.unencoded_byte_array_data_bytes">> ELSE <<>>)
         encOf(p) == IF p.type = 0 THEN I(Field(Field(p.hdr, 5), 2)) ELSE IF p.type = 3 THEN I(Field(Field(p.hdr, 8), 4)) ELSE I(Field(Field(p.hdr, 7), 2))
         listed == {I(L(Field(md, 2))[k]) : k \in 1..Len(L(Field(md, 2)))}
         used == {encOf(pages[k]) : k \in 1..Len(pages)} \cup (IF leaf.maxDef > 0 \/ leaf.maxRep > 0 THEN {3} ELSE {})
         stats == IF Has(md, 13) THEN L(Field(md, 13)) ELSE <<>>
         statCount(pt, en) == SumOf(SelectSeq(stats, LAMBDA s : I(Field(s, 1)) = pt /\ I(Field(s, 2)) = en), LAMBDA s : I(Field(s, 3)))
         pageCount(pt, en) == CountIf(pages, LAMBDA p : p.type = pt /\ encOf(p) = en)
         crcBad == \E k \in 1..Len(pages) : Has(pages[k].hdr, 4) /\ I32Bytes(Field(pages[k].hdr, 4)) # Crc32(Body(bs, pages[k]))
         \* offset index
         oio == IOr(cc, 4, 0)
         oi == IF oio > 0 THEN Struct(bs, oio + 1) ELSE <<Absent, 0>>
         locs == IF oio > 0 /\ oi[1].t = "struct" THEN L(Field(oi[1], 1)) ELSE <<>>
         oiProbs == IF oio = 0 THEN <<>>
                    ELSE IF oi[1].t # "struct" THEN <<"offset-index-unparsable">>
                    ELSE (IF oi[2] - (oio + 1) # IOr(cc, 5, -1) THEN <<"offset_index_length">> ELSE <<>>)
                      \o (IF Len(locs) # Len(dps) THEN <<"offset-index-page-count">>
                          ELSE IF \E k \in 1..Len(dps) : I(Field(locs[k], 1)) # dps[k].off THEN <<"page-location-offset">>
                          ELSE IF \E k \in 1..Len(dps) : I(Field(locs[k], 2)) # dps[k].hlen + dps[k].csize THEN <<"page-location-size">>
                          ELSE IF \E k \in 1..Len(dps) : I(Field(locs[k], 3)) # firstRow[k] THEN <<"page-location-first-row">>
                          \* OffsetIndex 2 unencoded_byte_array_data_bytes, one per page
                          ELSE IF Has(oi[1], 2) /\ leaf.type = 6 /\ (\A k \in 1..Len(dps) : ~MalVals(dec[k].vals))
                                  /\ IntsOf(L(Field(oi[1], 2))) # [k \in 1..Len(dps) |-> ByteLen(dec[k].vals)]
                               THEN <<"offset-index-unencoded_byte_array_data_bytes">>
                          ELSE <<>>)
         \* column index
         cio == IOr(cc, 6, 0)
         ci == IF cio > 0 THEN Struct(bs, cio + 1) ELSE <<Absent, 0>>
         ciProbs == IF cio = 0 THEN <<>>
                    ELSE IF ci[1].t # "struct" THEN <<"column-index-unparsable">>
                    ELSE LET x == ci[1]
                             np == L(Field(x, 1))
                         IN (IF ci[2] - (cio + 1) # IOr(cc, 7, -1) THEN <<"column_index_length">> ELSE <<>>)
                         \o (IF Len(np) # Len(dps) \/ Len(L(Field(x, 2))) # Len(dps) \/ Len(L(Field(x, 3))) # Len(dps)
                                \/ (Has(x, 5) /\ Len(L(Field(x, 5))) # Len(dps)) THEN <<"column-index-page-count">>
                             ELSE IF \E k \in 1..Len(dps) : (np[k].v = 1) # (Len(dec[k].vals) = 0) THEN <<"column-index-null-page">>
                             ELSE IF Has(x, 5) /\ \E k \in 1..Len(dps) : I(L(Field(x, 5))[k]) # dec[k].nv - Len(dec[k].vals) THEN <<"column-index-null-count">>
                             \* 6, 7: per page histograms, one after the other
                             ELSE IF Has(x, 6) /\ IntsOf(L(Field(x, 6))) # FoldLeft(LAMBDA a, k : a \o Hist(dec[k].reps, leaf.maxRep), <<>>, [k \in 1..Len(dps) |-> k])
                                  THEN <<"column-index-repetition_level_histograms">>
                             ELSE IF Has(x, 7) /\ IntsOf(L(Field(x, 7))) # FoldLeft(LAMBDA a, k : a \o Hist(dec[k].defs, leaf.maxDef), <<>>, [k \in 1..Len(dps) |-> k])
                                  THEN <<"column-index-definition_level_histograms">>
                             ELSE FoldLeft(LAMBDA a, k : a \o (IF np[k].v = 1 THEN <<>> ELSE
                                     BoundProblems(leaf, [t |-> "struct", f |-> <<<<6, L(Field(x, 2))[k]>>, <<5, L(Field(x, 3))[k]>>>>], dec[k].vals, "column-index")),
                                           <<>>, [k \in 1..Len(dps) |-> k]))
         \* bloom filter
         bfo == IOr(md, 14, 0)
         bf == IF bfo > 0 THEN Struct(bs, bfo + 1) ELSE <<Absent, 0>>
         bfLen == IF bfo > 0 /\ bf[1].t = "struct" THEN (bf[2] - (bfo + 1)) + I(Field(bf[1], 1)) ELSE 0
         bfProbs == IF bfo = 0 THEN <<>>
                    ELSE IF bf[1].t # "struct" \/ ~Has(bf[1], 1) THEN <<"bloom-filter-header-unparsable">>
                    ELSE IF bfo + bfLen > Len(bs) THEN <<"bloom-filter-overruns-file">>
                    ELSE IF Has(md, 15) /\ I(Field(md, 15)) # bfLen THEN <<"bloom_filter_length">> ELSE <<>>
     IN [reps |-> reps, defs |-> defs, vals |-> vals,
         regions |-> <<<<start, PageEnd(pages[Len(pages)])>>>>
                     \o (IF oio > 0 /\ oi[1].t = "struct" THEN <<<<oio, oi[2] - 1>>>> ELSE <<>>)
                     \o (IF cio > 0 /\ ci[1].t = "struct" THEN <<<<cio, ci[2] - 1>>>> ELSE <<>>)
                     \o (IF bfo > 0 /\ bfLen > 0 THEN <<<<bfo, bfo + bfLen>>>> ELSE <<>>),
         probs |->
              FoldLeft(LAMBDA a, k : a \o Tag("page:", dec[k].probs), <<>>, [k \in 1..Len(dps) |-> k])
           \o (IF hasDict /\ MalVals(dict) THEN <<"dictionary-page-malformed">> ELSE <<>>)
           \o (IF \E k \in 2..Len(pages) : pages[k].type = 2 THEN <<"dictionary-page-not-first">> ELSE <<>>)
           \o (IF PageEnd(pages[Len(pages)]) # start + tcs THEN <<"total_compressed_size">> ELSE <<>>)
           \o (IF SumOf(pages, LAMBDA p : p.hlen + p.usize) # I(Field(md, 6)) THEN <<"total_uncompressed_size">> ELSE <<>>)
           \o (IF Len(dps) = 0 \/ dpo # dps[1].off THEN <<"data_page_offset">> ELSE <<>>)
           \o (IF hasDict /\ dico # pages[1].off THEN <<"dictionary_page_offset">> ELSE <<>>)
           \o (IF ~hasDict /\ dico > 0 THEN <<"dictionary_page_offset-without-dictionary">> ELSE <<>>)
           \o (IF SumOf(dec, LAMBDA x : x.nv) # I(Field(md, 5)) THEN <<"num_values">> ELSE <<>>)
           \o (IF Len(reps) > 0 /\ \E k \in 1..Len(dps) : Len(dec[k].reps) > 0 /\ dec[k].reps[1] # 0 THEN <<"page-starts-inside-a-row">> ELSE <<>>)
           \o (IF CountIf(reps, LAMBDA x : x = 0) # rgRows THEN <<"chunk-rows">> ELSE <<>>)
           \o (IF ~(used \subseteq listed) THEN <<"encodings-incomplete">> ELSE <<>>)
           \o (IF Has(md, 13) /\ (\E k \in 1..Len(pages) : statCount(pages[k].type, encOf(pages[k])) # pageCount(pages[k].type, encOf(pages[k])))
               THEN <<"encoding_stats">> ELSE <<>>)
           \o (IF Has(md, 13) /\ SumOf(stats, LAMBDA s : I(Field(s, 3))) # Len(pages) THEN <<"encoding_stats-total">> ELSE <<>>)
           \o (IF I(Field(md, 1)) # leaf.type THEN <<"column-type">> ELSE <<>>)
           \o (IF [k \in 1..Len(L(Field(md, 3))) |-> B(L(Field(md, 3))[k])] # leaf.path THEN <<"path_in_schema">> ELSE <<>>)
           \o (IF Has(md, 12) /\ Has(Field(md, 12), 3) /\ I(Field(Field(md, 12), 3)) # nulls THEN <<"statistics.null_count">> ELSE <<>>)
           \o (IF Has(md, 12) /\ ~MalVals(vals) THEN BoundProblems(leaf, Field(md, 12), vals, "chunk-stats") ELSE <<>>)
           \o (IF crcBad THEN <<"crc">> ELSE <<>>)
           \o ssProbs \o oiProbs \o ciProbs \o bfProbs]

---------------------------------------------------------------------------
(* the file *)
\* FileMetaData: 1 version, 2 schema, 3 num_rows, 4 row_groups
\* RowGroup: 1 columns, 2 total_byte_size, 3 num_rows, 5 file_offset, 6 total_compressed_size, 7 ordinal
Footer(bs) ==
  LET n == Len(bs) IN
  IF n < 12 \/ SubSeq(bs, 1, 4) # PAR1 \/ SubSeq(bs, n - 3, n) # PAR1 \/ bs[n - 4] >= 64 THEN [ok |-> FALSE, why |-> "magic"]
  ELSE LET flen == LEInt(SubSeq(bs, n - 7, n - 4))
           foff == n - 8 - flen
       IN IF foff < 4 THEN [ok |-> FALSE, why |-> "footer-length"]
          ELSE LET f == Struct(bs, foff + 1) IN
               IF f[1].t # "struct" THEN [ok |-> FALSE, why |-> "footer-unparsable"]
               ELSE IF f[2] # n - 8 + 1 THEN [ok |-> FALSE, why |-> "footer-length-vs-content"]
               ELSE [ok |-> TRUE, fm |-> f[1], off |-> foff]

\* the regions, sorted by start, cover [from, to) exactly
Tiles(regs, from, to) ==
  LET sorted == SortSeq(regs, LAMBDA a, b : a[1] < b[1])
  IN FoldLeft(LAMBDA pos, r : IF pos = r[1] THEN r[2] ELSE -1, from, sorted) = to

Analyse(bs, hints) ==
  LET ft == TLCEval(Footer(bs)) IN
  IF ~ft.ok THEN [probs |-> <<ft.why>>, streams |-> <<>>]
  ELSE
  LET fm == ft.fm
      leaves == TLCEval(Leaves(fm))
      rgs == L(Field(fm, 4))
      nl == Len(leaves)
  IN IF ~SchemaConsumed(fm) \/ \E k \in 1..nl : leaves[k].bad THEN [probs |-> <<"schema-tree">>, streams |-> <<>>]
     ELSE IF \E g \in 1..Len(rgs) : Len(L(Field(rgs[g], 1))) # nl THEN [probs |-> <<"row-group-column-count">>, streams |-> <<>>]
     ELSE
     LET ch == TLCEval([g \in 1..Len(rgs) |-> [c \in 1..nl |-> Chunk(bs, L(Field(rgs[g], 1))[c], leaves[c], hints, I(Field(rgs[g], 3)))]])
         rgProbs(g) ==
           LET rg == rgs[g]
               cols == L(Field(rg, 1))
               md(c) == Field(cols[c], 3)
               firstOff(c) == LET d == IOr(md(c), 11, 0)  p == I(Field(md(c), 9)) IN IF d > 0 /\ d < p THEN d ELSE p
           IN (IF I(Field(rg, 2)) # SumOf([c \in 1..nl |-> c], LAMBDA c : I(Field(md(c), 6))) THEN <<"rg.total_byte_size">> ELSE <<>>)
           \o (IF Has(rg, 6) /\ I(Field(rg, 6)) # SumOf([c \in 1..nl |-> c], LAMBDA c : I(Field(md(c), 7))) THEN <<"rg.total_compressed_size">> ELSE <<>>)
           \o (IF Has(rg, 5) /\ I(Field(rg, 5)) # firstOff(1) THEN <<"rg.file_offset">> ELSE <<>>)
           \o (IF Has(rg, 7) /\ I(Field(rg, 7)) # g - 1 THEN <<"rg.ordinal">> ELSE <<>>)
           \o FoldLeft(LAMBDA a, c : a \o ch[g][c].probs, <<>>, [c \in 1..nl |-> c])
         allRegions == FoldLeft(LAMBDA a, g : a \o FoldLeft(LAMBDA b, c : b \o ch[g][c].regions, <<>>, [c \in 1..nl |-> c]), <<>>, [g \in 1..Len(rgs) |-> g])
     IN [probs |-> FoldLeft(LAMBDA a, g : a \o rgProbs(g), <<>>, [g \in 1..Len(rgs) |-> g])
                 \o (IF I(Field(fm, 3)) # SumOf(rgs, LAMBDA rg : I(Field(rg, 3))) THEN <<"file.num_rows">> ELSE <<>>)
                 \* FileMetaData 7 column_orders: one per leaf; RowGroup 4 sorting_columns: SortingColumn 1 column_idx names a leaf
                 \o (IF Has(fm, 7) /\ Len(L(Field(fm, 7))) # nl THEN <<"file.column_orders">> ELSE <<>>)
                 \o (IF \E g \in 1..Len(rgs) : Has(rgs[g], 4) /\ \E k \in 1..Len(L(Field(rgs[g], 4))) :
                            LET ci == I(Field(L(Field(rgs[g], 4))[k], 1)) IN ci < 0 \/ ci >= nl THEN <<"rg.sorting_columns">> ELSE <<>>)
                 \o (IF ~Tiles(allRegions, 4, ft.off) THEN <<"bytes-not-accounted-for">> ELSE <<>>),
         streams |-> [c \in 1..nl |-> [path |-> leaves[c].path,
                                        reps |-> FoldLeft(LAMBDA a, g : a \o ch[g][c].reps, <<>>, [g \in 1..Len(rgs) |-> g]),
                                        defs |-> FoldLeft(LAMBDA a, g : a \o ch[g][c].defs, <<>>, [g \in 1..Len(rgs) |-> g]),
                                        vals |-> FoldLeft(LAMBDA a, g : a \o ch[g][c].vals, <<>>, [g \in 1..Len(rgs) |-> g])]],
         rows |-> [g \in 1..Len(rgs) |-> I(Field(rgs[g], 3))]]
=============================================================================
