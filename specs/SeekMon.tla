------------------------------ MODULE SeekMon ------------------------------
(* VERDICT monitor for C08 (also reused by C16/C18 drivers for positioning): *)
(* the abstract requirement "after SeekToRow(k) the concatenation of what    *)
(* subsequent reads return is exactly the sequential content from row k on", *)
(* evaluated by TLC on traces recorded from the real readers.                *)
(*                                                                           *)
(* The monitor is total: every event is consumed; a failed conjunct appends  *)
(* <<trace, event index, class>> to `bad` and the trace becomes "unknown"    *)
(* (pos = -1) until its next successful seek.                                *)
(*                                                                           *)
(* Trace events (NDJSON, written by harness/cmd/vh/c08.go):                  *)
(*   Init  items    : the tokens a sequential read of this reader returns    *)
(*         rowStart : for every row k (0-based, plus one past the end) the   *)
(*                    0-based index in items of its first token              *)
(*   Seek  k, err                                                            *)
(*   Read  n, got (tokens), eof, err                                         *)
EXTENDS Integers, Sequences, TLC, Json

CONSTANT TraceFile
Trace == ndJsonDeserialize(TraceFile)

VARIABLES l,        \* next event
          items, rowStart,
          pos,      \* 0-based index in items the next read must start at; -1 = unknown
          bad, cnt
vars == <<l, items, rowStart, pos, bad, cnt>>

E == Trace[l]
MaxBad == 200

ReadClass(e) ==
  IF e.err = 1 THEN "read-error"
  ELSE IF Len(e.got) > Len(items) - pos THEN "rows-from-pos"
  ELSE IF e.got # SubSeq(items, pos + 1, pos + Len(e.got)) THEN "rows-from-pos"
  ELSE IF e.eof = 1 /\ pos + Len(e.got) # Len(items) THEN "early-eof"
  ELSE IF e.eof = 0 /\ Len(e.got) = 0 /\ e.n > 0 /\ pos = Len(items) THEN "missing-eof"
  ELSE "ok"

Flag(cls) == /\ bad' = IF Len(bad) < MaxBad THEN Append(bad, <<E.t, E.i, cls>>) ELSE bad
             /\ cnt' = [cnt EXCEPT !.flagged = @ + 1]

Init == /\ l = 1 /\ items = <<>> /\ rowStart = <<0>> /\ pos = -1 /\ bad = <<>>
        /\ cnt = [traces |-> 0, reads |-> 0, vacuous |-> 0, seekerr |-> 0, flagged |-> 0]

Step ==
  /\ l <= Len(Trace)
  /\ l' = l + 1
  /\ CASE E.ev = "Init" ->
            /\ items' = E.items /\ rowStart' = E.rowStart /\ pos' = 0
            /\ cnt' = [cnt EXCEPT !.traces = @ + 1] /\ bad' = bad
       [] E.ev = "Seek" ->
            /\ UNCHANGED <<items, rowStart, bad>>
            /\ IF E.err = 0 /\ E.k + 1 <= Len(rowStart)
               THEN pos' = rowStart[E.k + 1] /\ cnt' = cnt
               ELSE pos' = -1 /\ cnt' = [cnt EXCEPT !.seekerr = @ + 1]
       [] E.ev = "Read" ->
            /\ UNCHANGED <<items, rowStart>>
            /\ IF pos = -1
               THEN pos' = -1 /\ bad' = bad /\ cnt' = [cnt EXCEPT !.vacuous = @ + 1]
               ELSE LET c == ReadClass(E) IN
                    IF c = "ok"
                    THEN pos' = pos + Len(E.got) /\ bad' = bad /\ cnt' = [cnt EXCEPT !.reads = @ + 1]
                    ELSE pos' = -1 /\ Flag(c)

Spec == Init /\ [][Step]_vars

Done == l = Len(Trace) + 1 =>
          PrintT(<<"VERDICT", ToJson([consumed |-> l - 1, bad |-> bad, cnt |-> cnt])>>)
=============================================================================
