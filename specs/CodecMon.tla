------------------------------ MODULE CodecMon ------------------------------
(* VERDICT monitor for C20.                                                  *)
(*   Init  codec                                                             *)
(*   Call  op                      (emitted and flushed BEFORE the library   *)
(*                                  call; a Call without its Ret means the   *)
(*                                  process died inside the call)            *)
(*   Ret   op = "rt"  : same (decoded digest = input digest), encErr, decErr *)
(*         op = "bad" : err, panic          (decode of invalid input)        *)
(*         op = "par" : n goroutines, bad (number of mismatches or errors)   *)
(*   Fatal                          (appended by the driver after a death)   *)
EXTENDS Integers, Sequences, TLC, Json
CONSTANT TraceFile
Trace == ndJsonDeserialize(TraceFile)
VARIABLES l, pending, bad, cnt
vars == <<l, pending, bad, cnt>>
E == Trace[l]
MaxBad == 300
Flag(c) ==
  /\ bad' = (IF Len(bad) < MaxBad THEN Append(bad, <<E.t, E.i, c>>) ELSE bad)
  /\ cnt' = [cnt EXCEPT !.flagged = @ + 1]
Init == l = 1 /\ pending = FALSE /\ bad = <<>> /\ cnt = [traces |-> 0, roundtrips |-> 0, invalid |-> 0, parallel |-> 0, flagged |-> 0]
Step ==
  /\ l <= Len(Trace) /\ l' = l + 1
  /\ CASE E.ev = "Init" -> pending' = FALSE /\ bad' = bad /\ cnt' = [cnt EXCEPT !.traces = @ + 1]
       [] E.ev = "Call" -> pending' = TRUE /\ UNCHANGED <<bad, cnt>>
       [] E.ev = "Fatal" -> pending' = FALSE /\ Flag("fatal")
       [] E.ev = "Ret" ->
            /\ pending' = FALSE
            /\ IF "hang" \in DOMAIN E /\ E.hang = 1 THEN Flag("hang")
               ELSE IF E.panic = 1 THEN Flag("panic")
               ELSE IF E.op = "rt" THEN
                    IF E.encErr = 1 \/ E.decErr = 1 THEN Flag("roundtrip-error")
                    ELSE IF E.same = 0 THEN Flag("roundtrip-differs")
                    ELSE bad' = bad /\ cnt' = [cnt EXCEPT !.roundtrips = @ + 1]
               ELSE IF E.op = "par" THEN
                    IF E.bad > 0 THEN Flag("concurrent-differs")
                    ELSE bad' = bad /\ cnt' = [cnt EXCEPT !.parallel = @ + 1]
               ELSE bad' = bad /\ cnt' = [cnt EXCEPT !.invalid = @ + 1]
Spec == Init /\ [][Step]_vars
Done == l = Len(Trace) + 1 =>
          PrintT(<<"VERDICT", ToJson([consumed |-> l - 1, bad |-> bad, cnt |-> cnt])>>)
=============================================================================
