------------------------------- MODULE BufMon -------------------------------
(* VERDICT monitor for the page buffers of the BufferPool implementations.    *)
(* The recorded history is replayed through PageBuffer's operators; every     *)
(* logged result must be the one the specification allows in that state.      *)
(*   Init  kind, clamp                                                        *)
(*   Op    write: p, n, err | read: k, got, eof, err | seek: off, wh, ret,    *)
(*         err | writeto: got, n, err | recycle                               *)
EXTENDS PageBuffer, TLC, Json
CONSTANT TraceFile
Trace == ndJsonDeserialize(TraceFile)
VARIABLES l, st, clamp, bad, cnt
vars == <<l, st, clamp, bad, cnt>>
E == Trace[l]
MaxBad == 300
Flag(c) ==
  /\ bad' = (IF Len(bad) < MaxBad THEN Append(bad, <<E.t, E.i, c>>) ELSE bad)
  /\ cnt' = [cnt EXCEPT !.flagged = @ + 1]
Ok == bad' = bad /\ cnt' = [cnt EXCEPT !.ops = @ + 1]

Class(e) ==
  CASE e.op = "write"   -> IF e.err = 1 \/ e.n # Len(e.p) THEN "write-result" ELSE "ok"
    [] e.op = "read"    -> IF e.err = 1 THEN "read-error"
                           ELSE IF ReadOk(st, e.k, e.got, e.eof = 1) THEN "ok"
                           ELSE IF Len(e.got) = 0 /\ Avail(st) > 0 /\ e.k > 0 THEN "read-nothing"
                           ELSE IF e.eof = 1 /\ Len(e.got) < Avail(st) THEN "read-early-eof"
                           ELSE "read-content"
    [] e.op = "seek"    -> IF SeekFails(st, e.off, e.wh) THEN (IF e.err = 1 THEN "ok" ELSE "seek-accepted")
                           ELSE IF e.err = 1 THEN "seek-error"
                           ELSE IF e.ret # Seek(st, e.off, e.wh, clamp).pos THEN "seek-position" ELSE "ok"
    [] e.op = "writeto" -> IF e.err = 1 THEN "writeto-error"
                           ELSE IF e.got # Rest(st) THEN "writeto-content"
                           ELSE IF e.n # Len(e.got) THEN "writeto-count" ELSE "ok"
    [] OTHER            -> "ok"

After(e) ==
  CASE e.op = "write"   -> Write(st, e.p)
    [] e.op = "read"    -> AfterRead(st, Len(e.got))
    [] e.op = "seek"    -> Seek(st, e.off, e.wh, clamp)
    [] e.op = "writeto" -> AfterWriteTo(st)
    [] OTHER            -> Fresh       \* recycle: the pool hands out an empty buffer

Init == l = 1 /\ st = Fresh /\ clamp = TRUE /\ bad = <<>> /\ cnt = [traces |-> 0, ops |-> 0, flagged |-> 0]
Step ==
  /\ l <= Len(Trace) /\ l' = l + 1
  /\ CASE E.ev = "Init" -> st' = Fresh /\ clamp' = (E.clamp = 1) /\ bad' = bad /\ cnt' = [cnt EXCEPT !.traces = @ + 1]
       [] OTHER -> /\ clamp' = clamp /\ st' = After(E)
                   /\ LET c == Class(E) IN IF c = "ok" THEN Ok ELSE Flag(c)
Spec == Init /\ [][Step]_vars
Done == l = Len(Trace) + 1 =>
          PrintT(<<"VERDICT", ToJson([consumed |-> l - 1, bad |-> bad, cnt |-> cnt])>>)
=============================================================================
