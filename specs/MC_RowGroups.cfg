CONSTANTS N = 3  MaxBatches = 5  MaxCommits = 4  Bug = "none"
SPECIFICATION Spec
INVARIANTS SerialEquivalent NothingLost
VIEW NoHist
CHECK_DEADLOCK FALSE
