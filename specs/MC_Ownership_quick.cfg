CONSTANTS NB = 3  MaxOps = 6  Detach = TRUE
SPECIFICATION Spec
INVARIANT HeldMemoryIsNotPooled
VIEW view
CHECK_DEADLOCK FALSE
