----------------------------- MODULE CascadeMon -----------------------------
(* VERDICT monitor for C11.                                                  *)
(*   Init  s, d (source and destination vectors), maxRows                    *)
(*   Fast  the output of WriteRowGroup with the fast paths enabled           *)
(*   Ref   the output with the fast paths disabled (row path = reference)    *)
(*         rows (ids in order), rgSizes, cols (per column: codec, page        *)
(*         versions seen, dictionary pages, plain pages, page-header stats,   *)
(*         column index present, bloom present, bloom bytes), copied, reenc   *)
(* Requirement: same rows in the same order; every observable setting equals  *)
(* the reference's (what dst configured), one class per setting; every output *)
(* row group holds at most maxRows rows.  Page boundaries and the partition   *)
(* into row groups below the maximum are not compared.                        *)
EXTENDS Integers, Sequences, TLC, Json
CONSTANT TraceFile
Trace == ndJsonDeserialize(TraceFile)
VARIABLES l, cur, fast, bad, cnt
vars == <<l, cur, fast, bad, cnt>>
E == Trace[l]
MaxBad == 300
Flag(c) ==
  /\ bad' = (IF Len(bad) < MaxBad THEN Append(bad, <<E.t, E.i, c>>) ELSE bad)
  /\ cnt' = [cnt EXCEPT !.flagged = @ + 1]
Names == <<"codec", "page-version", "dictionary-encoding", "plain-encoding", "page-stats", "column-index", "bloom-presence", "bloom-size">>
\* sizeToo: the first row groups hold the same number of rows, so the filter sizes (a function of the row
\* count) are comparable; the partition into row groups below the maximum may legitimately differ
FirstDiff(a, b, sizeToo) ==
  IF Len(a) # Len(b) THEN "columns"
  ELSE LET diffs == {<<c, k>> \in (1..Len(a)) \X (1..(IF sizeToo THEN 8 ELSE 7)) : a[c][k] # b[c][k]} IN
       IF diffs = {} THEN "none"
       ELSE Names[(CHOOSE p \in diffs : \A q \in diffs : p[2] <= q[2])[2]]
RefClass(ref) ==
  IF ref.err = 1 THEN (IF fast.err = 1 THEN "both-error" ELSE "reference-error")
  ELSE IF fast.err = 1 THEN "fast-path-error"
  ELSE IF fast.rows # ref.rows THEN "rows"
  ELSE IF \E i \in 1..Len(fast.rgSizes) : fast.rgSizes[i] > cur.maxRows THEN "rowgroup-limit"
  ELSE LET dd == FirstDiff(fast.cols, ref.cols, Len(fast.rgSizes) > 0 /\ Len(ref.rgSizes) > 0 /\ fast.rgSizes[1] = ref.rgSizes[1])
           path == IF fast.copied > 0 THEN "copy" ELSE IF fast.reenc > 0 THEN "reencode" ELSE "rows"
       IN IF dd = "none" THEN "ok" ELSE dd \o "@" \o path
Init == /\ l = 1 /\ cur = [maxRows |-> 0] /\ fast = [err |-> 0] /\ bad = <<>>
        /\ cnt = [traces |-> 0, compared |-> 0, copy |-> 0, reencode |-> 0, rowpath |-> 0, vacuous |-> 0, flagged |-> 0]
Step ==
  /\ l <= Len(Trace) /\ l' = l + 1
  /\ CASE E.ev = "Init" -> cur' = E /\ fast' = fast /\ bad' = bad /\ cnt' = [cnt EXCEPT !.traces = @ + 1]
       [] E.ev = "Fast" -> fast' = E /\ UNCHANGED <<cur, bad, cnt>>
       [] E.ev = "Ref" ->
            /\ UNCHANGED <<cur, fast>>
            /\ LET c == RefClass(E) IN
               IF c = "ok" THEN bad' = bad /\ cnt' = [cnt EXCEPT !.compared = @ + 1,
                                   !.copy = @ + (IF fast.copied > 0 THEN 1 ELSE 0),
                                   !.reencode = @ + (IF fast.reenc > 0 THEN 1 ELSE 0),
                                   !.rowpath = @ + (IF fast.copied = 0 /\ fast.reenc = 0 THEN 1 ELSE 0)]
               ELSE IF c \in {"both-error", "reference-error"} THEN bad' = bad /\ cnt' = [cnt EXCEPT !.vacuous = @ + 1]
               ELSE Flag(c)
Spec == Init /\ [][Step]_vars
Done == l = Len(Trace) + 1 =>
          PrintT(<<"VERDICT", ToJson([consumed |-> l - 1, bad |-> bad, cnt |-> cnt])>>)
=============================================================================
