------------------------------ MODULE FindMon ------------------------------
(* VERDICT monitor for C06: judged on the REAL column index produced by the  *)
(* real writer, the real page contents and the real result of Find/Search.   *)
(*   Init  pages    : values of every page (each value a lexicographically   *)
(*                    ordered integer sequence, <<-1>> = null)               *)
(*         min, max : the index bounds as the reader exposes them            *)
(*         nullPage : 0/1 per page ; asc, desc : the claimed boundary order  *)
(*   Find  v, r, how                                                          *)
EXTENDS Order, TLC, Json, FiniteSets

CONSTANT TraceFile
Trace == ndJsonDeserialize(TraceFile)

VARIABLES l, cur, bad, cnt
vars == <<l, cur, bad, cnt>>
E == Trace[l]
MaxBad == 200

NP == Len(cur.pages)
Within(p, v) == cur.nullPage[p] = 0 /\ LexLE(cur.min[p], v) /\ LexLE(v, cur.max[p])
Occurs(v) == {p \in 1..NP : \E j \in 1..Len(cur.pages[p]) : cur.pages[p][j] = v}
MayHold(v) == {p \in 1..NP : Within(p, v)}

FindClass(e) ==
  IF e.err = 1 THEN "error"
  ELSE IF e.r < 0 \/ e.r > NP THEN "range"
  ELSE IF \E p \in Occurs(e.v) : e.r + 1 > p THEN "miss"               \* returned a page after one that holds v
  ELSE IF e.r < NP /\ ~Within(e.r + 1, e.v) THEN "bounds"              \* returned page cannot hold v
  ELSE IF e.r = NP /\ MayHold(e.v) # {} THEN "numpages"                \* said absent although a page may hold v
  ELSE "ok"

Init == /\ l = 1 /\ bad = <<>> /\ cur = [pages |-> <<>>]
        /\ cnt = [traces |-> 0, finds |-> 0, present |-> 0, flagged |-> 0]

Step ==
  /\ l <= Len(Trace) /\ l' = l + 1
  /\ CASE E.ev = "Init" -> cur' = E /\ bad' = bad /\ cnt' = [cnt EXCEPT !.traces = @ + 1]
       [] E.ev = "Find" ->
            LET c == FindClass(E) IN
            /\ cur' = cur
            /\ IF c = "ok"
               THEN bad' = bad /\ cnt' = [cnt EXCEPT !.finds = @ + 1,
                                                     !.present = @ + (IF Occurs(E.v) # {} THEN 1 ELSE 0)]
               ELSE /\ bad' = IF Len(bad) < MaxBad THEN Append(bad, <<E.t, E.i, c>>) ELSE bad
                    /\ cnt' = [cnt EXCEPT !.flagged = @ + 1]

Spec == Init /\ [][Step]_vars
Done == l = Len(Trace) + 1 =>
          PrintT(<<"VERDICT", ToJson([consumed |-> l - 1, bad |-> bad, cnt |-> cnt])>>)
=============================================================================
