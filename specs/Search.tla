------------------------------- MODULE Search -------------------------------
(* Implementation-shaped model of parquet.Find (search.go) together with the  *)
(* writer rule that decides the BoundaryOrder of a column index               *)
(* (column_index.go: baseColumnIndexer.columnIndex, boundaryOrderOf;          *)
(* order_purego.go: orderOf).  Pure functions, transcribed as operators; the  *)
(* state space is the universe of (index, probe) pairs.                       *)
(*                                                                            *)
(* A page is either a null page or [lo, hi] (its non-null values are lo and   *)
(* hi).  Null pages expose null bounds; under CompareNullsLast null compares  *)
(* above every value.  In the indexer null pages contribute the placeholder 0 *)
(* to the min/max lists whose order decides the BoundaryOrder.                *)
(*                                                                            *)
(* Fix = FALSE: code as found (binary search whenever ASCENDING).             *)
(* Fix = TRUE : code after the fix commit (binary search only when the index  *)
(*              has no null page).                                            *)
EXTENDS Integers, Sequences, FiniteSets, TLC

CONSTANTS V,        \* values are 0..V ; probes 0..V+1
          NPmax,    \* at most this many pages
          Fix

INF == V + 10            \* a null bound under CompareNullsLast
NullP == [null |-> TRUE, lo |-> 0, hi |-> 0]
PageSet == {NullP} \cup {[null |-> FALSE, lo |-> a, hi |-> b] : a \in 0..V, b \in 0..V}
Indexes == UNION {{idx \in [1..n -> PageSet] : \A i \in 1..n : idx[i].lo <= idx[i].hi} : n \in 0..NPmax}

Min(p) == IF p.null THEN INF ELSE p.lo
Max(p) == IF p.null THEN INF ELSE p.hi

\* ---- writer: boundary order --------------------------------------------
Place(p, which) == IF p.null THEN 0 ELSE IF which = "min" THEN p.lo ELSE p.hi
NonDecr(s) == \A i \in 1..(Len(s) - 1) : s[i] <= s[i + 1]
NonIncr(s) == \A i \in 1..(Len(s) - 1) : s[i] >= s[i + 1]
OrderOf(s) == IF Len(s) < 2 THEN 0 ELSE IF NonDecr(s) THEN 1 ELSE IF NonIncr(s) THEN -1 ELSE 0
MinOrder(idx) == OrderOf([i \in 1..Len(idx) |-> Place(idx[i], "min")])
MaxOrder(idx) == OrderOf([i \in 1..Len(idx) |-> Place(idx[i], "max")])
IsAscending(idx)  == MinOrder(idx) = MaxOrder(idx) /\ MinOrder(idx) > 0
IsDescending(idx) == MinOrder(idx) = MaxOrder(idx) /\ MinOrder(idx) < 0
HasNull(idx) == \E i \in 1..Len(idx) : idx[i].null

\* ---- reader: Find -------------------------------------------------------
RECURSIVE BS(_, _, _, _)
BS(idx, v, cur, top) ==                       \* binarySearch loop, 0-based
  IF cur >= top THEN cur
  ELSE LET nxt == ((top - cur) \div 2) + cur
           p == idx[nxt + 1]
       IN IF v < Min(p) THEN BS(idx, v, cur, nxt)
          ELSE IF v > Max(p) THEN BS(idx, v, nxt + 1, top)
          ELSE BS(idx, v, cur, nxt)
Binary(idx, v) == LET n == Len(idx)  c == BS(idx, v, 0, n) IN
                  IF c < n /\ (v < Min(idx[c + 1]) \/ v > Max(idx[c + 1])) THEN n ELSE c
RECURSIVE LS(_, _, _)
LS(idx, v, i) == IF i >= Len(idx) THEN Len(idx)
                 ELSE IF Min(idx[i + 1]) <= v /\ v <= Max(idx[i + 1]) THEN i ELSE LS(idx, v, i + 1)
Find(idx, v) == IF IsAscending(idx) /\ (Fix => ~HasNull(idx)) THEN Binary(idx, v) ELSE LS(idx, v, 0)

\* ---- requirement (C06) --------------------------------------------------
Occurs(idx, v) == {i \in 0..(Len(idx) - 1) : ~idx[i + 1].null /\ (v = idx[i + 1].lo \/ v = idx[i + 1].hi)}
MayHold(idx, v) == {i \in 0..(Len(idx) - 1) : ~idx[i + 1].null /\ idx[i + 1].lo <= v /\ v <= idx[i + 1].hi}
Req(idx, v) == LET r == Find(idx, v) IN
  /\ r \in 0..Len(idx)
  /\ \A p \in Occurs(idx, v) : r <= p
  /\ (r < Len(idx) => r \in MayHold(idx, v))
  /\ (r = Len(idx) => MayHold(idx, v) = {})

VARIABLES idx, v
Init == idx \in Indexes /\ v \in 0..(V + 1)
Next == UNCHANGED <<idx, v>>
NeverMisses == Req(idx, v)
=============================================================================
