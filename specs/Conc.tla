-------------------------------- MODULE Conc --------------------------------
(* Usage patterns that the documentation allows from several goroutines, as    *)
(* workloads: G goroutines, each with a task drawn from the pattern's           *)
(* alphabet.  Tasks of one pattern share what the pattern says they share (one  *)
(* File; the process-wide pools, codecs, schemas) and nothing else, so the      *)
(* requirement is that every task's result equals its result when the tasks    *)
(* run one after the other.  This module only enumerates workloads (G); the     *)
(* judgement is ConcMon.tla.                                                    *)
EXTENDS Integers, Sequences, TLC, Json
CONSTANTS MaxG
Patterns == {"readers", "independent", "colwriters", "asyncfile"}
Tasks(p) == CASE p = "readers" -> {"rows", "pages", "colindex", "offindex", "bloom", "seekrows", "genericread", "find"}
              [] p = "independent" -> {"write-read", "buffer-sort", "sorting-writer", "merge", "copy", "codecs",
                                        \* rows taken apart and put together by reflection (Schema.Deconstruct / Reconstruct and their pools)
                                        "reflect-write", "reflect-read", "rowbuffer"}
              [] p = "colwriters" -> {"cols"}
              [] p = "asyncfile" -> {"rows", "pages", "seekrows"}
VARIABLES pat, tasks, fin
vars == <<pat, tasks, fin>>
Init == pat \in Patterns /\ tasks = <<>> /\ fin = FALSE
Add == ~fin /\ Len(tasks) < MaxG /\ \E t \in Tasks(pat) : tasks' = Append(tasks, t) /\ UNCHANGED <<pat, fin>>
Finish == /\ ~fin /\ Len(tasks) >= 2 /\ fin' = TRUE /\ UNCHANGED <<pat, tasks>>
          /\ PrintT(<<"SCENARIO", ToJson([pat |-> pat, tasks |-> tasks])>>)
Next == Add \/ Finish \/ (fin /\ UNCHANGED vars)
Spec == Init /\ [][Next]_vars
=============================================================================
