CONSTANTS Tok = {1}  MaxList = 2  Fam = {"fork2"}
INIT Init
NEXT Next
INVARIANTS RoundTrip LevelsBounded FirstRepZero OneStreamPerLeaf
CHECK_DEADLOCK FALSE
