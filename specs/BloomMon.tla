------------------------------ MODULE BloomMon ------------------------------
(* VERDICT monitor for C07.                                                  *)
(*   Init    type, cfg                                                       *)
(*   Filter  rg, present (the chunk exposes a bloom filter), configured,     *)
(*           bits (the bitset as it lies in the file), std (1: split block   *)
(*           algorithm, xxHash, uncompressed - what other readers probe)     *)
(*   Check   rg, v (PLAIN bytes), ok, err : result of BloomFilter.Check for  *)
(*           a non-null value that was written to that row group's chunk     *)
(* Besides the library's own answer, the probe of a reader written from the  *)
(* format document (Sbbf.tla, XXHash.tla) must find the value in the bits.   *)
EXTENDS Sbbf, Json
CONSTANT TraceFile
Trace == ndJsonDeserialize(TraceFile)
VARIABLES l, bits, bad, cnt
vars == <<l, bits, bad, cnt>>
E == Trace[l]
MaxBad == 300
Flag(c) ==
  /\ bad' = (IF Len(bad) < MaxBad THEN Append(bad, <<E.t, E.i, c>>) ELSE bad)
  /\ cnt' = [cnt EXCEPT !.flagged = @ + 1]
Init == l = 1 /\ bits = <<>> /\ bad = <<>> /\ cnt = [traces |-> 0, checks |-> 0, filters |-> 0, probes |-> 0, flagged |-> 0]
Step ==
  /\ l <= Len(Trace) /\ l' = l + 1
  /\ bits' = (IF E.ev = "Init" THEN <<>> ELSE IF E.ev = "Filter" THEN (IF E.std = 1 THEN E.bits ELSE <<>>) ELSE bits)
  /\ CASE E.ev = "Init" -> bad' = bad /\ cnt' = [cnt EXCEPT !.traces = @ + 1]
       [] E.ev = "Filter" -> IF E.configured = 1 /\ E.present = 0 THEN Flag("no-filter")
                             ELSE bad' = bad /\ cnt' = [cnt EXCEPT !.filters = @ + 1]
       [] E.ev = "Check" -> IF E.err = 1 THEN Flag("check-error")
                            ELSE IF E.ok = 0 THEN Flag("absent")
                            ELSE IF Len(bits) > 0 /\ ~Probe(bits, XXH64(E.v)) THEN Flag("absent@format")
                            ELSE bad' = bad /\ cnt' = [cnt EXCEPT !.checks = @ + 1, !.probes = @ + (IF Len(bits) > 0 THEN 1 ELSE 0)]
       [] E.ev = "WriteError" -> Flag("write-error")
Spec == Init /\ [][Step]_vars
Done == l = Len(Trace) + 1 =>
          PrintT(<<"VERDICT", ToJson([consumed |-> l - 1, bad |-> bad, cnt |-> cnt])>>)
=============================================================================
