------------------------------ MODULE BloomMon ------------------------------
(* VERDICT monitor for C07.                                                  *)
(*   Init    type, cfg                                                       *)
(*   Filter  rg, present (the chunk exposes a bloom filter), configured      *)
(*   Check   rg, tok, ok, err : result of BloomFilter.Check(value) for a     *)
(*           non-null value that was written to that row group's chunk       *)
EXTENDS Integers, Sequences, TLC, Json
CONSTANT TraceFile
Trace == ndJsonDeserialize(TraceFile)
VARIABLES l, bad, cnt
vars == <<l, bad, cnt>>
E == Trace[l]
MaxBad == 300
Flag(c) ==
  /\ bad' = (IF Len(bad) < MaxBad THEN Append(bad, <<E.t, E.i, c>>) ELSE bad)
  /\ cnt' = [cnt EXCEPT !.flagged = @ + 1]
Init == l = 1 /\ bad = <<>> /\ cnt = [traces |-> 0, checks |-> 0, filters |-> 0, flagged |-> 0]
Step ==
  /\ l <= Len(Trace) /\ l' = l + 1
  /\ CASE E.ev = "Init" -> bad' = bad /\ cnt' = [cnt EXCEPT !.traces = @ + 1]
       [] E.ev = "Filter" -> IF E.configured = 1 /\ E.present = 0 THEN Flag("no-filter")
                             ELSE bad' = bad /\ cnt' = [cnt EXCEPT !.filters = @ + 1]
       [] E.ev = "Check" -> IF E.err = 1 THEN Flag("check-error")
                            ELSE IF E.ok = 0 THEN Flag("absent")
                            ELSE bad' = bad /\ cnt' = [cnt EXCEPT !.checks = @ + 1]
       [] E.ev = "WriteError" -> Flag("write-error")
Spec == Init /\ [][Step]_vars
Done == l = Len(Trace) + 1 =>
          PrintT(<<"VERDICT", ToJson([consumed |-> l - 1, bad |-> bad, cnt |-> cnt])>>)
=============================================================================
