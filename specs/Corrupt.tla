------------------------------- MODULE Corrupt -------------------------------
(* Implementation-shaped model of which LOAD ROUTINE brings a page into       *)
(* memory and whether that routine verifies the page checksum (file.go):      *)
(*   readPage        :1447  data pages and the dictionary page when it is     *)
(*                          met in the stream - verifies header.CRC           *)
(*   readDictionary  :1323  lazy load of the dictionary page from the start   *)
(*                          of the chunk when a dictionary-encoded data page  *)
(*                          is decoded and no dictionary is loaded yet (after *)
(*                          a seek) - as found: NO checksum verification      *)
(* One column chunk with a dictionary page and NP dictionary-encoded data     *)
(* pages.  Exactly one stored page body is corrupted (bad).                   *)
(* Fix = TRUE: readDictionary verifies the checksum like readPage.            *)
EXTENDS Integers, Sequences, FiniteSets, TLC

CONSTANTS NP, MaxOps, Fix

VARIABLES bad,         \* <<"dict", 0>> or <<"page", p>>
          stream,      \* 0 = positioned on the dictionary page, p = positioned on data page p, NP+1 = end
          dictLoaded,
          outcome,     \* history of what Read returned: <<"page", p>> | <<"corrupted">> | <<"eof">>
          ops
vars == <<bad, stream, dictLoaded, outcome, ops>>

Init == /\ bad \in {<<"dict", 0>>} \cup {<<"page", p>> : p \in 1..NP}
        /\ stream = 0 /\ dictLoaded = FALSE /\ outcome = <<>> /\ ops = 0

\* SeekToRow: with or without an offset index the stream is repositioned on a DATA page
\* (file.go:1556 seeks to dataOffset, :1628 to the page location) - the dictionary page is skipped
Seek(p) == /\ ops < MaxOps /\ p \in 1..NP
           /\ stream' = p /\ ops' = ops + 1 /\ UNCHANGED <<bad, dictLoaded, outcome>>

Read ==
  /\ ops < MaxOps /\ ops' = ops + 1 /\ UNCHANGED bad
  /\ IF stream = 0
     THEN \* the dictionary page is met in the stream: readPage verifies it
          IF bad = <<"dict", 0>>
          THEN outcome' = Append(outcome, <<"corrupted">>) /\ UNCHANGED <<stream, dictLoaded>>
          ELSE \* dictionary decoded, loop continues with data page 1
               /\ dictLoaded' = TRUE
               /\ IF bad = <<"page", 1>>
                  THEN outcome' = Append(outcome, <<"corrupted">>) /\ stream' = 1
                  ELSE outcome' = Append(outcome, <<"page", 1>>) /\ stream' = 2
     ELSE IF stream > NP THEN outcome' = Append(outcome, <<"eof">>) /\ UNCHANGED <<stream, dictLoaded>>
     ELSE \* data page: readPage verifies its checksum first
          IF bad = <<"page", stream>>
          THEN outcome' = Append(outcome, <<"corrupted">>) /\ UNCHANGED <<stream, dictLoaded>>
          ELSE \* dictionary-encoded page: lazy dictionary load when needed
               IF ~dictLoaded /\ bad = <<"dict", 0>> /\ Fix
               THEN outcome' = Append(outcome, <<"corrupted">>) /\ UNCHANGED <<stream, dictLoaded>>
               ELSE /\ outcome' = Append(outcome, <<"page", stream>>)
                    /\ dictLoaded' = TRUE /\ stream' = stream + 1

Next == Read \/ \E p \in 1..NP : Seek(p)
Spec == Init /\ [][Next]_vars

\* requirement (C13): a page is delivered only if neither its body nor the dictionary it needs is corrupted
NeverReturned == \A i \in 1..Len(outcome) :
                    outcome[i][1] = "page" => bad # <<"dict", 0>> /\ bad # <<"page", outcome[i][2]>>
=============================================================================
