CONSTANTS W = 4  MaxN = 9  Fix = FALSE
INIT Init
NEXT Next
INVARIANTS Homogeneous Tiles
CHECK_DEADLOCK FALSE
