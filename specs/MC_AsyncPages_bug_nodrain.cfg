CONSTANTS NP = 2  MaxOps = 3  Faults = 0  Bug = "nodrain"
SPECIFICATION FairSpec
PROPERTIES ReaderExits
CHECK_DEADLOCK TRUE
