-------------------------------- MODULE Stats --------------------------------
(* Implementation-shaped model of how the writer folds page bounds into       *)
(* column-chunk statistics and the column index (writer.go recordPageStats    *)
(* :2714-2770, column_index.go IndexPage / boundaryOrderOf, page bounds of    *)
(* float pages).  A page is a sequence over {NULL, NAN} \cup 1..V.            *)
(*                                                                            *)
(*  page bounds : min/max over the non-null, non-NaN values; a page whose     *)
(*                non-null values are all NaN reports NaN bounds; a page of   *)
(*                nulls only has no bounds                                    *)
(*  chunk fold  : first bounds seen are taken; later ones replace the         *)
(*                existing bound iff Compare says smaller / larger;           *)
(*                Compare(x, NaN) = 0 for floats, so (Fix = FALSE, as found)  *)
(*                a NaN bound is never replaced.  Fix = TRUE: an existing NaN *)
(*                bound counts as absent.                                     *)
EXTENDS Integers, Sequences, FiniteSets, TLC

CONSTANTS V, MaxPages, MaxVals, Fix
NULL == -1
NAN == 0
Sym == {NULL, NAN} \cup (1..V)

PageSet == UNION {[1..n -> Sym] : n \in 1..MaxVals}
\* pages as multisets: keep only non-decreasing sequences (order inside a page is irrelevant)
Canon(p) == \A i \in 1..(Len(p) - 1) : p[i] <= p[i + 1]
Layouts == UNION {[1..n -> {p \in PageSet : Canon(p)}] : n \in 1..MaxPages}

Vals(p) == {p[i] : i \in 1..Len(p)}
Real(p) == Vals(p) \ {NULL, NAN}
SetMin(S) == CHOOSE x \in S : \A y \in S : x <= y
SetMax(S) == CHOOSE x \in S : \A y \in S : x >= y

\* <<has, min, max>>
PageBounds(p) ==
  IF Vals(p) \ {NULL} = {} THEN <<FALSE, NULL, NULL>>
  ELSE IF Real(p) = {} THEN <<TRUE, NAN, NAN>>
  ELSE <<TRUE, SetMin(Real(p)), SetMax(Real(p))>>

\* Compare as the float column type does: any NaN operand compares equal
Cmp(a, b) == IF a = NAN \/ b = NAN THEN 0 ELSE IF a < b THEN -1 ELSE IF a > b THEN 1 ELSE 0
Absent(x) == x = NULL \/ (Fix /\ x = NAN)

RECURSIVE Fold(_, _, _)
Fold(lay, i, acc) ==                  \* acc = <<min, max>>, NULL = absent
  IF i > Len(lay) THEN acc
  ELSE LET b == PageBounds(lay[i]) IN
       IF ~b[1] THEN Fold(lay, i + 1, acc)
       ELSE LET mx == IF Absent(acc[2]) \/ Cmp(b[3], acc[2]) > 0 THEN b[3] ELSE acc[2]
                mn == IF Absent(acc[1]) \/ Cmp(b[2], acc[1]) < 0 THEN b[2] ELSE acc[1]
            IN Fold(lay, i + 1, <<mn, mx>>)
ChunkStats(lay) == Fold(lay, 1, <<NULL, NULL>>)

AllReal(lay) == UNION {Real(lay[i]) : i \in 1..Len(lay)}

VARIABLE lay
Init == lay \in Layouts
Next == UNCHANGED lay

\* requirement: when the chunk holds ordinary values, its statistics bound them
ChunkBounds == LET s == ChunkStats(lay)  R == AllReal(lay) IN
                 R # {} => /\ s[1] \notin {NULL, NAN} /\ s[2] \notin {NULL, NAN}
                           /\ \A x \in R : s[1] <= x /\ x <= s[2]
PageBoundsOK == \A i \in 1..Len(lay) : LET b == PageBounds(lay[i]) IN
                  Real(lay[i]) # {} => b[1] /\ \A x \in Real(lay[i]) : b[2] <= x /\ x <= b[3]
=============================================================================
