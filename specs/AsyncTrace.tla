----------------------------- MODULE AsyncTrace -----------------------------
(* Trace validation of the real asyncPages against AsyncPages.tla.              *)
(*                                                                             *)
(* The harness logs, under one mutex (so the file order is the real-time       *)
(* order), only what is visible from outside the library:                      *)
(*   Call{op,k}   just before the caller invokes ReadPage/SeekToRow/Close      *)
(*   Ret{page,err} just after it returned                                      *)
(*   U{op,k,o}    inside the underlying Pages, called by the reader goroutine  *)
(*   Init{sc,np}  start of a new trace;  End  the scenario ran to its end      *)
(* Every channel operation in between is unlogged: it is an internal step of   *)
(* the model that TLC places wherever the logged events allow.  A trace is     *)
(* accepted when some behaviour of AsyncPages reproduces all its events, with  *)
(* the logged results; since results are determined by the model, a wrong      *)
(* page, a swallowed error or a missing return (Hang) is a rejection.          *)
(* The high-water mark of consumed events is kept in TLC register 7.           *)
EXTENDS AsyncPages, Json

Trace == ndJsonDeserialize("trace.ndjson")
VARIABLES l, pend, pop
tvars == <<vars, l, pend, pop>>

Ev == Trace[l]
Is(e) == l <= Len(Trace) /\ Ev.ev = e
Adv == l' = l + 1
Hold == l' = l

TInit == Init /\ l = 1 /\ pend = "none" /\ pop = [op |-> "-", k |-> -1]

\* a new trace starts: everything back to the initial state
TReset == /\ Is("Init") /\ Adv /\ pend' = "none" /\ pop' = [op |-> "-", k |-> -1]
          /\ offer' = <<>> /\ readClosed' = FALSE /\ seekCh' = <<>> /\ initOpen' = TRUE /\ doneOpen' = TRUE
          /\ cpc' = "idle" /\ version' = 0 /\ seekNil' = FALSE /\ carg' = -1 /\ ret' = NoRet /\ nops' = 0
          /\ want' = 0 /\ dead' = FALSE /\ ok' = TRUE
          /\ rpc' = "waitInit" /\ seekTo' = [row |-> -1, version |-> 0] /\ upos' = 0 /\ err' = "none" /\ faults' = 0
          /\ produced' = 0 /\ delivered' = 0 /\ released' = 0

TCall == /\ Is("Call") /\ pend = "none" /\ cpc = "idle"
         /\ pend' = "called" /\ pop' = [op |-> Ev.op, k |-> Ev.k] /\ Adv /\ UNCHANGED vars

\* first step of the pending call (unlogged)
TBegin == /\ pend = "called" /\ pend' = "running" /\ Hold /\ UNCHANGED pop
          /\ CASE pop.op = "read"  -> CReadStart
               [] pop.op = "seek"  -> CSeekFlush(pop.k)
               [] pop.op = "close" -> CClose1
               [] OTHER -> FALSE

\* remaining caller steps (unlogged)
TCaller == /\ pend = "running" /\ Hold /\ UNCHANGED <<pend, pop>>
           /\ (CRecv \/ CRecvClosed \/ CSeekSend \/ CSeekStart \/ CClose2 \/ CDrain \/ CDrainEnd)

TRet == /\ Is("Ret") /\ pend = "running" /\ cpc = "idle" /\ ret # NoRet
        /\ Ev.page = ret.page /\ Ev.err = ret.err
        /\ pend' = "none" /\ Adv /\ UNCHANGED <<vars, pop>>

\* reader steps: the underlying calls are logged with their outcome, the rest is unlogged
TUSeek == /\ Is("U") /\ Ev.op = "seek" /\ seekTo.row = Ev.k /\ RLoopSeek(Ev.o) /\ Adv /\ UNCHANGED <<pend, pop>>
TURead == /\ Is("U") /\ Ev.op = "read" /\ (Ev.o = "none" => Ev.k = upos) /\ RLoopRead(Ev.o) /\ Adv /\ UNCHANGED <<pend, pop>>
TUClose == /\ Is("U") /\ Ev.op = "close" /\ rpc' = "exitSend" /\ (RDone \/ RWaitInit) /\ Adv /\ UNCHANGED <<pend, pop>>
TReader == /\ Hold /\ UNCHANGED <<pend, pop>>
           /\ \/ RWaitInit /\ rpc' = "checkSeek"
              \/ RCheckSeek \/ RLoopFatal \/ RTakeSeek \/ RClosing

\* the scenario ran to its end (it ends with Close): page accounting observed by the harness on the pages it served
TEnd == /\ Is("End") /\ pend = "none" /\ Adv /\ UNCHANGED <<vars, pend, pop>>
        /\ (seekNil /\ rpc = "dead") => (Ev.leaked = produced - delivered - released /\ Ev.doubles = 0 /\ Ev.early = 0)

TNext == TEnd \/ TReset \/ TCall \/ TBegin \/ TCaller \/ TRet \/ TUSeek \/ TURead \/ TUClose \/ TReader
TSpec == TInit /\ [][TNext]_tvars

ASSUME TLCSet(7, 0)
Track == (IF l - 1 > TLCGet(7) THEN TLCSet(7, l - 1) ELSE TRUE)
Report == PrintT(<<"VERDICT", ToJson([consumed |-> TLCGet(7), len |-> Len(Trace)])>>)
=============================================================================
