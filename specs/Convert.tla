------------------------------- MODULE Convert -------------------------------
(* Reading rows through a different but compatible schema (C12).              *)
(* Schema nodes carry names; a target schema is obtained from a source schema  *)
(* by deleting, permuting and adding fields at any depth.  Project is the      *)
(* requirement: columns present on both sides keep their values and nesting,   *)
(* added columns are null (optional / repeated) or zero (required), rows and   *)
(* their order are unchanged.                                                  *)
(* Node  : [name, k, rep, fields, lt]   (see Dremel.tla for values)            *)
EXTENDS Dremel, TLC

Find(fields, name) == SelectSeq(fields, LAMBDA f : f.name = name)
IndexOf(fields, name) == CHOOSE i \in 1..Len(fields) : fields[i].name = name

RECURSIVE Missing(_), Conv(_, _, _), ConvReq(_, _, _), ProjectFields(_, _, _, _)
\* value of a target node that has no counterpart in the source
Missing(t) ==
  IF t.rep \in {"opt", "rep"} THEN <<>>
  ELSE IF IsLeaf(t) THEN 0
  ELSE [i \in 1..Len(t.fields) |-> Missing(t.fields[i])]

ProjectFields(tfields, sfields, vs, i) ==
  IF i > Len(tfields) THEN <<>>
  ELSE LET tf == tfields[i] IN
       << IF Len(Find(sfields, tf.name)) = 0 THEN Missing(tf)
          ELSE Conv(sfields[IndexOf(sfields, tf.name)], tf, vs[IndexOf(sfields, tf.name)]) >>
       \o ProjectFields(tfields, sfields, vs, i + 1)

ConvReq(s, t, v) == IF IsLeaf(t) THEN v ELSE ProjectFields(t.fields, s.fields, v, 1)
Conv(s, t, v) ==
  IF t.rep = "opt" THEN (IF Len(v) = 0 THEN <<>> ELSE <<ConvReq(s, t, v[1])>>)
  ELSE IF t.rep = "rep" THEN [i \in 1..Len(v) |-> ConvReq(s, t, v[i])]
  ELSE ConvReq(s, t, v)

Project(src, tgt, row) == ProjectFields(tgt.fields, src.fields, row, 1)

(* ---- what the statement pins down exactly ---------------------------------- *)
(* For columns present on both sides the statement is exact (values and        *)
(* nesting).  For ADDED columns it only says "nulls (or zero values if         *)
(* required)"; whether an added optional group whose leaves are required is    *)
(* null or present-with-zeros, or whether an added repeated leaf is empty or   *)
(* holds a zero, is not pinned down.  The monitor therefore compares the       *)
(* output with the added fields stripped (Strip) against the projection onto   *)
(* the shared part of the target (Shared), and separately requires added       *)
(* fields to hold nothing but nulls and zeros (AddedClean).                    *)
RECURSIVE Shared(_, _), Strip(_, _, _), StripReq(_, _, _), AddedClean(_, _, _), AddedCleanReq(_, _, _), Zeros(_, _), ZerosReq(_, _)
Has(fields, name) == Len(Find(fields, name)) > 0
\* the target restricted to the fields that exist in the source
Shared(s, t) ==
  IF IsLeaf(t) THEN t
  ELSE LET keep == SelectSeq(t.fields, LAMBDA f : Has(s.fields, f.name)) IN
       [t EXCEPT !.fields = [i \in 1..Len(keep) |-> Shared(s.fields[IndexOf(s.fields, keep[i].name)], keep[i])]]
\* an output value with the added fields removed
StripReq(s, t, v) ==
  IF IsLeaf(t) THEN v
  ELSE LET idx == SelectSeq([i \in 1..Len(t.fields) |-> i], LAMBDA i : Has(s.fields, t.fields[i].name)) IN
       [k \in 1..Len(idx) |-> Strip(s.fields[IndexOf(s.fields, t.fields[idx[k]].name)], t.fields[idx[k]], v[idx[k]])]
Strip(s, t, v) ==
  IF t.rep = "opt" THEN (IF Len(v) = 0 THEN <<>> ELSE <<StripReq(s, t, v[1])>>)
  ELSE IF t.rep = "rep" THEN [i \in 1..Len(v) |-> StripReq(s, t, v[i])]
  ELSE StripReq(s, t, v)
\* every leaf of a value is a zero (or there is none)
ZerosReq(t, v) == IF IsLeaf(t) THEN v = 0 ELSE \A i \in 1..Len(t.fields) : Zeros(t.fields[i], v[i])
Zeros(t, v) == IF t.rep = "opt" THEN (Len(v) = 0 \/ ZerosReq(t, v[1]))
               ELSE IF t.rep = "rep" THEN \A i \in 1..Len(v) : ZerosReq(t, v[i])
               ELSE ZerosReq(t, v)
AddedCleanReq(s, t, v) ==
  IF IsLeaf(t) THEN TRUE
  ELSE \A i \in 1..Len(t.fields) :
         IF Has(s.fields, t.fields[i].name)
         THEN AddedClean(s.fields[IndexOf(s.fields, t.fields[i].name)], t.fields[i], v[i])
         ELSE Zeros(t.fields[i], v[i])
AddedClean(s, t, v) ==
  IF t.rep = "opt" THEN (Len(v) = 0 \/ AddedCleanReq(s, t, v[1]))
  ELSE IF t.rep = "rep" THEN \A i \in 1..Len(v) : AddedCleanReq(s, t, v[i])
  ELSE AddedCleanReq(s, t, v)
=============================================================================
