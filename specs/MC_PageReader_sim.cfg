CONSTANTS
  Layouts <- LayoutsThorough
  IndexModes <- Both
  MaxRow = 12
  MaxOps = 8
  Fix = TRUE
SPECIFICATION Spec
CONSTRAINT Emit
CHECK_DEADLOCK FALSE
