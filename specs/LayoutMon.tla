------------------------------ MODULE LayoutMon ------------------------------
(* VERDICT monitor for C02: every file is read by FileLayout.tla from its raw   *)
(* bytes alone.                                                                 *)
(*   Init  sc                                                                   *)
(*   File  bytes   the whole file                                                *)
(*         hints   [off, body]: decompressed bodies for codecs the specification *)
(*                 has no decoder for (by the page offset the spec derives)      *)
(*         expect  per leaf column, in schema order: path, vals, reps, defs      *)
(*                 that the harness handed to the writer                         *)
(*         rows    number of rows written                                        *)
(*   WriteError    the writer refused (not judged here)                          *)
(* Requirement: FileLayout finds no inconsistency, and its decoded streams are   *)
(* the streams written.                                                          *)
EXTENDS FileLayout, Json
CONSTANT TraceFile
Trace == ndJsonDeserialize(TraceFile)
VARIABLES l, bad, cnt
vars == <<l, bad, cnt>>
E == Trace[l]
MaxBad == 300
Flag(c) ==
  /\ bad' = (IF Len(bad) < MaxBad THEN Append(bad, <<E.t, E.i, c>>) ELSE bad)
  /\ cnt' = [cnt EXCEPT !.flagged = @ + 1]
Init == l = 1 /\ bad = <<>> /\ cnt = [traces |-> 0, files |-> 0, bytes |-> 0, columns |-> 0, values |-> 0, writeErrors |-> 0, flagged |-> 0]

StreamsOK(a, ex) ==
  /\ Len(a.streams) = Len(ex)
  /\ \A c \in 1..Len(ex) : /\ a.streams[c].path = ex[c].path
                           /\ a.streams[c].reps = ex[c].reps
                           /\ a.streams[c].defs = ex[c].defs
                           /\ a.streams[c].vals = ex[c].vals
FirstBadColumn(a, ex) ==
  IF Len(a.streams) # Len(ex) THEN "column-count"
  ELSE LET c == CHOOSE c \in 1..Len(ex) : a.streams[c] # [path |-> ex[c].path, reps |-> ex[c].reps, defs |-> ex[c].defs, vals |-> ex[c].vals]
       IN IF a.streams[c].path # ex[c].path THEN "path"
          ELSE IF a.streams[c].reps # ex[c].reps THEN "repetition-levels"
          ELSE IF a.streams[c].defs # ex[c].defs THEN "definition-levels" ELSE "values"
Step ==
  /\ l <= Len(Trace) /\ l' = l + 1
  /\ CASE E.ev = "Init" -> bad' = bad /\ cnt' = [cnt EXCEPT !.traces = @ + 1]
       [] E.ev = "WriteError" -> bad' = bad /\ cnt' = [cnt EXCEPT !.writeErrors = @ + 1]
       [] E.ev = "File" ->
            LET a == TLCEval(Analyse(E.bytes, E.hints)) IN
            IF Len(a.probs) > 0 THEN Flag("layout:" \o a.probs[1])
            ELSE IF ~StreamsOK(a, E.expect) THEN Flag("streams:" \o FirstBadColumn(a, E.expect))
            ELSE IF FoldLeft(LAMBDA x, y : x + y, 0, a.rows) # E.rows THEN Flag("streams:row-count")
            ELSE /\ bad' = bad
                 /\ cnt' = [cnt EXCEPT !.files = @ + 1, !.bytes = @ + Len(E.bytes), !.columns = @ + Len(E.expect),
                                       !.values = @ + FoldLeft(LAMBDA x, s : x + Len(s.reps), 0, E.expect)]
       [] OTHER -> UNCHANGED <<bad, cnt>>
Spec == Init /\ [][Step]_vars
Done == l = Len(Trace) + 1 =>
          PrintT(<<"VERDICT", ToJson([consumed |-> l - 1, bad |-> bad, cnt |-> cnt])>>)
=============================================================================
