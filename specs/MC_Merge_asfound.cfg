CONSTANTS K = 2  MaxInputs = 2  MaxLen = 2  Fix = FALSE
INIT Init
NEXT Next
INVARIANTS OutputSorted OutputComplete
CHECK_DEADLOCK FALSE
