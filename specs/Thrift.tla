------------------------------- MODULE Thrift -------------------------------
(* Generic parser of the Thrift COMPACT protocol over a sequence of bytes,      *)
(* written from the protocol description (thrift/doc/specs/thrift-compact-      *)
(* protocol.md), independent of the Go code.  A parsed value is a record:       *)
(*   [t |-> "bool", v]            v in {0, 1}                                    *)
(*   [t |-> "int",  g]            g = the 7-bit groups of the zigzag varint      *)
(*   [t |-> "dbl",  b]            8 bytes                                        *)
(*   [t |-> "bin",  b]            bytes                                          *)
(*   [t |-> "list", e]            sequence of values                             *)
(*   [t |-> "struct", f]          sequence of <<field id, value>>                *)
(* Every parsing operator returns <<value, index of the next byte>>; a          *)
(* malformed input yields [t |-> "bad"] and an index beyond the input.          *)
EXTENDS Integers, Sequences, TLC

Bad(bs) == <<[t |-> "bad"], Len(bs) + 2>>

RECURSIVE TVarEnd(_, _)
TVarEnd(bs, i) == IF i > Len(bs) THEN 0 ELSE IF bs[i] < 128 THEN i ELSE TVarEnd(bs, i + 1)
\* the 7-bit groups of the varint at i, least significant first
Groups(bs, i) == LET j == TVarEnd(bs, i) IN [k \in 1..(j - i + 1) |-> bs[i + k - 1] % 128]
RECURSIVE GVal(_, _)
GVal(g, k) == IF k > Len(g) THEN 0 ELSE g[k] + 128 * GVal(g, k + 1)
\* integers that fit TLC (at most 4 groups + 3 bits): sizes, offsets, counts, enum values
Small(g) == Len(g) <= 4 \/ (Len(g) = 5 /\ g[5] < 8)
UInt(g) == GVal(g, 1)
ZInt(g) == LET n == UInt(g) IN IF n % 2 = 0 THEN n \div 2 ELSE -((n + 1) \div 2)

RECURSIVE TValue(_, _, _), TFields(_, _, _, _), TElems(_, _, _, _, _)
TValue(bs, i, ty) ==
  IF i > Len(bs) + 1 THEN Bad(bs) ELSE
  CASE ty = 1 -> <<[t |-> "bool", v |-> 1], i>>
    [] ty = 2 -> <<[t |-> "bool", v |-> 0], i>>
    [] ty = 3 -> IF i > Len(bs) THEN Bad(bs) ELSE <<[t |-> "int", g |-> <<(IF bs[i] < 128 THEN 2 * bs[i] ELSE 2 * (256 - bs[i]) - 1) % 128, (IF bs[i] < 128 THEN 2 * bs[i] ELSE 2 * (256 - bs[i]) - 1) \div 128>>], i + 1>>
    [] ty \in {4, 5, 6} -> IF TVarEnd(bs, i) = 0 THEN Bad(bs) ELSE <<[t |-> "int", g |-> Groups(bs, i)], TVarEnd(bs, i) + 1>>
    [] ty = 7 -> IF i + 7 > Len(bs) THEN Bad(bs) ELSE <<[t |-> "dbl", b |-> SubSeq(bs, i, i + 7)], i + 8>>
    [] ty = 8 -> IF TVarEnd(bs, i) = 0 \/ ~Small(Groups(bs, i)) THEN Bad(bs)
                 ELSE LET n == UInt(Groups(bs, i))  j == TVarEnd(bs, i) + 1 IN
                      IF j + n - 1 > Len(bs) THEN Bad(bs) ELSE <<[t |-> "bin", b |-> SubSeq(bs, j, j + n - 1)], j + n>>
    [] ty \in {9, 10} ->
         IF i > Len(bs) THEN Bad(bs) ELSE
         LET h == bs[i]
             et == h % 16
             short == (h \div 16) < 15
         IN IF short THEN TElems(bs, i + 1, et, h \div 16, <<>>)
            ELSE IF TVarEnd(bs, i + 1) = 0 \/ ~Small(Groups(bs, i + 1)) THEN Bad(bs)
            ELSE TElems(bs, TVarEnd(bs, i + 1) + 1, et, UInt(Groups(bs, i + 1)), <<>>)
    [] ty = 12 -> TFields(bs, i, 0, <<>>)
    [] OTHER -> Bad(bs)
\* list elements: booleans in lists are one byte each (1 = true, 2 = false)
TElems(bs, i, et, n, acc) ==
  IF n = 0 THEN <<[t |-> "list", e |-> acc], i>>
  ELSE IF i > Len(bs) THEN Bad(bs)
  ELSE IF et \in {1, 2} THEN TElems(bs, i + 1, et, n - 1, Append(acc, [t |-> "bool", v |-> IF bs[i] = 1 THEN 1 ELSE 0]))
  ELSE LET r == TLCEval(TValue(bs, i, et)) IN
       IF r[1].t = "bad" THEN Bad(bs) ELSE TElems(bs, r[2], et, n - 1, Append(acc, r[1]))
TFields(bs, i, lastId, acc) ==
  IF i > Len(bs) THEN Bad(bs) ELSE
  LET h == bs[i] IN
  IF h = 0 THEN <<[t |-> "struct", f |-> acc], i + 1>>
  ELSE LET ty == h % 16
           delta == h \div 16
           idr == IF delta = 0 THEN <<ZInt(Groups(bs, i + 1)), TVarEnd(bs, i + 1) + 1>> ELSE <<lastId + delta, i + 1>>
           r == TLCEval(TValue(bs, idr[2], ty))
       IN IF (delta = 0 /\ TVarEnd(bs, i + 1) = 0) \/ r[1].t = "bad" THEN Bad(bs)
          ELSE TFields(bs, r[2], idr[1], Append(acc, <<idr[1], r[1]>>))

\* a struct starting at byte i
Struct(bs, i) == TLCEval(TValue(bs, i, 12))

Absent == [t |-> "absent"]
Field(s, id) == LET m == SelectSeq(s.f, LAMBDA p : p[1] = id) IN IF Len(m) = 0 THEN Absent ELSE m[1][2]
Has(s, id) == Field(s, id).t # "absent"
I(v) == ZInt(v.g)                      \* integer field (must be Small)
IOr(s, id, dflt) == IF Has(s, id) THEN I(Field(s, id)) ELSE dflt
IsSmallInt(v) == v.t = "int" /\ Small(v.g)
L(v) == v.e                            \* list elements
B(v) == v.b                            \* binary / string bytes
=============================================================================
