-------------------------------- MODULE Sink --------------------------------
(* Implementation-shaped model of how a sink failure reaches the caller of   *)
(* the writer (writer.go: offsetTrackingWriter :2855, the optional           *)
(* bufio.Writer created from WriteBufferSize, writeRowGroup / close).        *)
(*                                                                           *)
(* API calls produce "chunks" of bytes.  With a write buffer the chunks go   *)
(* through bufio.Writer: bytes are buffered, the sink is written when the    *)
(* buffer fills or on Flush (Close), and the FIRST sink error is sticky -    *)
(* every later Write/Flush returns it.  Without a buffer every chunk is one  *)
(* sink write whose error is returned by the API call that caused it.        *)
(* Write(rows) only buffers rows in column buffers (no bytes); Flush writes  *)
(* the row group's pages; Close writes header/footer and flushes.            *)
EXTENDS Integers, Sequences, FiniteSets, TLC

CONSTANTS BufSizes,   \* e.g. {0, 4}: 0 = unbuffered
          FailAts,    \* sink write call index that fails (1-based)
          MaxOps

VARIABLES cfg,        \* [buf, failAt]
          buffered,   \* bytes in the bufio buffer
          sinkWrites, \* number of sink write calls so far
          failed,     \* the sink failure happened
          sticky,     \* bufio's recorded error
          errs,       \* for every API call so far: did it return an error
          pendingRows, closed
vars == <<cfg, buffered, sinkWrites, failed, sticky, errs, pendingRows, closed>>

Init == /\ cfg \in [buf : BufSizes, failAt : FailAts]
        /\ buffered = 0 /\ sinkWrites = 0 /\ failed = FALSE /\ sticky = FALSE
        /\ errs = <<>> /\ pendingRows = FALSE /\ closed = FALSE

\* one sink write call; returns <<failed now, new count>>
SinkWrite(n) == <<n + 1 = cfg.failAt, n + 1>>

\* push a chunk of `size` bytes; result record [buffered, sinkWrites, failed, sticky, err]
Push(st, size) ==
  IF cfg.buf = 0
  THEN LET r == SinkWrite(st.sinkWrites) IN
       [st EXCEPT !.sinkWrites = r[2], !.failed = st.failed \/ r[1], !.err = st.err \/ r[1]]
  ELSE IF st.sticky THEN [st EXCEPT !.err = TRUE]                       \* bufio: sticky error
  ELSE IF st.buffered + size < cfg.buf THEN [st EXCEPT !.buffered = @ + size]
  ELSE LET r == SinkWrite(st.sinkWrites) IN                             \* buffer full: flush to the sink
       [st EXCEPT !.sinkWrites = r[2], !.failed = st.failed \/ r[1], !.sticky = r[1], !.err = st.err \/ r[1],
                  !.buffered = 0]
FlushBuf(st) ==
  IF cfg.buf = 0 THEN st
  ELSE IF st.sticky THEN [st EXCEPT !.err = TRUE]
  ELSE IF st.buffered = 0 THEN st
  ELSE LET r == SinkWrite(st.sinkWrites) IN
       [st EXCEPT !.sinkWrites = r[2], !.failed = st.failed \/ r[1], !.sticky = r[1], !.err = st.err \/ r[1], !.buffered = 0]

St == [buffered |-> buffered, sinkWrites |-> sinkWrites, failed |-> failed, sticky |-> sticky, err |-> FALSE]
Set(st) == /\ buffered' = st.buffered /\ sinkWrites' = st.sinkWrites /\ failed' = st.failed /\ sticky' = st.sticky
           /\ errs' = Append(errs, st.err)

WriteRows == /\ ~closed /\ Len(errs) < MaxOps
             /\ pendingRows' = TRUE /\ Set(St) /\ UNCHANGED <<cfg, closed>>
FlushRG == /\ ~closed /\ Len(errs) < MaxOps
           /\ (IF pendingRows THEN Set(Push(Push(St, 3), 3)) ELSE Set(St))    \* header magic + pages
           /\ pendingRows' = FALSE /\ UNCHANGED <<cfg, closed>>
Close == /\ ~closed /\ Len(errs) < MaxOps
         /\ Set(FlushBuf(Push(IF pendingRows THEN Push(St, 3) ELSE St, 5)))   \* pages, footer, bufio.Flush
         /\ pendingRows' = FALSE /\ closed' = TRUE /\ UNCHANGED cfg

Next == WriteRows \/ FlushRG \/ Close
Spec == Init /\ [][Next]_vars

\* requirement (C14, write side): a sink failure is reported by some call, at the latest by Close
Reported == (closed /\ failed) => \E i \in 1..Len(errs) : errs[i]
NothingLost == (closed /\ ~failed) => buffered = 0
=============================================================================
