CONSTANTS
  TraceFile = "trace.ndjson"
INIT MInit
NEXT Step
INVARIANT Done
CHECK_DEADLOCK FALSE
