CONSTANT TraceFile = "trace.ndjson"
INIT Init
NEXT Step
INVARIANT Done
CHECK_DEADLOCK FALSE
