------------------------------- MODULE ConcMon -------------------------------
(* VERDICT monitor for C15 (usage patterns other than the async page protocol,  *)
(* which AsyncTrace.tla validates).                                             *)
(*   Init    sc, pat                                                            *)
(*   Serial  task, digest    result of the task when the work is done serially  *)
(*   Conc    task, digest    result of the same task in the concurrent run      *)
(*   Publish kind, got       pointers observed by the callers of a lazily       *)
(*                           published object (numbered by first appearance)    *)
(*   Panic   msg             a goroutine panicked inside the library            *)
(*   Hang                    the pattern did not complete (deadlock)            *)
(*   Race    msg             the Go race detector reported a data race          *)
(* Requirement: Conc results equal the Serial results task by task, every       *)
(* caller of a lazily published object got the same pointer, no panic / hang /  *)
(* race.                                                                        *)
EXTENDS Integers, Sequences, FiniteSets, TLC, Json
CONSTANT TraceFile
Trace == ndJsonDeserialize(TraceFile)
VARIABLES l, pat, serial, bad, cnt
vars == <<l, pat, serial, bad, cnt>>
E == Trace[l]
MaxBad == 300
Flag(c) ==
  /\ bad' = (IF Len(bad) < MaxBad THEN Append(bad, <<E.t, E.i, c>>) ELSE bad)
  /\ cnt' = [cnt EXCEPT !.flagged = @ + 1]
Init == l = 1 /\ pat = "-" /\ serial = <<>> /\ bad = <<>>
        /\ cnt = [traces |-> 0, serial |-> 0, compared |-> 0, published |-> 0, flagged |-> 0]
Same(s) == \A i, j \in 1..Len(s) : s[i] = s[j]
Step ==
  /\ l <= Len(Trace) /\ l' = l + 1
  /\ CASE E.ev = "Init" -> pat' = E.pat /\ serial' = <<>> /\ bad' = bad /\ cnt' = [cnt EXCEPT !.traces = @ + 1]
       [] E.ev = "Serial" -> /\ serial' = Append(serial, <<E.task, E.digest>>)
                             /\ pat' = pat /\ bad' = bad /\ cnt' = [cnt EXCEPT !.serial = @ + 1]
       [] E.ev = "Conc" ->
            /\ UNCHANGED <<pat, serial>>
            /\ IF \E k \in 1..Len(serial) : serial[k] = <<E.task, E.digest>>
               THEN bad' = bad /\ cnt' = [cnt EXCEPT !.compared = @ + 1]
               ELSE Flag("diverge@" \o pat)
       [] E.ev = "Publish" ->
            /\ UNCHANGED <<pat, serial>>
            /\ IF Len(E.got) > 0 /\ Same(E.got) /\ E.got[1] # 0
               THEN bad' = bad /\ cnt' = [cnt EXCEPT !.published = @ + 1]
               ELSE Flag("publish@" \o E.kind)
       [] E.ev = "Panic" -> UNCHANGED <<pat, serial>> /\ Flag("panic@" \o pat)
       [] E.ev = "Hang" -> UNCHANGED <<pat, serial>> /\ Flag("hang@" \o pat)
       \* the process died inside the library (fatal error / unrecovered panic / signal while the tasks were running)
       [] E.ev = "Fatal" -> UNCHANGED <<pat, serial>> /\ Flag("fatal@" \o pat)
       [] E.ev = "Race" -> UNCHANGED <<pat, serial>> /\ Flag("race")
       [] OTHER -> UNCHANGED <<pat, serial, bad, cnt>>
Spec == Init /\ [][Step]_vars
Done == l = Len(Trace) + 1 =>
          PrintT(<<"VERDICT", ToJson([consumed |-> l - 1, bad |-> bad, cnt |-> cnt])>>)
=============================================================================
