CONSTANTS NP = 3  MaxOps = 5  Tampers = {"none", "flip", "swap", "otherfile", "othercol", "otherrg"}
SPECIFICATION Spec
INVARIANTS OrdinalsAgree RoundTrip Authentic
CHECK_DEADLOCK FALSE
