CONSTANTS MaxOps = 6  Fix = TRUE
SPECIFICATION Spec
INVARIANT ResetIsFresh
VIEW view
CHECK_DEADLOCK FALSE
