------------------------------ MODULE Encodings ------------------------------
(* The Parquet page encodings, written from the format specification          *)
(* (Encodings.md) as DECODERS over sequences of bytes (0..255).  They are the   *)
(* independent decoder of C04 and C02: nothing here is derived from the Go     *)
(* code.  TLC integers are 32-bit, so values wider than 31 bits never become    *)
(* integers: a decoded value is the sequence of its little-endian bytes (what   *)
(* PLAIN would store), arithmetic on them is byte-wise with carry.              *)
(*                                                                              *)
(*   Plain*            PLAIN for fixed-width types, BYTE_ARRAY, booleans        *)
(*   Hybrid            RLE / bit-packed hybrid: <varint header> runs            *)
(*   BitPackedMSB      the deprecated BIT_PACKED level encoding                 *)
(*   DeltaBinaryPacked DELTA_BINARY_PACKED (block / miniblock, wrap-around)     *)
(*   DeltaLengthByteArray, DeltaByteArray                                       *)
(*   ByteStreamSplit                                                            *)
(*   dictionary indexes: <bit width byte> Hybrid                                *)
EXTENDS Integers, Sequences, FiniteSets, TLC

Pow2(n) == 2 ^ n
MinOf(a, b) == IF a < b THEN a ELSE b
Take(s, n) == SubSeq(s, 1, MinOf(n, Len(s)))
Drop(s, n) == SubSeq(s, n + 1, Len(s))
Zeros(n) == [i \in 1..n |-> 0]

\* bit k (0-based, LSB first inside each byte) of the byte sequence bs, 0 beyond the end
BitAt(bs, k) == IF k \div 8 + 1 > Len(bs) THEN 0 ELSE (bs[k \div 8 + 1] \div Pow2(k % 8)) % 2
\* w bits starting at bit position p, LSB first
BitsAt(bs, p, w) == [j \in 1..w |-> BitAt(bs, p + j - 1)]
\* little-endian bytes of a bit sequence (LSB first), padded to n bytes
BitsToBytes(bits, n) ==
  [i \in 1..n |-> LET b(j) == IF 8 * (i - 1) + j <= Len(bits) THEN bits[8 * (i - 1) + j] ELSE 0
                  IN b(1) + 2 * b(2) + 4 * b(3) + 8 * b(4) + 16 * b(5) + 32 * b(6) + 64 * b(7) + 128 * b(8)]
\* integer value of at most 30 bits
RECURSIVE BitsToInt(_)
BitsToInt(bits) == IF Len(bits) = 0 THEN 0 ELSE bits[1] + 2 * BitsToInt(Tail(bits))
\* little-endian bytes -> integer (at most 3 significant bytes + one below 64)
LEInt(bs) == IF Len(bs) = 0 THEN 0 ELSE
             bs[1] + (IF Len(bs) > 1 THEN 256 * bs[2] ELSE 0) + (IF Len(bs) > 2 THEN 65536 * bs[3] ELSE 0)
                   + (IF Len(bs) > 3 THEN 16777216 * bs[4] ELSE 0)
IntLE(x, n) == [i \in 1..n |-> (x \div Pow2(8 * (i - 1))) % 256]          \* for 0 <= x < 2^31, n <= 4

\* wrap-around addition of two little-endian numbers of n bytes
\* (recursive operators with accumulators throughout: TLC does not memoise recursive function definitions)
RECURSIVE AddC(_, _, _, _, _)
AddC(a, b, i, c, acc) == IF i > Len(a) THEN acc
                         ELSE LET t == TLCEval(a[i] + b[i] + c) IN AddC(a, b, i + 1, t \div 256, Append(acc, t % 256))
AddLE(a, b, n) == AddC(a, b, 1, 0, <<>>)

------------------------------------------------------------------------------
(* ULEB128 varints.  VarEnd: index of the last byte of the varint starting at i *)
RECURSIVE VarEnd(_, _)
VarEnd(bs, i) == IF i > Len(bs) THEN 0 ELSE IF bs[i] < 128 THEN i ELSE VarEnd(bs, i + 1)
VarOK(bs, i) == VarEnd(bs, i) # 0 /\ VarEnd(bs, i) - i < 10
\* the payload bits of the varint at i (7 per byte, LSB first)
VarBits(bs, i) == LET e == VarEnd(bs, i) IN [k \in 1..7 * (e - i + 1) |-> (bs[i + (k - 1) \div 7] \div Pow2((k - 1) % 7)) % 2]
\* small unsigned varint as an integer (callers use it for counts and lengths: < 2^28)
UVar(bs, i) == BitsToInt(Take(VarBits(bs, i), 28))
VarSmall(bs, i) == VarOK(bs, i) /\ \A k \in 29..Len(VarBits(bs, i)) : VarBits(bs, i)[k] = 0
\* zigzag varint as n little-endian bytes:  (u >>> 1) XOR -(u AND 1)
ZigZagLE(bs, i, n) ==
  LET u == VarBits(bs, i)
      bit(k) == IF k <= Len(u) THEN u[k] ELSE 0
  IN BitsToBytes([k \in 1..8 * n |-> (bit(k + 1) + bit(1)) % 2], n)

------------------------------------------------------------------------------
(* PLAIN *)
\* n fixed-width values of w bytes each
PlainFixed(bs, w, n) == [k \in 1..n |-> SubSeq(bs, (k - 1) * w + 1, k * w)]
PlainFixedOK(bs, w, n) == Len(bs) = w * n
\* BYTE_ARRAY: 4-byte little-endian length, then the bytes
RECURSIVE PlainByteArrays(_, _, _)
PlainByteArrays(bs, i, acc) ==
  IF i > Len(bs) THEN acc
  ELSE IF i + 3 > Len(bs) \/ bs[i + 3] >= 64 THEN Append(acc, <<-1>>)
  ELSE LET n == LEInt(SubSeq(bs, i, i + 3)) IN
       IF i + 3 + n > Len(bs) THEN Append(acc, <<-1>>)
       ELSE PlainByteArrays(bs, i + 4 + n, Append(acc, SubSeq(bs, i + 4, i + 3 + n)))
\* booleans: one bit each, LSB first
PlainBooleans(bs, n) == [k \in 1..n |-> BitAt(bs, k - 1)]

------------------------------------------------------------------------------
(* RLE / bit-packed hybrid, values of `w` bits.  A value is returned as its    *)
(* bit sequence (LSB first); callers turn it into an integer or into bytes.    *)
(*   header = varint; header AND 1 = 1: bit-packed run of (header>>1) groups   *)
(*   of 8 values; otherwise an RLE run of (header>>1) copies of one value      *)
(*   stored in ceil(w/8) bytes.                                                *)
RECURSIVE HybridRuns(_, _, _, _, _)
HybridRuns(bs, i, w, limit, acc) ==
  IF i > Len(bs) \/ Len(acc) >= limit THEN acc
  ELSE IF ~VarSmall(bs, i) THEN Append(acc, <<-1>>)
  ELSE LET h == TLCEval(UVar(bs, i))
           j == TLCEval(VarEnd(bs, i) + 1)
           cnt == h \div 2
       IN IF h % 2 = 1
          THEN \* bit-packed: cnt groups of 8 values, w bytes per group; a truncated last group is zero-padded
               LET avail == 8 * (Len(bs) - j + 1)
                   nvals == IF w = 0 THEN 8 * cnt ELSE MinOf(8 * cnt, (avail + w - 1) \div w)
                   run == [k \in 1..nvals |-> BitsAt(bs, 8 * (j - 1) + (k - 1) * w, w)]
               IN HybridRuns(bs, j + cnt * w, w, limit, acc \o run)
          ELSE LET nb == (w + 7) \div 8
                   v == BitsAt(bs, 8 * (j - 1), w)
               IN IF j + nb - 1 > Len(bs) THEN Append(acc, <<-1>>)
                  ELSE HybridRuns(bs, j + nb, w, limit, acc \o [k \in 1..MinOf(cnt, limit) |-> v])
Hybrid(bs, w, limit) == HybridRuns(bs, 1, w, limit, <<>>)
HybridInts(bs, w, limit) == LET r == Hybrid(bs, w, limit) IN [k \in 1..Len(r) |-> BitsToInt(r[k])]
HybridBytes(bs, w, limit, n) == LET r == Hybrid(bs, w, limit) IN [k \in 1..Len(r) |-> BitsToBytes(r[k], n)]

\* deprecated BIT_PACKED: values packed back to back, most significant bit first
BitPackedMSB(bs, w, n) ==
  LET bitM(p) == IF p \div 8 + 1 > Len(bs) THEN 0 ELSE (bs[p \div 8 + 1] \div Pow2(7 - (p % 8))) % 2
  IN [k \in 1..n |-> BitsToInt([j \in 1..w |-> bitM((k - 1) * w + w - j)])]

------------------------------------------------------------------------------
(* DELTA_BINARY_PACKED, values of n bytes (4 or 8).                             *)
(*   header: <block size> <miniblocks per block> <total count> <first value>    *)
(*   block:  <min delta> <bit width per miniblock> <miniblocks>                 *)
(*   value = previous + min delta + packed delta   (wrap-around)                *)
(* Returns [vals, next]: the decoded values and the index after the last byte   *)
(* consumed (the encoding is self-delimiting, which DELTA_LENGTH_BYTE_ARRAY     *)
(* and DELTA_BYTE_ARRAY rely on).                                               *)
RECURSIVE DeltaMini(_, _, _, _, _, _, _, _), DeltaMinis(_, _, _, _, _, _, _, _, _), DeltaBlocks(_, _, _, _, _, _, _)
\* one miniblock: `left` packed deltas of width w starting at bit position p; prev is the last value
DeltaMini(bs, p, w, left, minD, n, prev, acc) ==
  IF left = 0 THEN acc
  ELSE LET v == TLCEval(AddLE(AddLE(prev, minD, n), BitsToBytes(BitsAt(bs, p, w), n), n))
       IN DeltaMini(bs, p + w, w, left - 1, minD, n, v, Append(acc, v))
\* miniblocks m..mbs of a block: wj = index of the bit-width bytes, j = first data byte of miniblock m
DeltaMinis(bs, m, mbs, wj, j, per, total, minD_n, acc) ==
  IF m > mbs \/ Len(acc) >= total THEN <<acc, j>>        \* unused trailing miniblocks carry no data
  ELSE LET w == bs[wj + m - 1]
           acc2 == TLCEval(DeltaMini(bs, 8 * (j - 1), w, MinOf(per, total - Len(acc)), minD_n[1], minD_n[2], acc[Len(acc)], acc))
       IN DeltaMinis(bs, m + 1, mbs, wj, j + (per * w) \div 8, per, total, minD_n, acc2)
DeltaBlocks(bs, i, bsize, mbs, total, n, acc) ==
  IF Len(acc) >= total THEN [vals |-> acc, next |-> i]
  ELSE IF ~VarOK(bs, i) THEN [vals |-> Append(acc, <<-1>>), next |-> Len(bs) + 1]
  ELSE LET minD == TLCEval(ZigZagLE(bs, i, n))
           wj == TLCEval(VarEnd(bs, i) + 1)                      \* the bit widths, one byte per miniblock
       IN IF wj + mbs - 1 > Len(bs) THEN [vals |-> Append(acc, <<-1>>), next |-> Len(bs) + 1]
          ELSE LET r == TLCEval(DeltaMinis(bs, 1, mbs, wj, wj + mbs, bsize \div mbs, total, <<minD, n>>, acc))
               IN DeltaBlocks(bs, r[2], bsize, mbs, total, n, r[1])
DeltaBinaryPackedAt(bs, i, n) ==
  IF i > Len(bs) THEN [vals |-> <<>>, next |-> i]
  ELSE IF ~(VarSmall(bs, i)) THEN [vals |-> <<<<-1>>>>, next |-> Len(bs) + 1]
  ELSE
  LET bsize == TLCEval(UVar(bs, i))        i2 == TLCEval(VarEnd(bs, i) + 1)
      mbs == TLCEval(UVar(bs, i2))         i3 == TLCEval(VarEnd(bs, i2) + 1)
      total == TLCEval(UVar(bs, i3))       i4 == TLCEval(VarEnd(bs, i3) + 1)
      first == TLCEval(ZigZagLE(bs, i4, n))  i5 == TLCEval(VarEnd(bs, i4) + 1)
  IN IF total = 0 THEN [vals |-> <<>>, next |-> i5]
     ELSE IF mbs = 0 \/ bsize % 128 # 0 \/ (bsize \div mbs) % 32 # 0 THEN [vals |-> <<<<-1>>>>, next |-> Len(bs) + 1]
     ELSE DeltaBlocks(bs, i5, bsize, mbs, total, n, <<first>>)
DeltaBinaryPacked(bs, n) == DeltaBinaryPackedAt(bs, 1, n).vals

\* DELTA_LENGTH_BYTE_ARRAY: the lengths (DELTA_BINARY_PACKED int32), then all the bytes
RECURSIVE Slices(_, _, _, _, _)
Slices(bs, lens, k, at, acc) ==
  IF k > Len(lens) THEN [vals |-> acc, next |-> at, ok |-> TRUE]
  ELSE IF lens[k][4] >= 64 \/ at + LEInt(lens[k]) - 1 > Len(bs) THEN [vals |-> Append(acc, <<-1>>), next |-> Len(bs) + 1, ok |-> FALSE]
  ELSE Slices(bs, lens, k + 1, at + LEInt(lens[k]), Append(acc, SubSeq(bs, at, at + LEInt(lens[k]) - 1)))
DeltaLengthAt(bs, i) == LET d == TLCEval(DeltaBinaryPackedAt(bs, i, 4)) IN Slices(bs, d.vals, 1, d.next, <<>>)
DeltaLengthByteArray(bs) == DeltaLengthAt(bs, 1).vals

\* DELTA_BYTE_ARRAY: prefix lengths (DELTA_BINARY_PACKED), then the suffixes (DELTA_LENGTH_BYTE_ARRAY)
RECURSIVE Unprefix(_, _, _, _, _)
Unprefix(pre, suf, k, prev, acc) ==
  IF k > Len(pre) THEN acc
  ELSE LET v == TLCEval(Take(prev, LEInt(pre[k])) \o suf[k]) IN Unprefix(pre, suf, k + 1, v, Append(acc, v))
DeltaByteArray(bs) ==
  IF Len(bs) = 0 THEN <<>> ELSE
  LET p == TLCEval(DeltaBinaryPackedAt(bs, 1, 4))
      suf == TLCEval(DeltaLengthAt(bs, p.next).vals)
  IN IF Len(suf) # Len(p.vals) THEN <<<<-1>>>> ELSE Unprefix(p.vals, suf, 1, <<>>, <<>>)

------------------------------------------------------------------------------
(* BYTE_STREAM_SPLIT: byte j of value k is at  (j-1) * n + k  *)
ByteStreamSplit(bs, w) == LET n == Len(bs) \div w IN [k \in 1..n |-> [j \in 1..w |-> bs[(j - 1) * n + k]]]

------------------------------------------------------------------------------
(* dictionary indexes: one byte of bit width, then the hybrid *)
DictIndexes(bs, limit) == IF Len(bs) = 0 THEN <<>> ELSE HybridInts(Tail(bs), bs[1], limit)
=============================================================================
