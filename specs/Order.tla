-------------------------------- MODULE Order --------------------------------
(* Orders on the token/byte representations that travel in traces.           *)
(* A value is a sequence of integers compared lexicographically (a shorter   *)
(* sequence that is a prefix of a longer one is smaller): small integers are *)
(* one-element sequences, byte strings are their bytes (unsigned), and       *)
(* NullTok (<<-1>>) is the null value.                                       *)
EXTENDS Integers, Sequences

NullTok == <<-1>>
IsNullTok(a) == a = NullTok

RECURSIVE LexCmpFrom(_, _, _)
LexCmpFrom(a, b, i) ==
  IF i > Len(a) THEN (IF i > Len(b) THEN 0 ELSE -1)
  ELSE IF i > Len(b) THEN 1
  ELSE IF a[i] < b[i] THEN -1
  ELSE IF a[i] > b[i] THEN 1
  ELSE LexCmpFrom(a, b, i + 1)
LexCmp(a, b) == LexCmpFrom(a, b, 1)
LexLE(a, b) == LexCmp(a, b) <= 0
LexLT(a, b) == LexCmp(a, b) < 0

\* bounds over a sequence of values (nulls ignored)
NonNull(vals) == SelectSeq(vals, LAMBDA x : ~IsNullTok(x))
IsLowerBound(m, vals) == \A i \in 1..Len(vals) : IsNullTok(vals[i]) \/ LexLE(m, vals[i])
IsUpperBound(m, vals) == \A i \in 1..Len(vals) : IsNullTok(vals[i]) \/ LexLE(vals[i], m)
=============================================================================
