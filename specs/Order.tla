-------------------------------- MODULE Order --------------------------------
(* Orders on the token/byte representations that travel in traces.           *)
(* A value is a sequence of integers compared lexicographically (a shorter   *)
(* sequence that is a prefix of a longer one is smaller): small integers are *)
(* one-element sequences, byte strings are their bytes (unsigned), and       *)
(* NullTok (<<-1>>) is the null value.                                       *)
EXTENDS Integers, Sequences

NullTok == <<-1>>
IsNullTok(a) == a = NullTok

RECURSIVE LexCmpFrom(_, _, _)
LexCmpFrom(a, b, i) ==
  IF i > Len(a) THEN (IF i > Len(b) THEN 0 ELSE -1)
  ELSE IF i > Len(b) THEN 1
  ELSE IF a[i] < b[i] THEN -1
  ELSE IF a[i] > b[i] THEN 1
  ELSE LexCmpFrom(a, b, i + 1)
LexCmp(a, b) == LexCmpFrom(a, b, 1)
LexLE(a, b) == LexCmp(a, b) <= 0
LexLT(a, b) == LexCmp(a, b) < 0

(* ---- column orders on PLAIN byte representations ---------------------------- *)
(* A value of a typed column travels as its PLAIN bytes (little-endian for      *)
(* numbers, raw bytes for byte arrays, big-endian two's complement for DECIMAL  *)
(* stored in FIXED_LEN_BYTE_ARRAY).  Key(kind, b) maps it to an integer         *)
(* sequence whose lexicographic order is the column's sort order as defined by  *)
(* the Parquet format (ColumnOrder TYPE_ORDER): signed / unsigned integers,     *)
(* IEEE order for floats with -0 = +0 (NaN has no place in the order),          *)
(* unsigned byte-wise for BYTE_ARRAY, signed for DECIMAL.                       *)
Rev(b) == [i \in 1..Len(b) |-> b[Len(b) + 1 - i]]
FlipSign(b) == [i \in 1..Len(b) |-> IF i = 1 THEN (b[1] + 128) % 256 ELSE b[i]]
Invert(b) == [i \in 1..Len(b) |-> 255 - b[i]]
AllZeroFrom(b, k) == \A i \in k..Len(b) : b[i] = 0

\* big-endian float bytes: exponent all ones and mantissa non-zero
IsNaNBE(b) ==
  IF Len(b) = 4 THEN b[1] % 128 = 127 /\ b[2] >= 128 /\ ~(b[2] = 128 /\ AllZeroFrom(b, 3))
  ELSE b[1] % 128 = 127 /\ b[2] >= 240 /\ ~(b[2] = 240 /\ AllZeroFrom(b, 3))
IsNaN(kind, b) == kind \in {"float", "double"} /\ IsNaNBE(Rev(b))

FloatKey(be) ==
  IF be[1] = 128 /\ AllZeroFrom(be, 2) THEN FlipSign([i \in 1..Len(be) |-> 0])   \* -0 = +0
  ELSE IF be[1] >= 128 THEN Invert(be) ELSE FlipSign(be)

Key(kind, b) ==
  CASE kind \in {"int32", "int64"}   -> FlipSign(Rev(b))
    [] kind \in {"uint32", "uint64"} -> Rev(b)
    [] kind \in {"float", "double"}  -> FloatKey(Rev(b))
    [] kind = "decimal"               -> FlipSign(b)
    [] kind = "boolean"               -> b
    [] OTHER                          -> b            \* bytes, string, fixed (unsigned byte-wise)

KLE(kind, a, b) == LexLE(Key(kind, a), Key(kind, b))

\* bounds over a sequence of values (nulls ignored)
NonNull(vals) == SelectSeq(vals, LAMBDA x : ~IsNullTok(x))
IsLowerBound(m, vals) == \A i \in 1..Len(vals) : IsNullTok(vals[i]) \/ LexLE(m, vals[i])
IsUpperBound(m, vals) == \A i \in 1..Len(vals) : IsNullTok(vals[i]) \/ LexLE(vals[i], m)
=============================================================================
