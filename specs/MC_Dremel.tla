----------------------------- MODULE MC_Dremel -----------------------------
(* Self-check of the Dremel library over the curated schema universe U, and  *)
(* scenario emission for C03/C01/C12.                                        *)
EXTENDS Dremel, TLC, Json

CONSTANTS Tok,       \* leaf tokens, e.g. {1} (the harness renumbers leaves in traversal order)
          MaxList,   \* max list length
          Fam        \* which schema families: subset of {"single", "fork1", "fork2"}

Reps == {"req", "opt", "rep"}
Leaf(r) == [k |-> "leaf", rep |-> r, fields |-> <<>>, lt |-> ""]
Group(r, fs) == [k |-> "group", rep |-> r, fields |-> fs, lt |-> ""]

\* ancestor chains of length 1..3 ending in a leaf: the root is a required group with one field
Chain1 == {Leaf(a) : a \in Reps}
Chain2 == {Group(a, <<c>>) : a \in Reps, c \in Chain1}
Chain3 == {Group(a, <<c>>) : a \in Reps, c \in Chain2}
Single == {Group("req", <<c>>) : c \in Chain1 \cup Chain2 \cup Chain3}
\* two-leaf forks: siblings at the root, or siblings under one group (any repetition)
Fork1 == {Group("req", <<c1, c2>>) : c1 \in Chain1 \cup Chain2, c2 \in Chain1 \cup Chain2}
Fork2 == {Group("req", << Group(a, <<c1, c2>>) >>) : a \in Reps, c1 \in Chain1 \cup Chain2, c2 \in Chain1}
Schemas == (IF "single" \in Fam THEN Single ELSE {}) \cup (IF "fork1" \in Fam THEN Fork1 ELSE {})
           \cup (IF "fork2" \in Fam THEN Fork2 ELSE {})

SeqsUpTo(S, n) == UNION {[1..m -> S] : m \in 0..n}
RECURSIVE Vals(_), FieldVals(_, _)
FieldVals(fs, i) == IF i > Len(fs) THEN {<<>>}
                    ELSE {<<a>> \o rest : a \in Vals(fs[i]), rest \in FieldVals(fs, i + 1)}
Vals(n) ==
  IF n.rep = "opt" THEN {<<>>} \cup {<<x>> : x \in Vals(Req(n))}
  ELSE IF n.rep = "rep" THEN SeqsUpTo(Vals(Req(n)), MaxList)
  ELSE IF IsLeaf(n) THEN Tok
  ELSE FieldVals(n.fields, 1)

VARIABLES schema, val
Init == /\ schema \in Schemas /\ val \in Vals(schema)
Next == UNCHANGED <<schema, val>>

Streams == ShredRow(schema, val)
Levels == LeafLevels(schema, 0, 0)

RoundTrip == AssembleRow(schema, Streams) = val
LevelsBounded == \A j \in 1..Len(Streams) : \A i \in 1..Len(Streams[j]) :
                    /\ Streams[j][i][2] \in 0..Levels[j][1]
                    /\ Streams[j][i][3] \in 0..Levels[j][2]
                    /\ (Streams[j][i][1] # 0 <=> Streams[j][i][3] = Levels[j][2])
FirstRepZero == \A j \in 1..Len(Streams) : Len(Streams[j]) > 0 /\ Streams[j][1][2] = 0
                   /\ \A i \in 2..Len(Streams[j]) : Streams[j][i][2] > 0
OneStreamPerLeaf == Len(Streams) = NLeaves(schema) /\ Len(Levels) = NLeaves(schema)

\* emission: one scenario per schema (values are enumerated again by the emitting run)
Emit == PrintT(<<"SCENARIO", ToJson([schema |-> schema, value |-> val])>>)
=============================================================================
