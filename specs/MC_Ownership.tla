---------------------------- MODULE MC_Ownership ----------------------------
EXTENDS Ownership, Json
Finish == /\ ops = MaxOps /\ ops' = ops + 1
          /\ PrintT(<<"SCENARIO", ToJson([ops |-> hist])>>)
          /\ UNCHANGED <<state, cur, holds, hist>>
SimNext == Next \/ Finish \/ (ops > MaxOps /\ UNCHANGED vars)
SimSpec == Init /\ [][SimNext]_vars
=============================================================================
