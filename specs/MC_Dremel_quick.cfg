CONSTANTS Tok = {1, 2}  MaxList = 2  Fam = {"single", "fork1"}
INIT Init
NEXT Next
INVARIANTS RoundTrip LevelsBounded FirstRepZero OneStreamPerLeaf
CHECK_DEADLOCK FALSE
