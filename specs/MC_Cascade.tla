----------------------------- MODULE MC_Cascade -----------------------------
EXTENDS Cascade, Json
Emit == PrintT(<<"SCENARIO", ToJson([s |-> s, d |-> d, chosen |-> Chosen(s, d), allowed |-> Allowed(Chosen(s, d), s, d)])>>)
=============================================================================
