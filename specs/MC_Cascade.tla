----------------------------- MODULE MC_Cascade -----------------------------
EXTENDS Cascade, Json
Emit == PrintT(<<"SCENARIO", ToJson([s |-> s, d |-> d, chosen |-> Chosen(s, d), allowed |-> Allowed(Chosen(s, d), s, d),
                                    near |-> IF Cardinality(CopyFails(s, d)) = 1 THEN CHOOSE x \in CopyFails(s, d) : TRUE ELSE ""])>>)
=============================================================================
