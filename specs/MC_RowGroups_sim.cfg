CONSTANTS N = 3  MaxBatches = 7  MaxCommits = 5  Bug = "none"
SPECIFICATION SimSpec
CHECK_DEADLOCK FALSE
